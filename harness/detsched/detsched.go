// Package detsched is a small deterministic cooperative scheduler: tasks run one at a time and
// hand control back at every yield point; the scheduler picks who runs next. Used to drive
// the real stream-id allocator through chosen interleavings of its atomic steps.
package detsched

import "fmt"

type Task struct {
	ID     int
	resume chan struct{}
	event  chan int // >=0: yield point; -1: finished
	body   func(t *Task)
	done   bool
	Steps  int
}

type Sched struct {
	tasks   []*Task
	current *Task
	Choose  func(enabled []int) int // returns an index into enabled
	Trace   []int                   // task id chosen at each step
	Clock   int                     // logical time: number of scheduling steps so far
	MaxSteps int
	Overrun bool
}

func New() *Sched { return &Sched{MaxSteps: 100000} }

func (s *Sched) Add(body func(t *Task)) *Task {
	t := &Task{ID: len(s.tasks), resume: make(chan struct{}), event: make(chan int), body: body}
	s.tasks = append(s.tasks, t)
	return t
}

// Yield is to be installed as the yield callback of the code under test.
func (s *Sched) Yield(point int) {
	t := s.current
	if t == nil {
		return // not under scheduler control (set-up phase)
	}
	t.event <- point
	<-t.resume
}

// Run executes all tasks to completion under the Choose function.
func (s *Sched) Run() (err error) {
	for _, t := range s.tasks {
		t := t
		go func() {
			<-t.resume
			defer func() {
				t.event <- -1
			}()
			t.body(t)
		}()
	}
	for {
		var enabled []int
		for _, t := range s.tasks {
			if !t.done {
				enabled = append(enabled, t.ID)
			}
		}
		if len(enabled) == 0 {
			s.current = nil
			return nil
		}
		if s.Clock >= s.MaxSteps {
			s.Overrun = true
			// let everything run to completion without control
			s.current = nil
			for _, t := range s.tasks {
				if !t.done {
					go func(t *Task) {
						for {
							t.resume <- struct{}{}
							if e := <-t.event; e == -1 {
								return
							}
						}
					}(t)
				}
			}
			return fmt.Errorf("schedule exceeded %d steps", s.MaxSteps)
		}
		k := s.Choose(enabled)
		t := s.tasks[enabled[k]]
		s.Trace = append(s.Trace, t.ID)
		s.Clock++
		s.current = t
		t.Steps++
		t.resume <- struct{}{}
		if e := <-t.event; e == -1 {
			t.done = true
		}
	}
}

// DFS enumerates every schedule of a scenario. build must create a fresh scenario (fresh
// state, fresh Sched with tasks added) each time; it returns the Sched and a function called
// after the run. It returns the number of schedules explored and whether it was complete.
type DFS struct {
	stack []dfsFrame
	Limit int
}

type dfsFrame struct{ n, chosen int }

func (d *DFS) Explore(run func(choose func(enabled []int) int)) (schedules int, complete bool) {
	for {
		depth := 0
		choose := func(enabled []int) int {
			if depth < len(d.stack) {
				c := d.stack[depth].chosen
				depth++
				if c >= len(enabled) {
					c = len(enabled) - 1 // non-determinism in the scenario; stay in range
				}
				return c
			}
			d.stack = append(d.stack, dfsFrame{len(enabled), 0})
			depth++
			return 0
		}
		run(choose)
		schedules++
		// backtrack
		d.stack = d.stack[:depth]
		for len(d.stack) > 0 && d.stack[len(d.stack)-1].chosen+1 >= d.stack[len(d.stack)-1].n {
			d.stack = d.stack[:len(d.stack)-1]
		}
		if len(d.stack) == 0 {
			return schedules, true
		}
		d.stack[len(d.stack)-1].chosen++
		if d.Limit > 0 && schedules >= d.Limit {
			return schedules, false
		}
	}
}
