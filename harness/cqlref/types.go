// Package cqlref is an independent reference implementation of the parts of the CQL native
// protocol (v1-v5 as targeted by gocql: legacy framing) and of Cassandra's token / placement
// algorithms that the oracles need.  It is written from the protocol specifications and does
// not import gocql.
package cqlref

import (
	"fmt"
	"math/big"
	"strings"
)

// Type ids of the native protocol (spec section 4.2.5.2 [option]).
const (
	TCustom    = 0x0000
	TAscii     = 0x0001
	TBigint    = 0x0002
	TBlob      = 0x0003
	TBoolean   = 0x0004
	TCounter   = 0x0005
	TDecimal   = 0x0006
	TDouble    = 0x0007
	TFloat     = 0x0008
	TInt       = 0x0009
	TText      = 0x000A
	TTimestamp = 0x000B
	TUUID      = 0x000C
	TVarchar   = 0x000D
	TVarint    = 0x000E
	TTimeUUID  = 0x000F
	TInet      = 0x0010
	TDate      = 0x0011
	TTime      = 0x0012
	TSmallint  = 0x0013
	TTinyint   = 0x0014
	TDuration  = 0x0015
	TList      = 0x0020
	TMap       = 0x0021
	TSet       = 0x0022
	TUDT       = 0x0030
	TTuple     = 0x0031
)

var typeNames = map[int]string{
	TCustom: "custom", TAscii: "ascii", TBigint: "bigint", TBlob: "blob", TBoolean: "boolean", TCounter: "counter",
	TDecimal: "decimal", TDouble: "double", TFloat: "float", TInt: "int", TText: "text", TTimestamp: "timestamp",
	TUUID: "uuid", TVarchar: "varchar", TVarint: "varint", TTimeUUID: "timeuuid", TInet: "inet", TDate: "date",
	TTime: "time", TSmallint: "smallint", TTinyint: "tinyint", TDuration: "duration", TList: "list", TMap: "map",
	TSet: "set", TUDT: "udt", TTuple: "tuple",
}

// Scalars lists the 21 scalar type ids.
var Scalars = []int{TAscii, TBigint, TBlob, TBoolean, TCounter, TDecimal, TDouble, TFloat, TInt, TText, TTimestamp,
	TUUID, TVarchar, TVarint, TTimeUUID, TInet, TDate, TTime, TSmallint, TTinyint, TDuration}

// Type is a CQL type tree.
type Type struct {
	ID     int
	Custom string
	Key    *Type   // map
	Elem   *Type   // list, set, map value
	Elems  []*Type // tuple elements, UDT field types
	// UDT
	Keyspace string
	Name     string
	Fields   []string
}

func (t *Type) String() string {
	switch t.ID {
	case TList, TSet:
		return fmt.Sprintf("%s<%s>", typeNames[t.ID], t.Elem)
	case TMap:
		return fmt.Sprintf("map<%s,%s>", t.Key, t.Elem)
	case TTuple:
		var s []string
		for _, e := range t.Elems {
			s = append(s, e.String())
		}
		return "tuple<" + strings.Join(s, ",") + ">"
	case TUDT:
		var s []string
		for i, e := range t.Elems {
			s = append(s, t.Fields[i]+":"+e.String())
		}
		return "udt<" + strings.Join(s, ",") + ">"
	case TCustom:
		return "custom(" + t.Custom + ")"
	}
	if n, ok := typeNames[t.ID]; ok {
		return n
	}
	return fmt.Sprintf("type(0x%x)", t.ID)
}

func (t *Type) Name0() string { return typeNames[t.ID] }

func (t *Type) Depth() int {
	d := 0
	for _, c := range []*Type{t.Key, t.Elem} {
		if c != nil && c.Depth() > d {
			d = c.Depth()
		}
	}
	for _, c := range t.Elems {
		if c.Depth() > d {
			d = c.Depth()
		}
	}
	return d + 1
}

func (t *Type) Equal(o *Type) bool {
	if t == nil || o == nil {
		return t == o
	}
	if t.ID != o.ID || t.Custom != o.Custom || t.Keyspace != o.Keyspace || t.Name != o.Name || len(t.Elems) != len(o.Elems) || len(t.Fields) != len(o.Fields) {
		return false
	}
	if !t.Key.Equal(o.Key) || !t.Elem.Equal(o.Elem) {
		return false
	}
	for i := range t.Elems {
		if !t.Elems[i].Equal(o.Elems[i]) {
			return false
		}
	}
	for i := range t.Fields {
		if t.Fields[i] != o.Fields[i] {
			return false
		}
	}
	return true
}

// Val is a logical CQL value, independent of any Go representation.
type Val struct {
	Null bool
	// integers of every width, varint, time (ns of day), timestamp (ms since epoch),
	// date (days since epoch, signed), counter
	I *big.Int
	// float / double: raw IEEE bits
	Bits uint64
	// ascii/text/varchar/blob: bytes; uuid/timeuuid: 16 bytes; inet: 4 or 16 bytes
	B    []byte
	Bool bool
	// decimal: I = unscaled, Scale
	Scale int32
	// duration
	Months, Days int32
	Nanos        int64
	// list/set/tuple/UDT elements; map values
	Elems []Val
	// map keys
	Keys []Val
	// UDT: number of fields actually present (trailing fields may be absent); -1 = all
	Present int
}

func (v Val) String(t *Type) string {
	if v.Null {
		return "null"
	}
	switch t.ID {
	case TBoolean:
		return fmt.Sprint(v.Bool)
	case TFloat, TDouble:
		return fmt.Sprintf("bits:%x", v.Bits)
	case TDecimal:
		return fmt.Sprintf("%se-%d", v.I, v.Scale)
	case TDuration:
		return fmt.Sprintf("%dmo%dd%dns", v.Months, v.Days, v.Nanos)
	case TAscii, TText, TVarchar, TBlob, TUUID, TTimeUUID, TInet:
		if len(v.B) > 24 {
			return fmt.Sprintf("%x..(%d)", v.B[:24], len(v.B))
		}
		return fmt.Sprintf("%x", v.B)
	case TList, TSet, TTuple, TUDT:
		var s []string
		for i, e := range v.Elems {
			var et *Type
			if t.ID == TTuple || t.ID == TUDT {
				et = t.Elems[i]
			} else {
				et = t.Elem
			}
			s = append(s, e.String(et))
			if i > 6 {
				s = append(s, fmt.Sprintf("..(%d)", len(v.Elems)))
				break
			}
		}
		return "[" + strings.Join(s, " ") + "]"
	case TMap:
		var s []string
		for i := range v.Elems {
			s = append(s, v.Keys[i].String(t.Key)+":"+v.Elems[i].String(t.Elem))
			if i > 6 {
				s = append(s, fmt.Sprintf("..(%d)", len(v.Elems)))
				break
			}
		}
		return "{" + strings.Join(s, " ") + "}"
	}
	if v.I != nil {
		return v.I.String()
	}
	return "?"
}
