package cqlref

import "sort"

// Logical descriptions of server responses and their encoders (spec section 4.2).

type Prefix struct {
	TraceID  []byte // 16 bytes, sets the tracing flag
	Warnings []string
	HasWarn  bool
	Payload  map[string][]byte
	HasPay   bool
}

func (p *Prefix) Flags(version int) byte {
	var f byte
	if p == nil {
		return 0
	}
	if p.TraceID != nil {
		f |= FlagTracing
	}
	if p.HasWarn && version >= 4 {
		f |= FlagWarning
	}
	if p.HasPay && version >= 4 {
		f |= FlagPayload
	}
	return f
}

func (p *Prefix) write(w *W, version int) {
	if p == nil {
		return
	}
	if p.TraceID != nil {
		w.UUID(p.TraceID)
	}
	if p.HasWarn && version >= 4 {
		w.StringList(p.Warnings)
	}
	if p.HasPay && version >= 4 {
		keys := make([]string, 0, len(p.Payload))
		for k := range p.Payload {
			keys = append(keys, k)
		}
		sort.Strings(keys)
		w.ShortCount(len(keys))
		for _, k := range keys {
			w.String(k)
			w.Bytes(p.Payload[k])
		}
	}
}

// BuildFrame assembles a response frame. compress, if non-nil, is applied to the body and
// the compression flag is set.
func BuildFrame(version, stream int, op byte, p *Prefix, body *W, compress func([]byte) []byte) ([]byte, []Field) {
	w := &W{}
	p.write(w, version)
	off := len(w.B)
	w.B = append(w.B, body.B...)
	for _, f := range body.Fields {
		w.Fields = append(w.Fields, Field{f.Off + off, f.Size, f.Kind})
	}
	flags := p.Flags(version)
	payload := w.B
	if compress != nil {
		payload = compress(payload)
		flags |= FlagCompress
	}
	if version == 5 {
		flags |= FlagBeta
	}
	h := EncodeHeader(Header{Version: version, Response: true, Flags: flags, Stream: stream, Op: op, Length: len(payload)})
	return append(h, payload...), w.Fields
}

type ErrSpec struct {
	Code        int32
	Message     string
	Consistency int
	Required    int32 // unavailable
	Alive       int32
	Received    int32 // timeouts / failures
	BlockFor    int32
	WriteType   string
	DataPresent byte
	NumFailures int32             // <= v4
	FailureMap  map[string]uint16 // v5: ip(string of raw bytes) -> code
	FailureIPs  [][]byte          // v5: order
	FailureCode []uint16
	Keyspace    string // already exists / function failure
	Table       string
	Function    string
	ArgTypes    []string
	UnpreparedID []byte
}

func BodyError(version int, e *ErrSpec) *W {
	w := &W{}
	w.Int(e.Code)
	w.String(e.Message)
	failures := func() {
		if version >= 5 {
			w.Count(len(e.FailureIPs))
			for i, ip := range e.FailureIPs {
				w.InetAddr(ip)
				w.Short(int(e.FailureCode[i]))
			}
		} else {
			w.Int(e.NumFailures)
		}
	}
	switch e.Code {
	case 0x1000:
		w.Short(e.Consistency)
		w.Int(e.Required)
		w.Int(e.Alive)
	case 0x1100:
		w.Short(e.Consistency)
		w.Int(e.Received)
		w.Int(e.BlockFor)
		w.String(e.WriteType)
	case 0x1200:
		w.Short(e.Consistency)
		w.Int(e.Received)
		w.Int(e.BlockFor)
		w.Byte(e.DataPresent)
	case 0x1300:
		w.Short(e.Consistency)
		w.Int(e.Received)
		w.Int(e.BlockFor)
		failures()
		w.Byte(e.DataPresent)
	case 0x1400:
		w.String(e.Keyspace)
		w.String(e.Function)
		w.StringList(e.ArgTypes)
	case 0x1500:
		w.Short(e.Consistency)
		w.Int(e.Received)
		w.Int(e.BlockFor)
		failures()
		w.String(e.WriteType)
	case 0x1600:
	case 0x1700:
		w.Short(e.Consistency)
		w.Int(e.Received)
		w.Int(e.BlockFor)
	case 0x2400:
		w.String(e.Keyspace)
		w.String(e.Table)
	case 0x2500:
		w.ShortBytes(e.UnpreparedID)
	}
	return w
}

type Column struct {
	Keyspace, Table, Name string
	Type                  *Type
}

type Metadata struct {
	Global      bool
	MorePages   bool
	NoMetadata  bool
	PagingState []byte
	Columns     []Column
	ColCount    int // written column count (== len(Columns) unless NoMetadata)
	// prepared (bind) metadata only, v4+
	PKIndexes []int
}

const (
	MetaGlobal    = 0x01
	MetaMorePages = 0x02
	MetaNoMeta    = 0x04
)

func (m *Metadata) write(w *W, version int, prepared bool) {
	var flags int32
	if m.Global {
		flags |= MetaGlobal
	}
	if m.MorePages {
		flags |= MetaMorePages
	}
	if m.NoMetadata {
		flags |= MetaNoMeta
	}
	w.Int(flags)
	w.Count(m.ColCount)
	if prepared && version >= 4 {
		w.Count(len(m.PKIndexes))
		for _, i := range m.PKIndexes {
			w.Short(i)
		}
	}
	if m.MorePages {
		w.Bytes(m.PagingState)
	}
	if m.NoMetadata {
		return
	}
	if m.Global {
		ks, tb := "", ""
		if len(m.Columns) > 0 {
			ks, tb = m.Columns[0].Keyspace, m.Columns[0].Table
		}
		w.String(ks)
		w.String(tb)
	}
	for _, c := range m.Columns {
		if !m.Global {
			w.String(c.Keyspace)
			w.String(c.Table)
		}
		w.String(c.Name)
		w.Type(c.Type)
	}
}

func BodyVoid() *W { w := &W{}; w.Int(1); return w }

func BodySetKeyspace(ks string) *W { w := &W{}; w.Int(3); w.String(ks); return w }

type RowsSpec struct {
	Meta Metadata
	Rows [][][]byte // nil cell = null
}

func BodyRows(version int, r *RowsSpec) *W {
	w := &W{}
	w.Int(2)
	r.Meta.write(w, version, false)
	w.Count(len(r.Rows))
	for _, row := range r.Rows {
		for _, cell := range row {
			w.Bytes(cell)
		}
	}
	return w
}

type PreparedSpec struct {
	ID     []byte
	Bind   Metadata
	Result Metadata
}

func BodyPrepared(version int, p *PreparedSpec) *W {
	w := &W{}
	w.Int(4)
	w.ShortBytes(p.ID)
	p.Bind.write(w, version, true)
	if version >= 2 {
		p.Result.write(w, version, false)
	}
	return w
}

type SchemaChange struct {
	Change   string // CREATED | UPDATED | DROPPED
	Target   string // KEYSPACE | TABLE | TYPE | FUNCTION | AGGREGATE
	Keyspace string
	Name     string
	Args     []string
}

func (sc *SchemaChange) write(w *W, version int) {
	w.String(sc.Change)
	if version <= 2 {
		w.String(sc.Keyspace)
		if sc.Target == "KEYSPACE" {
			w.String("")
		} else {
			w.String(sc.Name)
		}
		return
	}
	w.String(sc.Target)
	w.String(sc.Keyspace)
	switch sc.Target {
	case "TABLE", "TYPE":
		w.String(sc.Name)
	case "FUNCTION", "AGGREGATE":
		w.String(sc.Name)
		w.StringList(sc.Args)
	}
}

func BodySchemaChange(version int, sc *SchemaChange) *W {
	w := &W{}
	w.Int(5)
	sc.write(w, version)
	return w
}

type EventSpec struct {
	Kind   string // TOPOLOGY_CHANGE | STATUS_CHANGE | SCHEMA_CHANGE
	Change string
	IP     []byte
	Port   int32
	Schema *SchemaChange
}

func BodyEvent(version int, e *EventSpec) *W {
	w := &W{}
	w.String(e.Kind)
	switch e.Kind {
	case "TOPOLOGY_CHANGE", "STATUS_CHANGE":
		w.String(e.Change)
		w.Inet(e.IP, e.Port)
	case "SCHEMA_CHANGE":
		e.Schema.write(w, version)
	}
	return w
}

func BodySupported(m map[string][]string) *W {
	w := &W{}
	keys := make([]string, 0, len(m))
	for k := range m {
		keys = append(keys, k)
	}
	sort.Strings(keys)
	w.ShortCount(len(keys))
	for _, k := range keys {
		w.String(k)
		w.StringList(m[k])
	}
	return w
}

func BodyString(s string) *W { w := &W{}; w.String(s); return w }
func BodyBytes(b []byte) *W  { w := &W{}; w.Bytes(b); return w }
func BodyEmpty() *W          { return &W{} }
