package cqlref

import (
	"encoding/binary"
	"errors"
	"fmt"
	"math/big"
)

var one = big.NewInt(1)

// TwosComplement encodes n as big-endian two's complement, minimal length (spec: varint).
func TwosComplement(n *big.Int) []byte {
	if n.Sign() == 0 {
		return []byte{0}
	}
	// smallest k bytes with -2^(8k-1) <= n < 2^(8k-1)
	k := 1
	for {
		lim := new(big.Int).Lsh(one, uint(8*k-1))
		neg := new(big.Int).Neg(lim)
		if n.Cmp(neg) >= 0 && n.Cmp(lim) < 0 {
			break
		}
		k++
	}
	return fixedTwos(n, k)
}

func fixedTwos(n *big.Int, k int) []byte {
	m := new(big.Int).Set(n)
	if m.Sign() < 0 {
		m.Add(m, new(big.Int).Lsh(one, uint(8*k)))
	}
	b := m.Bytes()
	out := make([]byte, k)
	copy(out[k-len(b):], b)
	return out
}

func fromTwos(b []byte) *big.Int {
	n := new(big.Int).SetBytes(b)
	if len(b) > 0 && b[0]&0x80 != 0 {
		n.Sub(n, new(big.Int).Lsh(one, uint(8*len(b))))
	}
	return n
}

func fitsSigned(n *big.Int, bytes int) bool {
	lim := new(big.Int).Lsh(one, uint(8*bytes-1))
	return n.Cmp(new(big.Int).Neg(lim)) >= 0 && n.Cmp(lim) < 0
}

// InRange reports whether the logical value is inside the CQL type's own value range.
func InRange(t *Type, v Val) bool {
	if v.Null {
		return true
	}
	switch t.ID {
	case TTinyint:
		return fitsSigned(v.I, 1)
	case TSmallint:
		return fitsSigned(v.I, 2)
	case TInt:
		return fitsSigned(v.I, 4)
	case TBigint, TCounter, TTime, TTimestamp:
		return fitsSigned(v.I, 8)
	case TDate:
		// days since epoch, stored as unsigned 32 bit centred on 2^31
		lo := new(big.Int).Neg(new(big.Int).Lsh(one, 31))
		hi := new(big.Int).Lsh(one, 31)
		return v.I.Cmp(lo) >= 0 && v.I.Cmp(hi) < 0
	case TUUID, TTimeUUID:
		return len(v.B) == 16
	case TInet:
		return len(v.B) == 4 || len(v.B) == 16
	}
	return true
}

func zigzag(n int64) uint64 { return uint64((n << 1) ^ (n >> 63)) }
func unzigzag(u uint64) int64 {
	return int64(u>>1) ^ -int64(u&1)
}

// vint: Cassandra's VIntCoding (unsigned): number of leading 1 bits of the first byte = extra bytes.
func appendVint(b []byte, n int64) []byte {
	u := zigzag(n)
	// minimal size
	size := 1
	for size < 9 {
		// with `size` bytes total we have 7*size bits (size<9); 9 bytes -> 64 bits
		if u < (uint64(1) << uint(7*size)) {
			break
		}
		size++
	}
	if size == 9 {
		b = append(b, 0xff)
		var t [8]byte
		binary.BigEndian.PutUint64(t[:], u)
		return append(b, t[:]...)
	}
	extra := size - 1
	var t [8]byte
	binary.BigEndian.PutUint64(t[:], u)
	enc := append([]byte{}, t[8-size:]...)
	enc[0] |= byte(0xff << uint(8-extra))
	return append(b, enc...)
}

func readVint(b []byte) (int64, []byte, error) {
	if len(b) == 0 {
		return 0, nil, errors.New("vint: eof")
	}
	f := b[0]
	extra := 0
	for extra < 8 && f&(0x80>>uint(extra)) != 0 {
		extra++
	}
	if len(b) < 1+extra {
		return 0, nil, errors.New("vint: truncated")
	}
	var u uint64
	if extra < 8 {
		u = uint64(f & (0xff >> uint(extra)))
	}
	for i := 0; i < extra; i++ {
		u = u<<8 | uint64(b[1+i])
	}
	return unzigzag(u), b[1+extra:], nil
}

func collLen(proto int, n int) []byte {
	if proto >= 3 {
		var b [4]byte
		binary.BigEndian.PutUint32(b[:], uint32(int32(n)))
		return b[:]
	}
	var b [2]byte
	binary.BigEndian.PutUint16(b[:], uint16(n))
	return b[:]
}

// EncodeValue returns the specification's serialization of v (nil = null).
func EncodeValue(t *Type, v Val, proto int) ([]byte, error) {
	b, err := encodeValue(t, v, proto)
	if err == nil && proto < 3 {
		// protocol 1/2 frame collection sizes and element lengths as unsigned shorts: larger ones are not expressible
		if err := shortFramingFits(t, v, proto); err != nil {
			return nil, err
		}
	}
	return b, err
}

func shortFramingFits(t *Type, v Val, proto int) error {
	if v.Null {
		return nil
	}
	switch t.ID {
	case TList, TSet, TMap:
		if len(v.Elems) > 65535 {
			return fmt.Errorf("cqlref: %d elements do not fit the [short] count of protocol %d", len(v.Elems), proto)
		}
		for i := range v.Elems {
			parts := []struct {
				t *Type
				v Val
			}{{t.Elem, v.Elems[i]}}
			if t.ID == TMap {
				parts = append(parts, struct {
					t *Type
					v Val
				}{t.Key, v.Keys[i]})
			}
			for _, p := range parts {
				eb, err := encodeValue(p.t, p.v, proto)
				if err != nil {
					return err
				}
				if len(eb) > 65535 {
					return fmt.Errorf("cqlref: an element of %d bytes does not fit the [short] length of protocol %d", len(eb), proto)
				}
				if err := shortFramingFits(p.t, p.v, proto); err != nil {
					return err
				}
			}
		}
	case TTuple, TUDT:
		for i := range v.Elems {
			if i < len(t.Elems) {
				if err := shortFramingFits(t.Elems[i], v.Elems[i], proto); err != nil {
					return err
				}
			}
		}
	}
	return nil
}

func encodeValue(t *Type, v Val, proto int) ([]byte, error) {
	if v.Null {
		return nil, nil
	}
	switch t.ID {
	case TAscii, TText, TVarchar, TBlob, TCustom:
		return append([]byte{}, v.B...), nil
	case TBoolean:
		if v.Bool {
			return []byte{1}, nil
		}
		return []byte{0}, nil
	case TTinyint:
		if !fitsSigned(v.I, 1) {
			return nil, fmt.Errorf("out of range")
		}
		return fixedTwos(v.I, 1), nil
	case TSmallint:
		if !fitsSigned(v.I, 2) {
			return nil, fmt.Errorf("out of range")
		}
		return fixedTwos(v.I, 2), nil
	case TInt:
		if !fitsSigned(v.I, 4) {
			return nil, fmt.Errorf("out of range")
		}
		return fixedTwos(v.I, 4), nil
	case TBigint, TCounter, TTime, TTimestamp:
		if !fitsSigned(v.I, 8) {
			return nil, fmt.Errorf("out of range")
		}
		return fixedTwos(v.I, 8), nil
	case TDate:
		if !InRange(t, v) {
			return nil, fmt.Errorf("out of range")
		}
		u := new(big.Int).Add(v.I, new(big.Int).Lsh(one, 31))
		var b [4]byte
		binary.BigEndian.PutUint32(b[:], uint32(u.Uint64()))
		return b[:], nil
	case TFloat:
		var b [4]byte
		binary.BigEndian.PutUint32(b[:], uint32(v.Bits))
		return b[:], nil
	case TDouble:
		var b [8]byte
		binary.BigEndian.PutUint64(b[:], v.Bits)
		return b[:], nil
	case TVarint:
		return TwosComplement(v.I), nil
	case TDecimal:
		var b [4]byte
		binary.BigEndian.PutUint32(b[:], uint32(v.Scale))
		return append(b[:], TwosComplement(v.I)...), nil
	case TUUID, TTimeUUID:
		if len(v.B) != 16 {
			return nil, fmt.Errorf("uuid length")
		}
		return append([]byte{}, v.B...), nil
	case TInet:
		if len(v.B) != 4 && len(v.B) != 16 {
			return nil, fmt.Errorf("inet length")
		}
		return append([]byte{}, v.B...), nil
	case TDuration:
		b := appendVint(nil, int64(v.Months))
		b = appendVint(b, int64(v.Days))
		b = appendVint(b, v.Nanos)
		return b, nil
	case TList, TSet:
		out := collLen(proto, len(v.Elems))
		for _, e := range v.Elems {
			eb, err := EncodeValue(t.Elem, e, proto)
			if err != nil {
				return nil, err
			}
			if eb == nil {
				if proto < 3 {
					// protocol <= 2 has no null element (unsigned short length); encode as empty
					out = append(out, collLen(proto, 0)...)
					continue
				}
				out = append(out, collLen(proto, -1)...)
				continue
			}
			out = append(out, collLen(proto, len(eb))...)
			out = append(out, eb...)
		}
		return out, nil
	case TMap:
		out := collLen(proto, len(v.Elems))
		for i := range v.Elems {
			for _, pair := range []struct {
				t *Type
				v Val
			}{{t.Key, v.Keys[i]}, {t.Elem, v.Elems[i]}} {
				eb, err := EncodeValue(pair.t, pair.v, proto)
				if err != nil {
					return nil, err
				}
				if eb == nil {
					if proto < 3 {
						out = append(out, collLen(proto, 0)...)
					} else {
						out = append(out, collLen(proto, -1)...)
					}
					continue
				}
				out = append(out, collLen(proto, len(eb))...)
				out = append(out, eb...)
			}
		}
		return out, nil
	case TTuple, TUDT:
		var out []byte
		n := len(v.Elems)
		if t.ID == TUDT && v.Present >= 0 && v.Present < n {
			n = v.Present
		}
		for i := 0; i < n; i++ {
			eb, err := EncodeValue(t.Elems[i], v.Elems[i], proto)
			if err != nil {
				return nil, err
			}
			var l [4]byte
			if eb == nil {
				binary.BigEndian.PutUint32(l[:], 0xffffffff)
				out = append(out, l[:]...)
				continue
			}
			binary.BigEndian.PutUint32(l[:], uint32(len(eb)))
			out = append(out, l[:]...)
			out = append(out, eb...)
		}
		return out, nil
	}
	return nil, fmt.Errorf("cqlref: cannot encode type %s", t)
}

func readCollLen(proto int, b []byte) (int, []byte, error) {
	if proto >= 3 {
		if len(b) < 4 {
			return 0, nil, errors.New("collection: eof")
		}
		return int(int32(binary.BigEndian.Uint32(b))), b[4:], nil
	}
	if len(b) < 2 {
		return 0, nil, errors.New("collection: eof")
	}
	return int(binary.BigEndian.Uint16(b)), b[2:], nil
}

// DecodeValue decodes a specification-conformant value (b == nil means null).
func DecodeValue(t *Type, b []byte, proto int) (Val, error) {
	if b == nil {
		return Val{Null: true}, nil
	}
	need := func(n int) error {
		if len(b) != n {
			return fmt.Errorf("cqlref: %s needs %d bytes, got %d", t, n, len(b))
		}
		return nil
	}
	switch t.ID {
	case TAscii, TText, TVarchar, TBlob, TCustom:
		return Val{B: append([]byte{}, b...)}, nil
	case TBoolean:
		if err := need(1); err != nil {
			return Val{}, err
		}
		return Val{Bool: b[0] != 0}, nil
	case TTinyint:
		if err := need(1); err != nil {
			return Val{}, err
		}
		return Val{I: fromTwos(b)}, nil
	case TSmallint:
		if err := need(2); err != nil {
			return Val{}, err
		}
		return Val{I: fromTwos(b)}, nil
	case TInt:
		if err := need(4); err != nil {
			return Val{}, err
		}
		return Val{I: fromTwos(b)}, nil
	case TBigint, TCounter, TTime, TTimestamp:
		if err := need(8); err != nil {
			return Val{}, err
		}
		return Val{I: fromTwos(b)}, nil
	case TDate:
		if err := need(4); err != nil {
			return Val{}, err
		}
		u := new(big.Int).SetUint64(uint64(binary.BigEndian.Uint32(b)))
		return Val{I: u.Sub(u, new(big.Int).Lsh(one, 31))}, nil
	case TFloat:
		if err := need(4); err != nil {
			return Val{}, err
		}
		return Val{Bits: uint64(binary.BigEndian.Uint32(b))}, nil
	case TDouble:
		if err := need(8); err != nil {
			return Val{}, err
		}
		return Val{Bits: binary.BigEndian.Uint64(b)}, nil
	case TVarint:
		if len(b) == 0 {
			return Val{}, errors.New("cqlref: empty varint")
		}
		return Val{I: fromTwos(b)}, nil
	case TDecimal:
		if len(b) < 5 {
			return Val{}, errors.New("cqlref: short decimal")
		}
		return Val{Scale: int32(binary.BigEndian.Uint32(b)), I: fromTwos(b[4:])}, nil
	case TUUID, TTimeUUID:
		if err := need(16); err != nil {
			return Val{}, err
		}
		return Val{B: append([]byte{}, b...)}, nil
	case TInet:
		if len(b) != 4 && len(b) != 16 {
			return Val{}, errors.New("cqlref: inet length")
		}
		return Val{B: append([]byte{}, b...)}, nil
	case TDuration:
		m, r, err := readVint(b)
		if err != nil {
			return Val{}, err
		}
		d, r, err := readVint(r)
		if err != nil {
			return Val{}, err
		}
		n, r, err := readVint(r)
		if err != nil {
			return Val{}, err
		}
		if len(r) != 0 {
			return Val{}, errors.New("cqlref: trailing bytes after duration")
		}
		return Val{Months: int32(m), Days: int32(d), Nanos: n}, nil
	case TList, TSet:
		n, r, err := readCollLen(proto, b)
		if err != nil {
			return Val{}, err
		}
		if n < 0 {
			return Val{}, errors.New("cqlref: negative collection size")
		}
		out := Val{Elems: []Val{}}
		for i := 0; i < n; i++ {
			var l int
			l, r, err = readCollLen(proto, r)
			if err != nil {
				return Val{}, err
			}
			if l < 0 {
				out.Elems = append(out.Elems, Val{Null: true})
				continue
			}
			if len(r) < l {
				return Val{}, errors.New("cqlref: collection element eof")
			}
			ev, err := DecodeValue(t.Elem, r[:l:l], proto)
			if err != nil {
				return Val{}, err
			}
			out.Elems = append(out.Elems, ev)
			r = r[l:]
		}
		if len(r) != 0 {
			return Val{}, errors.New("cqlref: trailing bytes after collection")
		}
		return out, nil
	case TMap:
		n, r, err := readCollLen(proto, b)
		if err != nil {
			return Val{}, err
		}
		if n < 0 {
			return Val{}, errors.New("cqlref: negative map size")
		}
		out := Val{Elems: []Val{}, Keys: []Val{}}
		for i := 0; i < 2*n; i++ {
			var l int
			l, r, err = readCollLen(proto, r)
			if err != nil {
				return Val{}, err
			}
			et := t.Key
			if i%2 == 1 {
				et = t.Elem
			}
			var ev Val
			if l < 0 {
				ev = Val{Null: true}
			} else {
				if len(r) < l {
					return Val{}, errors.New("cqlref: map element eof")
				}
				ev, err = DecodeValue(et, r[:l:l], proto)
				if err != nil {
					return Val{}, err
				}
				r = r[l:]
			}
			if i%2 == 0 {
				out.Keys = append(out.Keys, ev)
			} else {
				out.Elems = append(out.Elems, ev)
			}
		}
		if len(r) != 0 {
			return Val{}, errors.New("cqlref: trailing bytes after map")
		}
		return out, nil
	case TTuple, TUDT:
		out := Val{Elems: []Val{}, Present: -1}
		r := b
		for i := range t.Elems {
			if len(r) == 0 {
				// trailing fields absent (UDT; tolerated for tuples as null too)
				if out.Present < 0 {
					out.Present = i
				}
				out.Elems = append(out.Elems, Val{Null: true})
				continue
			}
			if len(r) < 4 {
				return Val{}, errors.New("cqlref: tuple/udt field length eof")
			}
			l := int(int32(binary.BigEndian.Uint32(r)))
			r = r[4:]
			if l < 0 {
				out.Elems = append(out.Elems, Val{Null: true})
				continue
			}
			if len(r) < l {
				return Val{}, errors.New("cqlref: tuple/udt field eof")
			}
			ev, err := DecodeValue(t.Elems[i], r[:l:l], proto)
			if err != nil {
				return Val{}, err
			}
			out.Elems = append(out.Elems, ev)
			r = r[l:]
		}
		return out, nil
	}
	return Val{}, fmt.Errorf("cqlref: cannot decode type %s", t)
}

// EqualVal compares logical values (floats by bit pattern).
func EqualVal(t *Type, a, b Val) bool {
	if a.Null || b.Null {
		return a.Null == b.Null
	}
	switch t.ID {
	case TAscii, TText, TVarchar, TBlob, TUUID, TTimeUUID, TInet, TCustom:
		return string(a.B) == string(b.B)
	case TBoolean:
		return a.Bool == b.Bool
	case TFloat, TDouble:
		return a.Bits == b.Bits
	case TDecimal:
		return a.Scale == b.Scale && a.I.Cmp(b.I) == 0
	case TDuration:
		return a.Months == b.Months && a.Days == b.Days && a.Nanos == b.Nanos
	case TList, TSet:
		if len(a.Elems) != len(b.Elems) {
			return false
		}
		for i := range a.Elems {
			if !EqualVal(t.Elem, a.Elems[i], b.Elems[i]) {
				return false
			}
		}
		return true
	case TMap:
		if len(a.Elems) != len(b.Elems) {
			return false
		}
		for i := range a.Elems {
			if !EqualVal(t.Key, a.Keys[i], b.Keys[i]) || !EqualVal(t.Elem, a.Elems[i], b.Elems[i]) {
				return false
			}
		}
		return true
	case TTuple, TUDT:
		if len(a.Elems) != len(b.Elems) {
			return false
		}
		for i := range a.Elems {
			if !EqualVal(t.Elems[i], a.Elems[i], b.Elems[i]) {
				return false
			}
		}
		return true
	}
	if a.I == nil || b.I == nil {
		return a.I == b.I
	}
	return a.I.Cmp(b.I) == 0
}
