package cqlref

import (
	"bytes"
	"crypto/md5"
	"fmt"
	"math/big"
	"sort"
)

// Murmur3Token is Cassandra's Murmur3Partitioner token: the first 64 bits of
// MurmurHash.hash3_x64_128(key, 0, len, seed 0), where – unlike reference MurmurHash3 –
// every byte is a signed Java byte (sign-extended when widened to long).
func Murmur3Token(key []byte) int64 {
	const (
		c1 = uint64(0x87c37b91114253d5)
		c2 = uint64(0x4cf5ad432745937f)
	)
	n := len(key)
	nblocks := n / 16
	var h1, h2 uint64
	getBlock := func(off int) uint64 {
		// Cassandra: ((long) key.get(i) & 0xff) + (((long) key.get(i+1) & 0xff) << 8) + ...
		var k uint64
		for j := 0; j < 8; j++ {
			k += uint64(key[off+j]) << (8 * uint(j))
		}
		return k
	}
	rotl := func(v uint64, r uint) uint64 { return v<<r | v>>(64-r) }
	for i := 0; i < nblocks; i++ {
		k1 := getBlock(i * 16)
		k2 := getBlock(i*16 + 8)
		k1 *= c1
		k1 = rotl(k1, 31)
		k1 *= c2
		h1 ^= k1
		h1 = rotl(h1, 27)
		h1 += h2
		h1 = h1*5 + 0x52dce729
		k2 *= c2
		k2 = rotl(k2, 33)
		k2 *= c1
		h2 ^= k2
		h2 = rotl(h2, 31)
		h2 += h1
		h2 = h2*5 + 0x38495ab5
	}
	// tail: Java does `k2 ^= ((long) key.get(offset+14)) << 48` – a SIGNED byte widened to long
	off := nblocks * 16
	sb := func(i int) uint64 { return uint64(int64(int8(key[off+i]))) }
	var k1, k2 uint64
	switch n & 15 {
	case 15:
		k2 ^= sb(14) << 48
		fallthrough
	case 14:
		k2 ^= sb(13) << 40
		fallthrough
	case 13:
		k2 ^= sb(12) << 32
		fallthrough
	case 12:
		k2 ^= sb(11) << 24
		fallthrough
	case 11:
		k2 ^= sb(10) << 16
		fallthrough
	case 10:
		k2 ^= sb(9) << 8
		fallthrough
	case 9:
		k2 ^= sb(8)
		k2 *= c2
		k2 = rotl(k2, 33)
		k2 *= c1
		h2 ^= k2
		fallthrough
	case 8:
		k1 ^= sb(7) << 56
		fallthrough
	case 7:
		k1 ^= sb(6) << 48
		fallthrough
	case 6:
		k1 ^= sb(5) << 40
		fallthrough
	case 5:
		k1 ^= sb(4) << 32
		fallthrough
	case 4:
		k1 ^= sb(3) << 24
		fallthrough
	case 3:
		k1 ^= sb(2) << 16
		fallthrough
	case 2:
		k1 ^= sb(1) << 8
		fallthrough
	case 1:
		k1 ^= sb(0)
		k1 *= c1
		k1 = rotl(k1, 31)
		k1 *= c2
		h1 ^= k1
	}
	h1 ^= uint64(n)
	h2 ^= uint64(n)
	h1 += h2
	h2 += h1
	fmix := func(k uint64) uint64 {
		k ^= k >> 33
		k *= 0xff51afd7ed558ccd
		k ^= k >> 33
		k *= 0xc4ceb9fe1a85ec53
		k ^= k >> 33
		return k
	}
	h1 = fmix(h1)
	h2 = fmix(h2)
	h1 += h2
	return int64(h1)
}

// RandomToken is Cassandra's RandomPartitioner token: abs(new BigInteger(md5(key))) with
// BigInteger reading the digest as a signed (two's complement) big-endian number.
func RandomToken(key []byte) *big.Int {
	sum := md5.Sum(key)
	n := fromTwos(sum[:])
	return n.Abs(n)
}

// OrderedLess compares two keys the way ByteOrderedPartitioner orders tokens: unsigned bytes.
func OrderedLess(a, b []byte) bool { return bytes.Compare(a, b) < 0 }

// CompositeRoutingKey builds the routing key for a multi-column partition key.
func CompositeRoutingKey(parts [][]byte) []byte {
	if len(parts) == 1 {
		return parts[0]
	}
	var out []byte
	for _, p := range parts {
		out = append(out, byte(len(p)>>8), byte(len(p)))
		out = append(out, p...)
		out = append(out, 0)
	}
	return out
}

// ---- placement ------------------------------------------------------------------------

type Node struct {
	ID     string
	DC     string
	Rack   string
	Tokens []*big.Int // ring positions (for ordering only)
}

type ringEntry struct {
	tok  *big.Int
	node *Node
}

// Ring is a sorted token ring.
type Ring struct {
	entries []ringEntry
	nodes   []*Node
}

func NewRing(nodes []*Node) *Ring {
	r := &Ring{nodes: nodes}
	for _, n := range nodes {
		for _, t := range n.Tokens {
			r.entries = append(r.entries, ringEntry{t, n})
		}
	}
	sort.SliceStable(r.entries, func(i, j int) bool { return r.entries[i].tok.Cmp(r.entries[j].tok) < 0 })
	return r
}

func (r *Ring) Len() int { return len(r.entries) }

// Tokens returns the sorted ring tokens.
func (r *Ring) Token(i int) *big.Int { return r.entries[i].tok }
func (r *Ring) Owner(i int) *Node    { return r.entries[i].node }

// Index returns the index of the first ring token >= t, wrapping to 0.
func (r *Ring) Index(t *big.Int) int {
	i := sort.Search(len(r.entries), func(i int) bool { return r.entries[i].tok.Cmp(t) >= 0 })
	if i == len(r.entries) {
		return 0
	}
	return i
}

// SimpleReplicas: the next rf distinct nodes clockwise starting at ring index i.
func (r *Ring) SimpleReplicas(i, rf int) []*Node {
	var out []*Node
	seen := map[*Node]bool{}
	for j := 0; j < len(r.entries) && len(out) < rf; j++ {
		n := r.entries[(i+j)%len(r.entries)].node
		if !seen[n] {
			seen[n] = true
			out = append(out, n)
		}
	}
	return out
}

// NTSReplicas3x implements NetworkTopologyStrategy.calculateNaturalReplicas as in
// Cassandra 3.x / 4.x (DatacenterEndpoints with acceptableRackRepeats).
func (r *Ring) NTSReplicas3x(i int, rfs map[string]int) []*Node {
	type dcState struct {
		rfLeft           int
		acceptableRepeat int
		racks            map[string]bool
		endpoints        map[*Node]bool
	}
	dcNodes := map[string]map[*Node]bool{}
	dcRacks := map[string]map[string]bool{}
	for _, n := range r.nodes {
		if dcNodes[n.DC] == nil {
			dcNodes[n.DC] = map[*Node]bool{}
			dcRacks[n.DC] = map[string]bool{}
		}
		dcNodes[n.DC][n] = true
		dcRacks[n.DC][n.Rack] = true
	}
	states := map[string]*dcState{}
	dcsToFill := 0
	for dc, rf := range rfs {
		nodes := len(dcNodes[dc])
		if rf <= 0 || nodes == 0 {
			continue
		}
		rfLeft := rf
		if nodes < rfLeft {
			rfLeft = nodes
		}
		states[dc] = &dcState{rfLeft: rfLeft, acceptableRepeat: rfLeft - len(dcRacks[dc]), racks: map[string]bool{}, endpoints: map[*Node]bool{}}
		dcsToFill++
	}
	var out []*Node
	inOut := map[*Node]bool{}
	for j := 0; j < len(r.entries) && dcsToFill > 0; j++ {
		n := r.entries[(i+j)%len(r.entries)].node
		st := states[n.DC]
		if st == nil || st.rfLeft == 0 {
			continue
		}
		// addEndpointAndCheckIfDone
		if st.endpoints[n] {
			continue
		}
		st.endpoints[n] = true
		if st.racks[n.Rack] {
			// rack repeat
			if st.acceptableRepeat <= 0 {
				continue // cannot accept; (the endpoint stays marked as seen, as in Cassandra)
			}
			st.acceptableRepeat--
		} else {
			st.racks[n.Rack] = true
		}
		if !inOut[n] {
			inOut[n] = true
			out = append(out, n)
		}
		st.rfLeft--
		if st.rfLeft == 0 {
			dcsToFill--
		}
	}
	return out
}

// NTSReplicas2x implements the Cassandra 2.x formulation (skipped endpoints per DC).
func (r *Ring) NTSReplicas2x(i int, rfs map[string]int) []*Node {
	dcNodes := map[string]map[*Node]bool{}
	dcRacks := map[string]map[string]bool{}
	for _, n := range r.nodes {
		if dcNodes[n.DC] == nil {
			dcNodes[n.DC] = map[*Node]bool{}
			dcRacks[n.DC] = map[string]bool{}
		}
		dcNodes[n.DC][n] = true
		dcRacks[n.DC][n.Rack] = true
	}
	replicas := []*Node{}
	inRep := map[*Node]bool{}
	dcReplicas := map[string]map[*Node]bool{}
	seenRacks := map[string]map[string]bool{}
	skipped := map[string][]*Node{}
	for dc := range rfs {
		dcReplicas[dc] = map[*Node]bool{}
		seenRacks[dc] = map[string]bool{}
	}
	hasSufficient := func(dc string) bool {
		rf := rfs[dc]
		n := len(dcNodes[dc])
		if n < rf {
			rf = n
		}
		return len(dcReplicas[dc]) >= rf
	}
	all := func() bool {
		for dc := range rfs {
			if !hasSufficient(dc) {
				return false
			}
		}
		return true
	}
	add := func(dc string, n *Node) {
		dcReplicas[dc][n] = true
		if !inRep[n] {
			inRep[n] = true
			replicas = append(replicas, n)
		}
	}
	for j := 0; j < len(r.entries) && !all(); j++ {
		n := r.entries[(i+j)%len(r.entries)].node
		dc := n.DC
		if _, ok := rfs[dc]; !ok || rfs[dc] <= 0 || hasSufficient(dc) {
			continue
		}
		if dcReplicas[dc][n] {
			continue
		}
		if len(seenRacks[dc]) == len(dcRacks[dc]) {
			add(dc, n)
			continue
		}
		if seenRacks[dc][n.Rack] {
			dup := false
			for _, s := range skipped[dc] {
				if s == n {
					dup = true
				}
			}
			if !dup {
				skipped[dc] = append(skipped[dc], n)
			}
			continue
		}
		add(dc, n)
		seenRacks[dc][n.Rack] = true
		if len(seenRacks[dc]) == len(dcRacks[dc]) {
			for len(skipped[dc]) > 0 && !hasSufficient(dc) {
				s := skipped[dc][0]
				skipped[dc] = skipped[dc][1:]
				add(dc, s)
			}
		}
	}
	return replicas
}

func selfTestTokens() error {
	// Expected values generated by the Java DataStax murmur3 implementation / Cassandra
	// (the same published vectors other drivers test against); every tail length 0..15.
	series := []uint64{
		0x0000000000000000, 0x2ac9debed546a380, 0x649e4eaa7fc1708e, 0xce68f60d7c353bdb, 0x0f95757ce7f38254,
		0x0f04e459497f3fc1, 0x88c0a92586be0a27, 0x13eb9fb82606f7a6, 0x8236039b7387354d, 0x4c1e87519fe738ba,
		0x3f9652ac3effeb24, 0x3f33760ded9006c6, 0xaed70a6631854cb1, 0x8a299a8f8e0e2da7, 0x624b675c779249a6,
		0xa4b203bb1d90b9a3, 0xa3293ad698ecb99a, 0xbc740023dbd50048, 0x3fe5ab9837d25cdd, 0x2d0338c1ca87d132,
	}
	sample := ""
	for i, want := range series {
		if got := Murmur3Token([]byte(sample)); got != int64(want) {
			return fmt.Errorf("murmur3(%q) = %x, want %x", sample, got, int64(want))
		}
		sample += fmt.Sprint(i % 10)
	}
	more := map[string]uint64{
		"hello": 0xcbd8a7b341bd9b02, "hello, world": 0x342fac623a5ebc8e, "19 Jan 2038 at 3:14:07 AM": 0xb89e5988b737affc,
		"The quick brown fox jumps over the lazy dog.": 0xcd99481f9ee902c9,
	}
	for k, want := range more {
		if got := Murmur3Token([]byte(k)); got != int64(want) {
			return fmt.Errorf("murmur3(%q) = %x, want %x", k, got, int64(want))
		}
	}
	// a key with bytes >= 0x80 in the tail: Cassandra's signed-byte behaviour
	signKey := []byte{0x00, 0x10, 0x43, 0x27, 0x52, 0x9f, 0xb6, 0x45, 0xdd, 0x00, 0xb8, 0x83, 0xec, 0x39, 0xae, 0x44, 0x8b, 0xb8, 0x00, 0x00, 0x04, 0x00, 0x06, 0x6a, 0x6b, 0x00}
	if got := Murmur3Token(signKey); got != -9223371632693506265 {
		return fmt.Errorf("murmur3(sign key) = %d", got)
	}
	// python driver: MD5Token.hash_fn("test")
	if rt := RandomToken([]byte("test")); rt.String() != "12707736894140473154801792860916528374" {
		return fmt.Errorf("random(test) = %s", rt)
	}
	return nil
}

// MD5Negative reports whether the MD5 digest of key is negative as a signed 128-bit number.
func MD5Negative(key []byte) bool {
	sum := md5.Sum(key)
	return sum[0]&0x80 != 0
}
