package cqlref

func selfTestTokens() error { return nil }
