package cqlref

import (
	"encoding/binary"
	"errors"
	"fmt"
)

// Opcodes
const (
	OpError         = 0x00
	OpStartup       = 0x01
	OpReady         = 0x02
	OpAuthenticate  = 0x03
	OpOptions       = 0x05
	OpSupported     = 0x06
	OpQuery         = 0x07
	OpResult        = 0x08
	OpPrepare       = 0x09
	OpExecute       = 0x0A
	OpRegister      = 0x0B
	OpEvent         = 0x0C
	OpBatch         = 0x0D
	OpAuthChallenge = 0x0E
	OpAuthResponse  = 0x0F
	OpAuthSuccess   = 0x10
)

// Header flags
const (
	FlagCompress = 0x01
	FlagTracing  = 0x02
	FlagPayload  = 0x04
	FlagWarning  = 0x08
	FlagBeta     = 0x10
)

// Query flags
const (
	QValues      = 0x01
	QSkipMeta    = 0x02
	QPageSize    = 0x04
	QPagingState = 0x08
	QSerial      = 0x10
	QTimestamp   = 0x20
	QNames       = 0x40
	QKeyspace    = 0x80
)

type Header struct {
	Version  int
	Response bool
	Flags    byte
	Stream   int
	Op       byte
	Length   int
}

func HeaderSize(version int) int {
	if version >= 3 {
		return 9
	}
	return 8
}

// ParseHeader parses a frame header of the given (negotiated) version. The version in the
// first byte is returned as read.
func ParseHeader(b []byte) (Header, error) {
	if len(b) < 1 {
		return Header{}, errors.New("short header")
	}
	v := int(b[0] & 0x7f)
	h := Header{Version: v, Response: b[0]&0x80 != 0}
	n := HeaderSize(v)
	if len(b) < n {
		return h, errors.New("short header")
	}
	h.Flags = b[1]
	if v >= 3 {
		h.Stream = int(int16(binary.BigEndian.Uint16(b[2:])))
		h.Op = b[4]
		h.Length = int(int32(binary.BigEndian.Uint32(b[5:])))
	} else {
		h.Stream = int(int8(b[2]))
		h.Op = b[3]
		h.Length = int(int32(binary.BigEndian.Uint32(b[4:])))
	}
	return h, nil
}

func EncodeHeader(h Header) []byte {
	vb := byte(h.Version)
	if h.Response {
		vb |= 0x80
	}
	if h.Version >= 3 {
		b := make([]byte, 9)
		b[0], b[1] = vb, h.Flags
		binary.BigEndian.PutUint16(b[2:], uint16(int16(h.Stream)))
		b[4] = h.Op
		binary.BigEndian.PutUint32(b[5:], uint32(int32(h.Length)))
		return b
	}
	b := make([]byte, 8)
	b[0], b[1], b[2], b[3] = vb, h.Flags, byte(int8(h.Stream)), h.Op
	binary.BigEndian.PutUint32(b[4:], uint32(int32(h.Length)))
	return b
}

// ---- reader -----------------------------------------------------------------------------

type rd struct {
	b   []byte
	err error
}

func (r *rd) fail(f string, a ...interface{}) {
	if r.err == nil {
		r.err = fmt.Errorf(f, a...)
	}
}
func (r *rd) need(n int) bool {
	if r.err != nil {
		return false
	}
	if n < 0 || len(r.b) < n {
		r.fail("need %d bytes, have %d", n, len(r.b))
		return false
	}
	return true
}
func (r *rd) byte_() byte {
	if !r.need(1) {
		return 0
	}
	v := r.b[0]
	r.b = r.b[1:]
	return v
}
func (r *rd) short() int {
	if !r.need(2) {
		return 0
	}
	v := int(binary.BigEndian.Uint16(r.b))
	r.b = r.b[2:]
	return v
}
func (r *rd) int_() int32 {
	if !r.need(4) {
		return 0
	}
	v := int32(binary.BigEndian.Uint32(r.b))
	r.b = r.b[4:]
	return v
}
func (r *rd) long() int64 {
	if !r.need(8) {
		return 0
	}
	v := int64(binary.BigEndian.Uint64(r.b))
	r.b = r.b[8:]
	return v
}
func (r *rd) str() string {
	n := r.short()
	if !r.need(n) {
		return ""
	}
	s := string(r.b[:n])
	r.b = r.b[n:]
	return s
}
func (r *rd) longstr() string {
	n := int(r.int_())
	if n < 0 {
		r.fail("negative long string length")
		return ""
	}
	if !r.need(n) {
		return ""
	}
	s := string(r.b[:n])
	r.b = r.b[n:]
	return s
}
func (r *rd) bytes() (b []byte, null bool, unset bool) {
	n := int(r.int_())
	if r.err != nil {
		return nil, false, false
	}
	if n == -1 {
		return nil, true, false
	}
	if n == -2 {
		return nil, false, true
	}
	if n < 0 {
		r.fail("[bytes] length %d", n)
		return nil, false, false
	}
	if !r.need(n) {
		return nil, false, false
	}
	b = append([]byte{}, r.b[:n]...)
	r.b = r.b[n:]
	return b, false, false
}
func (r *rd) shortbytes() []byte {
	n := r.short()
	if !r.need(n) {
		return nil
	}
	b := append([]byte{}, r.b[:n]...)
	r.b = r.b[n:]
	return b
}
func (r *rd) strlist() []string {
	n := r.short()
	var l []string
	for i := 0; i < n && r.err == nil; i++ {
		l = append(l, r.str())
	}
	return l
}
func (r *rd) bytesmap() map[string][]byte {
	n := r.short()
	m := map[string][]byte{}
	for i := 0; i < n && r.err == nil; i++ {
		k := r.str()
		v, null, unset := r.bytes()
		if unset {
			r.fail("unset in bytes map")
		}
		if null {
			v = nil
		} else if v == nil {
			v = []byte{}
		}
		if _, dup := m[k]; dup {
			r.fail("duplicate key %q in bytes map", k)
		}
		m[k] = v
	}
	return m
}

// ---- logical requests -------------------------------------------------------------------

type BoundValue struct {
	Name  string
	Null  bool
	Unset bool
	Bytes []byte
}

type QueryParams struct {
	Consistency    int
	Flags          uint32
	Values         []BoundValue
	HasValues      bool
	Names          bool
	SkipMeta       bool
	HasPageSize    bool
	PageSize       int32
	HasPagingState bool
	PagingState    []byte
	HasSerial      bool
	Serial         int
	HasTimestamp   bool
	Timestamp      int64
	HasKeyspace    bool
	Keyspace       string
}

type BatchStmt struct {
	Kind      byte
	Statement string
	ID        []byte
	Values    []BoundValue
}

type Request struct {
	Header      Header
	Payload     map[string][]byte
	Options     map[string]string // STARTUP
	Token       []byte            // AUTH_RESPONSE
	TokenNull   bool
	Events      []string // REGISTER
	Statement   string   // QUERY, PREPARE
	PrepFlags   uint32   // PREPARE v5
	PrepKS      string
	HasPrepKS   bool
	PreparedID  []byte // EXECUTE
	Params      *QueryParams
	BatchType   byte
	BatchStmts  []BatchStmt
	BatchCons   int
	BatchFlags  uint32
	BatchSerial int
	BatchHasSer bool
	BatchTS     int64
	BatchHasTS  bool
}

func (r *rd) value(v int, named bool) BoundValue {
	var bv BoundValue
	if named {
		bv.Name = r.str()
	}
	b, null, unset := r.bytes()
	if unset && v < 4 {
		r.fail("unset value on protocol %d", v)
	}
	bv.Bytes, bv.Null, bv.Unset = b, null, unset
	if !null && !unset && b == nil {
		bv.Bytes = []byte{}
	}
	return bv
}

func (r *rd) params(v int) *QueryParams {
	p := &QueryParams{Consistency: r.short()}
	if v == 1 {
		return p
	}
	if v >= 5 {
		p.Flags = uint32(r.int_())
	} else {
		p.Flags = uint32(r.byte_())
	}
	known := uint32(QValues | QSkipMeta | QPageSize | QPagingState | QSerial)
	if v >= 3 {
		known |= QTimestamp | QNames
	}
	if v >= 5 {
		known |= QKeyspace
	}
	if p.Flags&^known != 0 {
		r.fail("query flags %#x not defined for protocol %d", p.Flags, v)
	}
	p.SkipMeta = p.Flags&QSkipMeta != 0
	p.Names = p.Flags&QNames != 0
	if p.Flags&QValues != 0 {
		p.HasValues = true
		n := r.short()
		for i := 0; i < n && r.err == nil; i++ {
			p.Values = append(p.Values, r.value(v, p.Names))
		}
	} else if p.Names {
		r.fail("names flag without values flag")
	}
	if p.Flags&QPageSize != 0 {
		p.HasPageSize = true
		p.PageSize = r.int_()
	}
	if p.Flags&QPagingState != 0 {
		p.HasPagingState = true
		b, null, unset := r.bytes()
		if null || unset {
			r.fail("null paging state")
		}
		p.PagingState = b
	}
	if p.Flags&QSerial != 0 {
		p.HasSerial = true
		p.Serial = r.short()
	}
	if p.Flags&QTimestamp != 0 {
		p.HasTimestamp = true
		p.Timestamp = r.long()
	}
	if p.Flags&QKeyspace != 0 {
		p.HasKeyspace = true
		p.Keyspace = r.str()
	}
	return p
}

// DecodeRequest decodes a request body (already decompressed) for the header h.
// It fails unless the body is consumed exactly.
func DecodeRequest(h Header, body []byte) (*Request, error) {
	v := h.Version
	q := &Request{Header: h}
	r := &rd{b: body}
	if h.Response {
		return nil, errors.New("response-direction version byte in a request")
	}
	if h.Flags&FlagPayload != 0 {
		if v < 4 {
			return nil, fmt.Errorf("custom payload flag on protocol %d", v)
		}
		q.Payload = r.bytesmap()
	}
	if h.Flags&FlagWarning != 0 {
		return nil, errors.New("warning flag in a request")
	}
	switch h.Op {
	case OpStartup:
		n := r.short()
		q.Options = map[string]string{}
		for i := 0; i < n && r.err == nil; i++ {
			k := r.str()
			val := r.str()
			if _, dup := q.Options[k]; dup {
				r.fail("duplicate STARTUP option %s", k)
			}
			q.Options[k] = val
		}
	case OpOptions:
	case OpAuthResponse:
		b, null, unset := r.bytes()
		if unset {
			r.fail("unset auth token")
		}
		q.Token, q.TokenNull = b, null
	case OpRegister:
		q.Events = r.strlist()
	case OpQuery:
		q.Statement = r.longstr()
		q.Params = r.params(v)
	case OpPrepare:
		q.Statement = r.longstr()
		if v >= 5 {
			q.PrepFlags = uint32(r.int_())
			if q.PrepFlags&^1 != 0 {
				r.fail("unknown prepare flags %#x", q.PrepFlags)
			}
			if q.PrepFlags&1 != 0 {
				q.HasPrepKS = true
				q.PrepKS = r.str()
			}
		}
	case OpExecute:
		q.PreparedID = r.shortbytes()
		if v == 1 {
			n := r.short()
			p := &QueryParams{}
			for i := 0; i < n && r.err == nil; i++ {
				p.Values = append(p.Values, r.value(v, false))
			}
			p.HasValues = n > 0
			p.Consistency = r.short()
			q.Params = p
		} else {
			q.Params = r.params(v)
		}
	case OpBatch:
		if v < 2 {
			return nil, errors.New("BATCH on protocol 1")
		}
		q.BatchType = r.byte_()
		if q.BatchType > 2 {
			r.fail("batch type %d", q.BatchType)
		}
		n := r.short()
		type pending struct{ idx int }
		for i := 0; i < n && r.err == nil; i++ {
			var s BatchStmt
			s.Kind = r.byte_()
			switch s.Kind {
			case 0:
				s.Statement = r.longstr()
			case 1:
				s.ID = r.shortbytes()
			default:
				r.fail("batch statement kind %d", s.Kind)
			}
			m := r.short()
			for j := 0; j < m && r.err == nil; j++ {
				// names in batches are flagged after the statements (a protocol wart); gocql never sends them
				s.Values = append(s.Values, r.value(v, false))
			}
			q.BatchStmts = append(q.BatchStmts, s)
		}
		q.BatchCons = r.short()
		if v >= 3 {
			if v >= 5 {
				q.BatchFlags = uint32(r.int_())
			} else {
				q.BatchFlags = uint32(r.byte_())
			}
			if q.BatchFlags&^uint32(QSerial|QTimestamp) != 0 {
				r.fail("batch flags %#x", q.BatchFlags)
			}
			if q.BatchFlags&QSerial != 0 {
				q.BatchHasSer = true
				q.BatchSerial = r.short()
			}
			if q.BatchFlags&QTimestamp != 0 {
				q.BatchHasTS = true
				q.BatchTS = r.long()
			}
		}
	default:
		return nil, fmt.Errorf("opcode %#x is not a request", h.Op)
	}
	if r.err != nil {
		return nil, fmt.Errorf("op %#x: %v", h.Op, r.err)
	}
	if len(r.b) != 0 {
		return nil, fmt.Errorf("op %#x: %d bytes left after the body was decoded", h.Op, len(r.b))
	}
	return q, nil
}

// ---- writer -----------------------------------------------------------------------------

// Field records where a length / count field sits in an encoded body (for hostile mutation).
type Field struct {
	Off  int
	Size int    // 1, 2 or 4 bytes
	Kind string // e.g. "string-len", "bytes-len", "count", "int"
}

type W struct {
	B      []byte
	Fields []Field
}

func (w *W) mark(size int, kind string) { w.Fields = append(w.Fields, Field{len(w.B), size, kind}) }
func (w *W) Byte(b byte)                { w.B = append(w.B, b) }
func (w *W) Short(n int)                { w.B = append(w.B, byte(n>>8), byte(n)) }
func (w *W) Int(n int32) {
	w.B = append(w.B, byte(n>>24), byte(n>>16), byte(n>>8), byte(n))
}
func (w *W) Long(n int64) {
	var b [8]byte
	binary.BigEndian.PutUint64(b[:], uint64(n))
	w.B = append(w.B, b[:]...)
}
func (w *W) Count(n int) { w.mark(4, "count"); w.Int(int32(n)) }
func (w *W) ShortCount(n int) {
	w.mark(2, "count")
	w.Short(n)
}
func (w *W) String(s string) {
	w.mark(2, "string-len")
	w.Short(len(s))
	w.B = append(w.B, s...)
}
func (w *W) LongString(s string) {
	w.mark(4, "longstring-len")
	w.Int(int32(len(s)))
	w.B = append(w.B, s...)
}
func (w *W) Bytes(b []byte) {
	w.mark(4, "bytes-len")
	if b == nil {
		w.Int(-1)
		return
	}
	w.Int(int32(len(b)))
	w.B = append(w.B, b...)
}
func (w *W) ShortBytes(b []byte) {
	w.mark(2, "shortbytes-len")
	w.Short(len(b))
	w.B = append(w.B, b...)
}
func (w *W) StringList(l []string) {
	w.ShortCount(len(l))
	for _, s := range l {
		w.String(s)
	}
}
func (w *W) UUID(u []byte) { w.B = append(w.B, u[:16]...) }
func (w *W) Inet(ip []byte, port int32) {
	w.mark(1, "inet-size")
	w.Byte(byte(len(ip)))
	w.B = append(w.B, ip...)
	w.Int(port)
}
func (w *W) InetAddr(ip []byte) {
	w.mark(1, "inet-size")
	w.Byte(byte(len(ip)))
	w.B = append(w.B, ip...)
}

// Type writes a type option.
func (w *W) Type(t *Type) {
	w.Short(t.ID)
	switch t.ID {
	case TCustom:
		w.String(t.Custom)
	case TList, TSet:
		w.Type(t.Elem)
	case TMap:
		w.Type(t.Key)
		w.Type(t.Elem)
	case TUDT:
		w.String(t.Keyspace)
		w.String(t.Name)
		w.ShortCount(len(t.Elems))
		for i, e := range t.Elems {
			w.String(t.Fields[i])
			w.Type(e)
		}
	case TTuple:
		w.ShortCount(len(t.Elems))
		for _, e := range t.Elems {
			w.Type(e)
		}
	}
}
