package cqlref

import (
	"bytes"
	"encoding/hex"
	"fmt"
	"math/big"
)

// SelfTest checks the reference implementation against byte vectors that are known to be
// right for Cassandra (from the protocol specification's examples and Cassandra's own
// serializer tests). An oracle that fails its self-test must not be used.
func SelfTest() error {
	type vec struct {
		t   *Type
		v   Val
		hex string
	}
	bi := func(s string) *big.Int { x, _ := new(big.Int).SetString(s, 10); return x }
	vecs := []vec{
		// varint examples from the spec (section 6.20)
		{&Type{ID: TVarint}, Val{I: bi("0")}, "00"},
		{&Type{ID: TVarint}, Val{I: bi("1")}, "01"},
		{&Type{ID: TVarint}, Val{I: bi("127")}, "7f"},
		{&Type{ID: TVarint}, Val{I: bi("128")}, "0080"},
		{&Type{ID: TVarint}, Val{I: bi("129")}, "0081"},
		{&Type{ID: TVarint}, Val{I: bi("-1")}, "ff"},
		{&Type{ID: TVarint}, Val{I: bi("-128")}, "80"},
		{&Type{ID: TVarint}, Val{I: bi("-129")}, "ff7f"},
		{&Type{ID: TVarint}, Val{I: bi("-32768")}, "8000"},
		{&Type{ID: TVarint}, Val{I: bi("-32769")}, "ff7fff"},
		{&Type{ID: TVarint}, Val{I: bi("18446744073709551615")}, "00ffffffffffffffff"},
		{&Type{ID: TInt}, Val{I: bi("-2")}, "fffffffe"},
		{&Type{ID: TBigint}, Val{I: bi("5")}, "0000000000000005"},
		{&Type{ID: TSmallint}, Val{I: bi("-32768")}, "8000"},
		{&Type{ID: TTinyint}, Val{I: bi("-1")}, "ff"},
		// date: 1970-01-01 = 2^31 ; 1969-12-31 = 2^31-1
		{&Type{ID: TDate}, Val{I: bi("0")}, "80000000"},
		{&Type{ID: TDate}, Val{I: bi("-1")}, "7fffffff"},
		{&Type{ID: TDate}, Val{I: bi("1")}, "80000001"},
		// decimal 1.23 = unscaled 123 scale 2
		{&Type{ID: TDecimal}, Val{I: bi("123"), Scale: 2}, "000000027b"},
		{&Type{ID: TDecimal}, Val{I: bi("-129"), Scale: -1}, "ffffffffff7f"},
		// duration vectors from Cassandra's DurationSerializer / gocql's public tests: 1mo 2d 3ns -> 02 04 06
		{&Type{ID: TDuration}, Val{Months: 1, Days: 2, Nanos: 3}, "020406"},
		{&Type{ID: TDuration}, Val{Months: -1, Days: -2, Nanos: -3}, "010305"},
		{&Type{ID: TDuration}, Val{Months: 0, Days: 0, Nanos: 64}, "00008080"},
		{&Type{ID: TDuration}, Val{Months: 0, Days: 0, Nanos: 1 << 20}, "0000e0200000"},
		{&Type{ID: TDuration}, Val{Months: 2147483647, Days: -2147483648, Nanos: 0}, "f0fffffffef0ffffffff00"},
		{&Type{ID: TDuration}, Val{Nanos: 9223372036854775807}, "0000fffffffffffffffffe"},
		{&Type{ID: TDuration}, Val{Nanos: -9223372036854775808}, "0000ffffffffffffffffff"},
		{&Type{ID: TBoolean}, Val{Bool: true}, "01"},
		{&Type{ID: TDouble}, Val{Bits: 0x3ff0000000000000}, "3ff0000000000000"},
	}
	for _, x := range vecs {
		for _, proto := range []int{2, 4} {
			b, err := EncodeValue(x.t, x.v, proto)
			if err != nil {
				return fmt.Errorf("encode %s %s: %v", x.t, x.v.String(x.t), err)
			}
			if hex.EncodeToString(b) != x.hex {
				return fmt.Errorf("encode %s %s = %x, want %s", x.t, x.v.String(x.t), b, x.hex)
			}
			d, err := DecodeValue(x.t, b, proto)
			if err != nil || !EqualVal(x.t, d, x.v) {
				return fmt.Errorf("decode %s %x = %s (%v), want %s", x.t, b, d.String(x.t), err, x.v.String(x.t))
			}
		}
	}
	// collection framing: list<int> [1,null,3] v3: 00000003 00000004 00000001 ffffffff 00000004 00000003
	lt := &Type{ID: TList, Elem: &Type{ID: TInt}}
	lv := Val{Elems: []Val{{I: bi("1")}, {Null: true}, {I: bi("3")}}}
	b, _ := EncodeValue(lt, lv, 3)
	if hex.EncodeToString(b) != "000000030000000400000001ffffffff0000000400000003" {
		return fmt.Errorf("list v3 framing: %x", b)
	}
	b, _ = EncodeValue(lt, Val{Elems: []Val{{I: bi("1")}}}, 2)
	if hex.EncodeToString(b) != "0001000400000001" {
		return fmt.Errorf("list v2 framing: %x", b)
	}
	mt := &Type{ID: TMap, Key: &Type{ID: TText}, Elem: &Type{ID: TTinyint}}
	b, _ = EncodeValue(mt, Val{Keys: []Val{{B: []byte("a")}}, Elems: []Val{{I: bi("2")}}}, 4)
	if hex.EncodeToString(b) != "00000001000000016100000001" + "02" {
		return fmt.Errorf("map v4 framing: %x", b)
	}
	tt := &Type{ID: TTuple, Elems: []*Type{{ID: TInt}, {ID: TText}}}
	b, _ = EncodeValue(tt, Val{Elems: []Val{{Null: true}, {B: []byte("xy")}}, Present: -1}, 4)
	if hex.EncodeToString(b) != "ffffffff000000027879" {
		return fmt.Errorf("tuple framing: %x", b)
	}
	if err := selfTestTokens(); err != nil {
		return err
	}
	return selfTestCompress()
}

type stepKnob struct{ n int }

func (k *stepKnob) Intn(n int) int { k.n = k.n*1103515245 + 12345; return int(uint32(k.n)>>8) % n }

func selfTestCompress() error {
	// hand-assembled from the format descriptions
	d, err := SnappyDecode([]byte{0x0a, 0x04, 'a', 'b', 0x1e, 0x02, 0x00})
	if err != nil || string(d) != "ababababab" {
		return fmt.Errorf("snappy reference decoder: %q %v", d, err)
	}
	d, err = SnappyDecode([]byte{0x0a, 0x04, 'a', 'b', 0x0d, 0x02, 0x00, 'c'}) // copy1: len 4+3=7, offset 2
	if err != nil || string(d) != "ababababac" {
		return fmt.Errorf("snappy reference decoder (copy1): %q %v", d, err)
	}
	d, err = CassandraLZ4Decode([]byte{0, 0, 0, 15, 0x24, 'a', 'b', 0x02, 0x00, 0x50, 'a', 'b', 'a', 'b', 'a'})
	if err != nil || string(d) != "abababababababa" {
		return fmt.Errorf("lz4 reference decoder: %q %v", d, err)
	}
	if _, err = CassandraLZ4Decode([]byte{0, 0, 0, 16, 0x24, 'a', 'b', 0x02, 0x00, 0x50, 'a', 'b', 'a', 'b', 'a'}); err == nil {
		return fmt.Errorf("lz4 reference decoder accepts a block shorter than its prefix")
	}
	k := &stepKnob{n: 7}
	for n := 0; n < 400; n++ {
		src := make([]byte, n*3)
		for i := range src {
			src[i] = byte('a' + k.Intn(1+n%5))
		}
		if d, err := SnappyDecode(SnappyEncodeRef(src, k)); err != nil || !bytes.Equal(d, src) {
			return fmt.Errorf("snappy reference encoder/decoder disagree at n=%d: %v", len(src), err)
		}
		if d, err := CassandraLZ4Decode(CassandraLZ4EncodeRef(src, k)); err != nil || !bytes.Equal(d, src) {
			return fmt.Errorf("lz4 reference encoder/decoder disagree at n=%d: %v", len(src), err)
		}
	}
	return nil
}
