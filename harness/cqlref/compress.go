package cqlref

import (
	"encoding/binary"
	"errors"
)

// SnappyDecode decodes a snappy raw block (format description: uvarint length, then
// literal / copy elements).
func SnappyDecode(src []byte) ([]byte, error) {
	n, k := binary.Uvarint(src)
	if k <= 0 || n > 1<<31 {
		return nil, errors.New("snappy: bad length")
	}
	src = src[k:]
	dst := make([]byte, 0, n)
	for len(src) > 0 {
		tag := src[0]
		switch tag & 3 {
		case 0:
			l := int(tag >> 2)
			src = src[1:]
			if l >= 60 {
				nb := l - 59
				if len(src) < nb {
					return nil, errors.New("snappy: truncated literal length")
				}
				l = 0
				for i := 0; i < nb; i++ {
					l |= int(src[i]) << (8 * uint(i))
				}
				src = src[nb:]
			}
			l++
			if l > len(src) || l <= 0 {
				return nil, errors.New("snappy: truncated literal")
			}
			dst = append(dst, src[:l]...)
			src = src[l:]
		case 1:
			if len(src) < 2 {
				return nil, errors.New("snappy: truncated copy1")
			}
			l := 4 + int(tag>>2)&7
			off := int(tag>>5)<<8 | int(src[1])
			src = src[2:]
			if err := snappyCopy(&dst, off, l); err != nil {
				return nil, err
			}
		case 2:
			if len(src) < 3 {
				return nil, errors.New("snappy: truncated copy2")
			}
			l := 1 + int(tag>>2)
			off := int(src[1]) | int(src[2])<<8
			src = src[3:]
			if err := snappyCopy(&dst, off, l); err != nil {
				return nil, err
			}
		default:
			if len(src) < 5 {
				return nil, errors.New("snappy: truncated copy4")
			}
			l := 1 + int(tag>>2)
			off := int(binary.LittleEndian.Uint32(src[1:]))
			src = src[5:]
			if err := snappyCopy(&dst, off, l); err != nil {
				return nil, err
			}
		}
	}
	if uint64(len(dst)) != n {
		return nil, errors.New("snappy: length mismatch")
	}
	return dst, nil
}

func snappyCopy(dst *[]byte, off, l int) error {
	d := *dst
	if off <= 0 || off > len(d) {
		return errors.New("snappy: bad offset")
	}
	for i := 0; i < l; i++ {
		d = append(d, d[len(d)-off])
	}
	*dst = d
	return nil
}

// SnappyEncodeLiteral produces a valid snappy block consisting of literals only.
func SnappyEncodeLiteral(src []byte) []byte {
	var out []byte
	var lb [10]byte
	out = append(out, lb[:binary.PutUvarint(lb[:], uint64(len(src)))]...)
	for len(src) > 0 {
		n := len(src)
		if n > 65536 {
			n = 65536
		}
		switch {
		case n <= 60:
			out = append(out, byte(n-1)<<2)
		case n <= 256:
			out = append(out, 60<<2, byte(n-1))
		default:
			out = append(out, 61<<2, byte(n-1), byte((n-1)>>8))
		}
		out = append(out, src[:n]...)
		src = src[n:]
	}
	return out
}

// LZ4BlockDecode decodes one LZ4 block into a buffer of exactly size bytes.
func LZ4BlockDecode(src []byte, size int) ([]byte, error) {
	dst := make([]byte, 0, size)
	for len(src) > 0 {
		tok := src[0]
		src = src[1:]
		ll := int(tok >> 4)
		if ll == 15 {
			for {
				if len(src) == 0 {
					return nil, errors.New("lz4: truncated literal length")
				}
				b := src[0]
				src = src[1:]
				ll += int(b)
				if b != 255 {
					break
				}
			}
		}
		if ll > len(src) {
			return nil, errors.New("lz4: truncated literals")
		}
		dst = append(dst, src[:ll]...)
		src = src[ll:]
		if len(src) == 0 {
			break // last sequence has no match
		}
		if len(src) < 2 {
			return nil, errors.New("lz4: truncated offset")
		}
		off := int(src[0]) | int(src[1])<<8
		src = src[2:]
		ml := int(tok & 15)
		if ml == 15 {
			for {
				if len(src) == 0 {
					return nil, errors.New("lz4: truncated match length")
				}
				b := src[0]
				src = src[1:]
				ml += int(b)
				if b != 255 {
					break
				}
			}
		}
		ml += 4
		if off <= 0 || off > len(dst) {
			return nil, errors.New("lz4: bad offset")
		}
		for i := 0; i < ml; i++ {
			dst = append(dst, dst[len(dst)-off])
		}
		if len(dst) > size {
			return nil, errors.New("lz4: output too long")
		}
	}
	if len(dst) != size {
		return nil, errors.New("lz4: length mismatch")
	}
	return dst, nil
}

// CassandraLZ4Decode: 4-byte big-endian uncompressed length + LZ4 block.
func CassandraLZ4Decode(src []byte) ([]byte, error) {
	if len(src) < 4 {
		return nil, errors.New("lz4: missing length prefix")
	}
	n := int(binary.BigEndian.Uint32(src))
	if n == 0 {
		return []byte{}, nil
	}
	return LZ4BlockDecode(src[4:], n)
}

// CassandraLZ4EncodeLiteral: length prefix + a block made of one literal run.
func CassandraLZ4EncodeLiteral(src []byte) []byte {
	out := make([]byte, 4)
	binary.BigEndian.PutUint32(out, uint32(len(src)))
	n := len(src)
	if n < 15 {
		out = append(out, byte(n)<<4)
	} else {
		out = append(out, 0xf0)
		r := n - 15
		for r >= 255 {
			out = append(out, 255)
			r -= 255
		}
		out = append(out, byte(r))
	}
	return append(out, src...)
}

// ---- reference encoders that use back-references ----------------------------------------
//
// They exist to feed the driver's decoders with well-formed streams of a different shape
// than the ones the driver's own encoders produce (overlapping copies, every tag kind,
// non-minimal length encodings, far offsets). knob is any PRNG-like source of choices.

type Knob interface{ Intn(n int) int }

func findMatches(src []byte, minLen, maxOff int, fn func(litStart, pos, off, l int) (consumed int)) (tail int) {
	table := map[uint32]int{}
	lit := 0
	i := 0
	for i+4 <= len(src) {
		k := binary.LittleEndian.Uint32(src[i:])
		cand, ok := table[k]
		table[k] = i
		if ok && i-cand <= maxOff {
			l := 0
			for i+l < len(src) && src[cand+l] == src[i+l] {
				l++
			}
			if l >= minLen {
				used := fn(lit, i, i-cand, l)
				if used > 0 {
					i += used
					lit = i
					continue
				}
			}
		}
		i++
	}
	return lit
}

func snappyLiteral(out []byte, b []byte, k Knob) []byte {
	for len(b) > 0 {
		n := len(b)
		if k.Intn(4) == 0 && n > 1 {
			n = 1 + k.Intn(n)
		}
		width := 0
		switch {
		case n <= 60:
			width = 0
		case n <= 1<<8:
			width = 1
		case n <= 1<<16:
			width = 2
		case n <= 1<<24:
			width = 3
		default:
			width = 4
		}
		if k.Intn(3) == 0 && width < 4 {
			width += 1 + k.Intn(4-width) // non-minimal but valid
		}
		if width == 0 {
			out = append(out, byte(n-1)<<2)
		} else {
			out = append(out, byte(59+width)<<2)
			for j := 0; j < width; j++ {
				out = append(out, byte((n-1)>>(8*uint(j))))
			}
		}
		out = append(out, b[:n]...)
		b = b[n:]
	}
	return out
}

// SnappyEncodeRef encodes src as a valid snappy block with copies.
func SnappyEncodeRef(src []byte, k Knob) []byte {
	var out []byte
	var lb [10]byte
	out = append(out, lb[:binary.PutUvarint(lb[:], uint64(len(src)))]...)
	maxOff := []int{1, 7, 2047, 65535, 1 << 20, 1 << 30}[k.Intn(6)]
	tail := findMatches(src, 1+k.Intn(8), maxOff, func(lit, pos, off, l int) int {
		if lit < pos {
			out = snappyLiteral(out, src[lit:pos], k)
		}
		left := l
		for left > 0 {
			n := left
			if n > 64 {
				n = 64
			}
			if k.Intn(5) == 0 {
				n = 1 + k.Intn(n)
			}
			switch {
			case n >= 4 && n <= 11 && off < 2048 && k.Intn(3) != 0:
				out = append(out, byte(off>>8)<<5|byte(n-4)<<2|1, byte(off))
			case off < 65536 && k.Intn(6) != 0:
				out = append(out, byte(n-1)<<2|2, byte(off), byte(off>>8))
			default:
				out = append(out, byte(n-1)<<2|3, byte(off), byte(off>>8), byte(off>>16), byte(off>>24))
			}
			left -= n
		}
		return l
	})
	if tail < len(src) {
		out = snappyLiteral(out, src[tail:], k)
	}
	return out
}

func lz4Len(out []byte, n int) []byte {
	for n >= 255 {
		out = append(out, 255)
		n -= 255
	}
	return append(out, byte(n))
}

// LZ4BlockEncodeRef encodes src as one valid LZ4 block (end-of-block rules respected:
// the last five bytes are literals and the last match starts 12 or more bytes before the end).
func LZ4BlockEncodeRef(src []byte, k Knob) []byte {
	var out []byte
	emit := func(lits []byte, off, ml int) {
		tok := byte(0)
		if len(lits) >= 15 {
			tok = 0xf0
		} else {
			tok = byte(len(lits)) << 4
		}
		if ml > 0 {
			if ml-4 >= 15 {
				tok |= 15
			} else {
				tok |= byte(ml - 4)
			}
		}
		out = append(out, tok)
		if len(lits) >= 15 {
			out = lz4Len(out, len(lits)-15)
		}
		out = append(out, lits...)
		if ml > 0 {
			out = append(out, byte(off), byte(off>>8))
			if ml-4 >= 15 {
				out = lz4Len(out, ml-4-15)
			}
		}
	}
	maxOff := []int{1, 3, 255, 65535}[k.Intn(4)]
	tail := findMatches(src, 4, maxOff, func(lit, pos, off, l int) int {
		if pos > len(src)-12 {
			return 0
		}
		if pos+l > len(src)-5 {
			l = len(src) - 5 - pos
		}
		if k.Intn(5) == 0 && l > 4 {
			l = 4 + k.Intn(l-3)
		}
		if l < 4 {
			return 0
		}
		emit(src[lit:pos], off, l)
		return l
	})
	emit(src[tail:], 0, 0)
	return out
}

func CassandraLZ4EncodeRef(src []byte, k Knob) []byte {
	out := make([]byte, 4)
	binary.BigEndian.PutUint32(out, uint32(len(src)))
	return append(out, LZ4BlockEncodeRef(src, k)...)
}
