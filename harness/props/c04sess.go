package props

import (
	"bytes"
	"fmt"
	"strings"
	"sync"

	"github.com/gocql/gocql"

	"verifharness/cqlref"
	"verifharness/fakenode"
	"verifharness/runner"
)

// C04, session phase: the same comparison through the public API of a real session.

type c04exchange struct {
	kind    string // error | rows | prepared-rows | void | set_keyspace | schema_change
	err     *cqlref.ErrSpec
	rows    *c04rows
	prefix  *cqlref.Prefix
	traceID []byte
	bind    cqlref.Metadata
	schema  *cqlref.SchemaChange
	ks      string

	mu        sync.Mutex
	skipAsked int
	executes  int
	prepares  int
	followUps int // requests that carried the paging state of this exchange's response
}

type c04node struct {
	mu     sync.Mutex
	script map[string]*c04exchange
}

func c04idOf(stmt string) string {
	f := strings.Fields(strings.TrimPrefix(stmt, "SELECT "))
	if len(f) >= 2 && f[0] == "C04" {
		return f[1]
	}
	return ""
}

func (cn *c04node) handler(sc *fakenode.ServerConn, req *fakenode.Req) {
	stmt := ""
	switch req.Header.Op {
	case cqlref.OpPrepare, cqlref.OpQuery:
		stmt = req.Statement
	case cqlref.OpExecute:
		stmt = strings.TrimPrefix(string(req.PreparedID), "P:")
	case cqlref.OpBatch:
		if len(req.BatchStmts) > 0 {
			stmt = req.BatchStmts[0].Statement
		}
	default:
		sc.ReplyVoid(req)
		return
	}
	cn.mu.Lock()
	ex := cn.script[c04idOf(stmt)]
	cn.mu.Unlock()
	if ex == nil {
		sc.ReplyVoid(req)
		return
	}
	v := sc.Version
	if req.Header.Op == cqlref.OpPrepare {
		ex.mu.Lock()
		ex.prepares++
		ex.mu.Unlock()
		res := cqlref.Metadata{NoMetadata: true}
		if ex.rows != nil {
			res = ex.rows.meta
			res.MorePages, res.PagingState = false, nil
		}
		sc.Reply(req, cqlref.OpResult, nil, cqlref.BodyPrepared(v, &cqlref.PreparedSpec{ID: []byte("P:" + stmt), Bind: ex.bind, Result: res}))
		return
	}
	p := &cqlref.Prefix{}
	if ex.prefix != nil {
		*p = *ex.prefix
	}
	p.TraceID = nil
	if req.Header.Flags&cqlref.FlagTracing != 0 {
		p.TraceID = ex.traceID
	}
	switch ex.kind {
	case "error":
		sc.Reply(req, cqlref.OpError, p, cqlref.BodyError(v, ex.err))
	case "rows", "prepared-rows":
		meta := ex.rows.meta
		if req.Params != nil && req.Params.HasPagingState && meta.MorePages && bytes.Equal(req.Params.PagingState, meta.PagingState) {
			// the caller pages automatically and asks for what follows: an empty last page
			ex.mu.Lock()
			ex.followUps++
			ex.mu.Unlock()
			meta.MorePages, meta.PagingState = false, nil
			if req.Params.SkipMeta {
				meta.NoMetadata = true
			}
			sc.Reply(req, cqlref.OpResult, p, cqlref.BodyRows(v, &cqlref.RowsSpec{Meta: meta}))
			return
		}
		ex.mu.Lock()
		ex.executes++
		if req.Params != nil && req.Params.SkipMeta {
			ex.skipAsked++
			meta.NoMetadata = true
		}
		ex.mu.Unlock()
		sc.Reply(req, cqlref.OpResult, p, cqlref.BodyRows(v, &cqlref.RowsSpec{Meta: meta, Rows: ex.rows.cells}))
	case "set_keyspace":
		sc.Reply(req, cqlref.OpResult, p, cqlref.BodySetKeyspace(ex.ks))
	case "schema_change":
		sc.Reply(req, cqlref.OpResult, p, cqlref.BodySchemaChange(v, ex.schema))
	default:
		sc.Reply(req, cqlref.OpResult, p, cqlref.BodyVoid())
	}
}

type c04tracer struct {
	mu  sync.Mutex
	ids [][]byte
}

func (t *c04tracer) Trace(id []byte) {
	t.mu.Lock()
	t.ids = append(t.ids, append([]byte{}, id...))
	t.mu.Unlock()
}

func c04sessionCase(c *runner.Ctx, i int) {
	r := c.Rng
	version := 1 + i%5
	compName := []string{"", "snappy", "lz4"}[(i/5)%3]
	cl := fakenode.NewCluster(1)
	cn := &c04node{script: map[string]*c04exchange{}}
	cl.Nodes[0].Handler = cn.handler
	cfg := newCfg(cl, version)
	cfg.Compressor = compressorByName(compName)
	cfg.DisableSkipMetadata = r.Intn(4) == 0
	sess, err := cfg.CreateSession()
	if err != nil {
		c.Inconclusive("c04-session", err.Error())
		return
	}
	defer sess.Close()
	c.Add("sessions", 1)
	hostID := uuidString(cl.Nodes[0].HostID)
	for k := 0; k < 12; k++ {
		id := fmt.Sprintf("x%d_%d", i, k)
		ex := &c04exchange{prefix: c04prefix(r, version)}
		ex.traceID = make([]byte, 16)
		r.Read(ex.traceID)
		switch m := r.Intn(10); {
		case m < 3:
			ex.kind = "error"
			for {
				ex.err = c04errSpec(r, version)
				if ex.err.Code != 0x2500 { // UNPREPARED makes the driver re-prepare and resend (C14)
					break
				}
			}
		case m < 6:
			ex.kind = "rows"
			ex.rows = c04genRows(r, version, true)
		case m < 8:
			ex.kind = "prepared-rows"
			ex.rows = c04genRows(r, version, true)
			ex.bind = cqlref.Metadata{Global: true, ColCount: 1, Columns: []cqlref.Column{{Keyspace: "ks", Table: "t", Name: "k", Type: &cqlref.Type{ID: cqlref.TVarchar}}}}
			if version >= 4 {
				ex.bind.PKIndexes = []int{0}
			}
		case m == 8:
			ex.kind = []string{"void", "set_keyspace"}[r.Intn(2)]
			ex.ks = "ks" + c04str(r)
		default:
			ex.kind = "schema_change"
			ex.schema = &cqlref.SchemaChange{Change: "CREATED", Target: []string{"KEYSPACE", "TABLE"}[r.Intn(2)], Keyspace: "ks1", Name: "t1"}
		}
		cn.mu.Lock()
		cn.script[id] = ex
		cn.mu.Unlock()
		key := fmt.Sprintf("%s v%d compression=%q flags=%#x skipmeta-disabled=%v", ex.kind, version, compName, ex.prefix.Flags(version), cfg.DisableSkipMetadata)
		c.Eval(runner.H("c04sess", ex.kind, version, compName, ex.prefix.Flags(version), cfg.DisableSkipMetadata), true)
		wit := map[string]interface{}{"case": key}
		fail := func(class, why string) {
			c.Violation("C04:session:"+ex.kind+":"+class, fmt.Sprintf("%s (%s)", why, key), wit)
		}
		tracer := &c04tracer{}
		traced := r.Intn(2) == 0
		stmt := "C04 " + id + " go"
		var q *gocql.Query
		if ex.kind == "prepared-rows" {
			stmt = "SELECT " + stmt + " WHERE k = ?"
			q = sess.Query(stmt, "key-"+id)
		} else {
			q = sess.Query(stmt)
		}
		if traced {
			q.Trace(tracer)
		}
		checkTrace := func() {
			tracer.mu.Lock()
			ids := tracer.ids
			tracer.mu.Unlock()
			if !traced {
				return
			}
			c.Add("session_trace_ids", 1)
			if len(ids) == 0 || !bytes.Equal(ids[len(ids)-1], ex.traceID) {
				fail("trace-id", fmt.Sprintf("the tracer was given %x, the response carried trace id %x", ids, ex.traceID))
			}
		}
		switch ex.kind {
		case "error":
			var err error
			how := r.Intn(3)
			if version == 1 && how == 2 {
				how = 0
			}
			switch how {
			case 0:
				c.Guard("Exec", func() { err = q.Exec() })
			case 1:
				c.Guard("Iter.Close", func() { err = q.Iter().Close() })
			default:
				b := sess.NewBatch(gocql.UnloggedBatch)
				b.Query(stmt)
				traced = false
				c.Guard("ExecuteBatch", func() { err = sess.ExecuteBatch(b) })
			}
			c.Add("session_errors_compared", 1)
			if err == nil {
				fail("lost", fmt.Sprintf("the server answered with error %#x but the call returned nil", ex.err.Code))
				continue
			}
			if why := c04compareError(err, ex.err, version); why != "" {
				fail(fmt.Sprintf("fields:%#x", ex.err.Code), why)
			}
			checkTrace()
		case "rows", "prepared-rows":
			// has_more_pages: either the caller pages by hand (one page only), or the driver asks for what follows -
			// also when this page holds no rows
			autoPage := ex.rows.meta.MorePages && len(ex.rows.meta.PagingState) > 0 && r.Intn(2) == 0
			if ex.rows.meta.MorePages && !autoPage {
				q.PageState(nil) // one page only
			}
			consumer := []string{"scan", "scanner", "mapscan", "slicemap"}[r.Intn(4)]
			for _, cl := range ex.rows.cols {
				if cl.valueT == nil && (consumer == "mapscan" || consumer == "slicemap") {
					consumer = "scan"
				}
			}
			var it *gocql.Iter
			c.Guard("Iter", func() { it = q.Iter() })
			cols := it.Columns()
			warn := it.Warnings()
			pay := it.GetCustomPayload()
			state := it.PageState()
			if why := c04consume(c, r, it, ex.rows, consumer); why != "" {
				var types []string
				for _, cl := range ex.rows.cols {
					types = append(types, cl.want.String())
				}
				wit["column_types"] = types
				fail(consumer, why)
				continue
			}
			c.Add("session_rows_compared", 1)
			if why := c04compareColumns(cols, ex.rows.cols); why != "" {
				fail("columns", why)
			}
			if version >= 4 {
				if ex.prefix.HasWarn {
					c.Add("session_warnings", 1)
				}
				if fmt.Sprintf("%q", warn) != fmt.Sprintf("%q", ex.prefix.Warnings) && !(len(warn) == 0 && len(ex.prefix.Warnings) == 0) {
					fail("warnings", fmt.Sprintf("Iter.Warnings() = %q, the response carried %q", warn, ex.prefix.Warnings))
				}
				if ex.prefix.HasPay {
					c.Add("session_payloads", 1)
				}
				bad := len(pay) != len(ex.prefix.Payload)
				for pk, pv := range ex.prefix.Payload {
					if g, ok := pay[pk]; !ok || !bytes.Equal(g, pv) {
						bad = true
					}
				}
				if bad {
					fail("custom-payload", fmt.Sprintf("Iter.GetCustomPayload() = %q, the response carried %q", pay, ex.prefix.Payload))
				}
			}
			if ex.rows.meta.MorePages {
				if !bytes.Equal(state, ex.rows.meta.PagingState) {
					fail("paging-state", fmt.Sprintf("Iter.PageState() = %x, the response carried %x", state, ex.rows.meta.PagingState))
				}
			} else if len(state) != 0 {
				fail("paging-state", fmt.Sprintf("Iter.PageState() = %x, the response carried none", state))
			}
			if autoPage && ex.rows.consumed {
				ex.mu.Lock()
				fu := ex.followUps
				ex.mu.Unlock()
				c.Add("session_has_more_pages_followed", 1)
				if len(ex.rows.vals) == 0 {
					c.Add("session_empty_page_with_more_pages", 1)
				}
				if fu != 1 {
					fail("has-more-pages", fmt.Sprintf("the response (%d rows) had has_more_pages set and a paging state; after the rows were read to the end the node had received %d requests carrying that state, want 1", len(ex.rows.vals), fu))
				}
			}
			checkTrace()
			if ex.kind == "prepared-rows" {
				ex.mu.Lock()
				asked, execs := ex.skipAsked, ex.executes
				ex.mu.Unlock()
				if asked > 0 {
					c.Add("session_skipmeta", 1)
				}
				if execs != 1 {
					fail("execute-count", fmt.Sprintf("%d EXECUTE requests for one query", execs))
				}
				pid, reqM, respM, ok := gocql.VerifPreparedInfo(sess, hostID, "", stmt)
				if !ok {
					fail("prepared-missing", "the prepared-statement cache has no entry for the statement just executed")
					continue
				}
				c.Add("session_prepared_compared", 1)
				if string(pid) != "P:"+stmt {
					fail("prepared-id", fmt.Sprintf("cached prepared id %q, the server issued %q", pid, "P:"+stmt))
				}
				bindCols := []c04col{{spec: ex.bind.Columns[0], want: ex.bind.Columns[0].Type}}
				if why := c04compareColumns(reqM.Columns, bindCols); why != "" {
					fail("prepared-bind-metadata", why)
				}
				if version >= 4 && (len(reqM.PKeys) != 1 || reqM.PKeys[0] != 0) {
					fail("prepared-pk-indexes", fmt.Sprintf("cached partition key indexes %v, the server said [0]", reqM.PKeys))
				}
				if version >= 2 {
					if why := c04compareColumns(respM.Columns, ex.rows.cols); why != "" {
						fail("prepared-result-metadata", why)
					}
				}
			}
		default:
			var err error
			c.Guard("Exec", func() { err = q.Exec() })
			if err != nil {
				fail("error", fmt.Sprintf("a %s result was reported as error %v", ex.kind, err))
			}
			checkTrace()
		}
		if c.WantSample() {
			c.Sample(map[string]interface{}{"case": key, "traced": traced})
		}
	}
}
