package props

import (
	"bytes"
	"fmt"
	"math/big"
	"math/rand"
	"reflect"
	"strings"
	"time"

	"github.com/gocql/gocql"

	"verifharness/cqlref"
	"verifharness/gen"
	"verifharness/runner"
)

// C02 (round trip) and C12 (byte-exact encoding) share one workload: generated
// (protocol version, type tree, logical value, Go source form, Go target forms).

type valMode int

const (
	modeC02 valMode = iota
	modeC12
)

func init() {
	for _, m := range []valMode{modeC02, modeC12} {
		m := m
		id := map[valMode]string{modeC02: "C02", modeC12: "C12"}[m]
		p := &runner.Prop{
			ID:        id,
			Level:     "exploration",
			Technique: "runtime oracle: differential check of gocql.Marshal/Unmarshal against an independent reference codec over generated values",
			Rule: "case = (protocol version 1-5, CQL type tree to depth 3 (quick) / 4 (thorough), boundary-biased logical value, documented Go source form, documented Go target forms); " +
				"distinct = hash of (version, type tree, Go source form, value bytes); non-trivial = the type is nested or the value was drawn from a boundary class (every generated value is boundary-biased; trivial = reference encoding shorter than 1 byte)",
			Assumptions: []string{
				"cqlref (harness/cqlref) implements the native protocol specification's value encodings correctly; it is self-checked against known Cassandra byte vectors at start-up",
				"documented Go types are those in the doc comments of gocql.Marshal / gocql.Unmarshal",
			},
			Phases: func(tier string) []runner.Phase {
				n := 600000
				if tier == "thorough" {
					n = 12000000
				}
				return []runner.Phase{{
					Name: "values", Variant: "plain", Cases: n, CaseTimeout: 0,
					Setup: func(c *runner.Ctx) {
						if err := cqlref.SelfTest(); err != nil {
							panic("cqlref self-test failed: " + err.Error())
						}
					},
					Run:      func(c *runner.Ctx, i int) { valueCase(c, i, m) },
					Required: []string{"marshal_ok", "roundtrips", "nested_types", "large_collections", "marshal_results_rechecked", "udt_redefinitions", "zero_padded_integer_strings"},
				}}
			},
		}
		runner.Register(p)
	}
}

func vclass(t *cqlref.Type, v cqlref.Val) string {
	if v.Null {
		return "null"
	}
	if v.I != nil {
		if v.I.Sign() < 0 {
			return "neg"
		}
		return "nonneg"
	}
	return "-"
}

func safeMarshal(ti gocql.TypeInfo, v interface{}) (b []byte, err error, pan interface{}) {
	defer func() {
		if r := recover(); r != nil {
			pan = r
		}
	}()
	b, err = gocql.Marshal(ti, v)
	return
}

func safeUnmarshal(ti gocql.TypeInfo, b []byte, dst interface{}) (err error, pan interface{}) {
	defer func() {
		if r := recover(); r != nil {
			pan = r
		}
	}()
	err = gocql.Unmarshal(ti, b, dst)
	return
}

// encodesRight reports whether gocql's encoding b of (t, v) equals the specification's.
func encodesRight(t *cqlref.Type, v cqlref.Val, b []byte, proto int, unordered bool) (bool, string) {
	ref, err := cqlref.EncodeValue(t, v, proto)
	if err != nil {
		return true, ""
	}
	if (b == nil) != (ref == nil) {
		return false, fmt.Sprintf("null-ness differs: gocql %x reference %x", b, ref)
	}
	if !unordered {
		if !bytes.Equal(b, ref) {
			return false, fmt.Sprintf("gocql %x reference %x", clip(b), clip(ref))
		}
		return true, ""
	}
	dv, err := cqlref.DecodeValue(t, b, proto)
	if err != nil {
		return false, fmt.Sprintf("reference decoder rejects gocql's bytes %x: %v", clip(b), err)
	}
	if !cqlref.EqualVal(t, canon(t, dv, proto), canon(t, v, proto)) {
		return false, fmt.Sprintf("gocql's bytes %x decode (by the reference) to %s, want %s", clip(b), dv.String(t), v.String(t))
	}
	re, err := cqlref.EncodeValue(t, dv, proto)
	if err != nil || !bytes.Equal(re, b) {
		return false, fmt.Sprintf("gocql's bytes %x are not the canonical encoding %x of the same value", clip(b), clip(re))
	}
	return true, ""
}

func clip(b []byte) []byte {
	if len(b) > 96 {
		return b[:96]
	}
	return b
}

func formUnordered(f *gform) bool {
	if f.kind == "mapset" || f.kind == "map" || f.kind == "udtmap" {
		return f.kind != "udtmap"
	}
	for _, s := range f.sub {
		if formUnordered(s) {
			return true
		}
	}
	return false
}

// blameEncoding finds the innermost (type, form, value) whose standalone Marshal output
// differs from the reference while all of its children encode correctly.
func blameEncoding(t *cqlref.Type, f *gform, v cqlref.Val, proto int) (string, string, string) {
	kids := func(yield func(ct *cqlref.Type, cf *gform, cv cqlref.Val) bool) {
		switch t.ID {
		case cqlref.TList, cqlref.TSet:
			for _, e := range v.Elems {
				if !yield(t.Elem, f.sub[0], e) {
					return
				}
			}
		case cqlref.TMap:
			for i := range v.Elems {
				if !yield(t.Key, f.sub[0], v.Keys[i]) || !yield(t.Elem, f.sub[1], v.Elems[i]) {
					return
				}
			}
		case cqlref.TTuple, cqlref.TUDT:
			for i, e := range v.Elems {
				if !yield(t.Elems[i], f.sub[i], e) {
					return
				}
			}
		}
	}
	var rt, rf, rc string
	found := false
	kids(func(ct *cqlref.Type, cf *gform, cv cqlref.Val) bool {
		if cv.Null {
			return true
		}
		gv, ok := build(cf, cv)
		if !ok {
			return true
		}
		b, err, pan := safeMarshal(typeInfo(ct, proto), gv.Interface())
		if pan != nil || err != nil {
			return true
		}
		if ok, _ := encodesRight(ct, cv, b, proto, hasUnordered(ct) || formUnordered(cf)); !ok {
			rt, rf, rc = blameEncoding(ct, cf, cv, proto)
			found = true
			return false
		}
		return true
	})
	if found {
		return rt, rf, rc
	}
	return t.Name0(), f.keyName(), vclass(t, v)
}

// blameRoundTrip: innermost (type, src form, dst form) whose own round trip fails.
func blameRoundTrip(t *cqlref.Type, sf, df *gform, v cqlref.Val, proto int) (string, string, string, string) {
	if len(sf.sub) == len(df.sub) && len(sf.sub) > 0 {
		var cts []*cqlref.Type
		var cvs [][]cqlref.Val
		switch t.ID {
		case cqlref.TList, cqlref.TSet:
			cts, cvs = []*cqlref.Type{t.Elem}, [][]cqlref.Val{v.Elems}
		case cqlref.TMap:
			cts, cvs = []*cqlref.Type{t.Key, t.Elem}, [][]cqlref.Val{v.Keys, v.Elems}
		case cqlref.TTuple, cqlref.TUDT:
			for i, e := range v.Elems {
				cts = append(cts, t.Elems[i])
				cvs = append(cvs, []cqlref.Val{e})
			}
		}
		for i, ct := range cts {
			for _, cv := range cvs[i] {
				if cv.Null {
					continue
				}
				if ok, _ := roundTripOK(ct, sf.sub[i], df.sub[i], cv, proto); !ok {
					return blameRoundTrip(ct, sf.sub[i], df.sub[i], cv, proto)
				}
			}
		}
	}
	return t.Name0(), sf.keyName(), df.keyName(), vclass(t, v)
}

func roundTripOK(t *cqlref.Type, sf, df *gform, v cqlref.Val, proto int) (bool, string) {
	gv, ok := build(sf, v)
	if !ok {
		return true, ""
	}
	if _, ok := build(df, v); !ok {
		return true, ""
	}
	ti := typeInfo(t, proto)
	b, err, pan := safeMarshal(ti, gv.Interface())
	if pan != nil || err != nil {
		return true, ""
	}
	dst := reflect.New(df.goType())
	if err, pan := safeUnmarshal(ti, b, dst.Interface()); err != nil || pan != nil {
		return false, fmt.Sprintf("unmarshal failed: %v %v", err, pan)
	}
	got, err := readGo(df, dst.Elem())
	if err != nil {
		return false, err.Error()
	}
	if !cqlref.EqualVal(t, canon(t, blurNil(df, t, got), proto), canon(t, blurNil(df, t, v), proto)) {
		return false, fmt.Sprintf("decoded %s, want %s (bytes %x)", got.String(t), v.String(t), clip(b))
	}
	return true, ""
}

func unmarshalTargetOf(f *gform) bool {
	switch f.kind {
	case "mapset", "datems", "durns", "durstring", "uuid16", "ifaceslice", "struct", "udtmap":
		// marshal-only representations, and containers whose elements gocql allocates itself on decode
		return false
	}
	for _, s := range f.sub {
		if !unmarshalTargetOf(s) {
			return false
		}
	}
	return true
}

func valueCase(c *runner.Ctx, i int, m valMode) {
	r := c.Rng
	proto := 1 + r.Intn(5)
	maxDepth := 3
	if c.Tier == "thorough" {
		maxDepth = 4
	}
	depth := 1
	switch x := r.Intn(10); {
	case x < 4:
		depth = 1
	case x < 7:
		depth = 2
	default:
		depth = 2 + r.Intn(maxDepth-1)
	}
	if i%997 == 3 && proto >= 3 {
		udtRedefined(c, i, proto)
	}
	t := gen.TypeTree(r, depth, proto)
	// now and then: collections around the limits of the 2-byte framing of protocol 1/2 (element counts and
	// element sizes of 2^15 .. 2^16), which generated values never reach
	var largeVals []cqlref.Val
	large := i%5000 == 7
	if large {
		t, largeVals = largeCollection(r, proto)
		c.Add("large_collections", 1)
	}
	ti := typeInfo(t, proto)
	opts := gen.Opts{Proto: proto, AllowNull: proto >= 3, OutOfRange: 12}
	// what Marshal returned is kept and looked at again after the later Marshal calls of this case: the driver
	// itself marshals every bound value of a statement before it writes any of them
	type heldOut struct {
		b, snapshot []byte
		what        string
	}
	var held []heldOut
	defer func() {
		for _, h := range held {
			c.Add("marshal_results_rechecked", 1)
			if !bytes.Equal(h.b, h.snapshot) {
				c.Violation(fmt.Sprintf("%s:marshal-result-changed-after-return:%s", c.Prop, t.Name0()), fmt.Sprintf("the bytes Marshal returned for %s were %x and read %x after %d later Marshal calls", h.what, clip(h.snapshot), clip(h.b), len(held)),
					map[string]interface{}{"proto": proto, "type": t.String(), "value": h.what})
				break
			}
		}
	}()
	for k := 0; k < 6; k++ {
		var v cqlref.Val
		if large {
			if k >= len(largeVals) {
				break
			}
			v = largeVals[k]
		} else {
			v = gen.Value(r, t, opts)
		}
		sf := pickForm(r, t, []cqlref.Val{v}, dirMarshal, false, proto)
		if sf == nil {
			c.Add("no_form", 1)
			continue
		}
		gv, ok := build(sf, v)
		if !ok {
			c.Add("not_representable_in_source_form", 1)
			continue
		}
		if sf.kind == "intstring" && gv.Kind() == reflect.String {
			if ss := strings.TrimPrefix(gv.String(), "-"); len(ss) > 1 && ss[0] == '0' {
				c.Add("zero_padded_integer_strings", 1)
			}
		}
		inRange := inRangeDeep(t, v)
		ref, refErr := cqlref.EncodeValue(t, v, proto)
		nested := t.Depth() > 1
		c.Eval(runner.H(proto, t.String(), sf.String(), v.String(t)), nested || len(ref) >= 1 || !inRange)
		if nested {
			c.Add("nested_types", 1)
		}
		b, err, pan := safeMarshal(ti, gv.Interface())
		wit := func(extra string) map[string]interface{} {
			return map[string]interface{}{"proto": proto, "type": t.String(), "value": v.String(t), "go_form": sf.String(), "go_value": fmt.Sprintf("%#v", clipS(fmt.Sprintf("%v", gv.Interface()))), "detail": extra}
		}
		if pan != nil {
			c.Violation(fmt.Sprintf("%s:panic:Marshal:%s:%s", c.Prop, t.Name0(), sf.keyName()), fmt.Sprintf("Marshal panicked on a documented Go value: %v", pan), wit(fmt.Sprint(pan)))
			continue
		}
		if err != nil {
			c.Add("marshal_err", 1)
			if inRange && m == modeC12 && refErr == nil { // (a reference error: the value is not expressible in this protocol version)
				bt, bf, bc := blameEncodingErr(t, sf, v, proto)
				c.Violation(fmt.Sprintf("C12:unexpected-marshal-error:%s:%s:%s", bt, bf, bc), "Marshal refused a value inside the CQL type's range given as a documented Go type: "+err.Error(), wit(err.Error()))
			}
			continue
		}
		c.Add("marshal_ok", 1)
		if len(b) > 0 && len(b) < 1<<16 {
			held = append(held, heldOut{b, append([]byte{}, b...), clipS(v.String(t))})
		}
		if c.WantSample() {
			c.Sample(map[string]interface{}{"proto": proto, "type": t.String(), "go_form": sf.String(), "value": v.String(t), "gocql_bytes": fmt.Sprintf("%x", clip(b)), "reference_bytes": fmt.Sprintf("%x", clip(ref))})
		}
		if refErr == nil && m == modeC12 {
			if ok, why := encodesRight(t, v, b, proto, hasUnordered(t) || formUnordered(sf)); !ok {
				bt, bf, bc := blameEncoding(t, sf, v, proto)
				c.Violation(fmt.Sprintf("C12:encoding:%s:%s:%s", bt, bf, bc), "Marshal output differs from the specification's encoding: "+why, wit(why))
			}
			c.Add("encodings_compared", 1)
		}
		// decode targets
		var targets []*gform
		if unmarshalTargetOf(sf) {
			targets = append(targets, sf)
		}
		for j := 0; j < 2; j++ {
			if tf := pickForm(r, t, []cqlref.Val{v}, dirUnmarshal, false, proto); tf != nil {
				targets = append(targets, tf)
			}
		}
		if nf := naturalForm(t); nf != nil && r.Intn(3) == 0 {
			targets = append(targets, nf)
		}
		for _, df := range targets {
			if _, ok := build(df, v); !ok {
				c.Add("target_cannot_represent", 1)
				continue
			}
			type src struct {
				name string
				b    []byte
			}
			var srcs []src
			if m == modeC02 {
				srcs = append(srcs, src{"gocql", b})
			}
			if m == modeC12 && refErr == nil {
				srcs = append(srcs, src{"reference", ref})
			}
			for _, s := range srcs {
				dst := reflect.New(df.goType())
				err, pan := safeUnmarshal(ti, s.b, dst.Interface())
				if pan != nil {
					c.Violation(fmt.Sprintf("%s:panic:Unmarshal:%s:%s", c.Prop, t.Name0(), df.keyName()), fmt.Sprintf("Unmarshal panicked on well-formed bytes: %v", pan), wit(fmt.Sprintf("target %s bytes(%s) %x: %v", df, s.name, clip(s.b), pan)))
					continue
				}
				c.Add("roundtrips", 1)
				bad := ""
				var gotI *big.Int // the decoded number, if the column is an integer type and decoding worked
				if err != nil {
					bad = "Unmarshal error: " + err.Error()
				} else if got, rerr := readGo(df, dst.Elem()); rerr != nil {
					bad = "decoded Go value is not a valid representation: " + rerr.Error()
				} else if !cqlref.EqualVal(t, canon(t, blurNil(df, t, got), proto), canon(t, blurNil(df, t, v), proto)) {
					bad = fmt.Sprintf("decoded %s, want %s", got.String(t), v.String(t))
					gotI = got.I
				}
				if bad == "" && m == modeC02 && (i+k)%3 == 0 {
					// the same destination again, after it held another value of the type: what a loop over rows does.
					// Decoding must not depend on what the destination held before.
					v0 := gen.Value(r, t, opts)
					if b0, e0 := cqlref.EncodeValue(t, v0, proto); e0 == nil {
						if _, okb := build(df, v0); okb {
							dst2 := reflect.New(df.goType())
							if err0, pan0 := safeUnmarshal(ti, b0, dst2.Interface()); err0 == nil && pan0 == nil {
								c.Add("reused_destinations", 1)
								err2, pan2 := safeUnmarshal(ti, s.b, dst2.Interface())
								switch {
								case pan2 != nil:
									bad = fmt.Sprintf("Unmarshal into a destination that held %s panicked: %v", v0.String(t), pan2)
								case err2 != nil:
									bad = fmt.Sprintf("Unmarshal into a destination that held %s failed: %v", v0.String(t), err2)
								default:
									if got, rerr := readGo(df, dst2.Elem()); rerr != nil {
										bad = "decoded Go value (reused destination) is not a valid representation: " + rerr.Error()
									} else if !cqlref.EqualVal(t, canon(t, blurNil(df, t, got), proto), canon(t, blurNil(df, t, v), proto)) {
										bad = fmt.Sprintf("decoded %s into a destination that held %s before, want %s", got.String(t), v0.String(t), v.String(t))
									}
								}
								if bad != "" {
									bt, bsf, bdf, bc := blameRoundTrip(t, sf, df, v, proto)
									_ = bsf
									c.Violation(fmt.Sprintf("C02:reused-destination:%s:%s:%s", bt, bdf, bc), "Unmarshal gives a different value when the destination held another value before: "+bad, wit(fmt.Sprintf("target %s, bytes %x", df, clip(s.b))))
									continue
								}
							}
						}
					}
				}
				if bad == "" {
					continue
				}
				detail := fmt.Sprintf("target %s, bytes(%s) %x: %s", df, s.name, clip(s.b), bad)
				if s.name == "reference" {
					bt, bf, bc := blameDecode(t, df, v, proto)
					c.Violation(fmt.Sprintf("C12:decoding:%s:%s:%s", bt, bf, bc), "Unmarshal of the specification's encoding does not give the value: "+bad, wit(detail))
					continue
				}
				bt, bsf, bdf, bc := blameRoundTrip(t, sf, df, v, proto)
				class := "roundtrip"
				if !inRange {
					class = "out-of-range-accepted"
				}
				if !inRange && unsignedWrapClass(bt, bsf) {
					// one finding per (column type, unsigned Go source type), whatever the decode target - as long as
					// what comes back is that failure (the number wrapped into the column's signed range); anything
					// else that comes back is a different failure and is reported under its own key
					wrapped := true
					if bits := map[int]uint{cqlref.TTinyint: 8, cqlref.TSmallint: 16, cqlref.TInt: 32, cqlref.TBigint: 64, cqlref.TCounter: 64}[t.ID]; bits > 0 && v.I != nil && gotI != nil {
						w := new(big.Int).Sub(v.I, new(big.Int).Lsh(big.NewInt(1), bits))
						wrapped = gotI.Cmp(w) == 0
						c.Add("unsigned_wrap_results_examined", 1)
					}
					if wrapped {
						c.Violation(fmt.Sprintf("C02:unsigned-wrap:%s:%s", bt, bsf), "an unsigned Go value above the column type's signed maximum is accepted and wraps to a negative number: "+bad, wit(detail))
						continue
					}
				}
				c.Violation(fmt.Sprintf("C02:%s:%s:%s->%s:%s", class, bt, bsf, bdf, bc), "Marshal succeeded but Unmarshal into a documented target that can represent the value does not give it back: "+bad, wit(detail))
			}
		}
		// null / zero distinctions
		if m == modeC02 && k == 0 {
			nullChecks(c, t, ti, sf, proto)
		}
	}
}

func unsignedWrapClass(cqlType, srcForm string) bool {
	switch cqlType {
	case "tinyint", "smallint", "int", "bigint", "counter":
	default:
		return false
	}
	return strings.HasPrefix(srcForm, "uint") || strings.HasPrefix(srcForm, "named-Uint")
}

func clipS(s string) string {
	if len(s) > 300 {
		return s[:300] + "..."
	}
	return s
}

// blameEncodingErr: innermost child for which Marshal alone errors.
func blameEncodingErr(t *cqlref.Type, f *gform, v cqlref.Val, proto int) (string, string, string) {
	type kid struct {
		t *cqlref.Type
		f *gform
		v cqlref.Val
	}
	var ks []kid
	switch t.ID {
	case cqlref.TList, cqlref.TSet:
		for _, e := range v.Elems {
			ks = append(ks, kid{t.Elem, f.sub[0], e})
		}
	case cqlref.TMap:
		for i := range v.Elems {
			ks = append(ks, kid{t.Key, f.sub[0], v.Keys[i]}, kid{t.Elem, f.sub[1], v.Elems[i]})
		}
	case cqlref.TTuple, cqlref.TUDT:
		for i, e := range v.Elems {
			ks = append(ks, kid{t.Elems[i], f.sub[i], e})
		}
	}
	for _, k := range ks {
		if k.v.Null {
			continue
		}
		gv, ok := build(k.f, k.v)
		if !ok {
			continue
		}
		if _, err, pan := safeMarshal(typeInfo(k.t, proto), gv.Interface()); err != nil || pan != nil {
			return blameEncodingErr(k.t, k.f, k.v, proto)
		}
	}
	return t.Name0(), f.keyName(), vclass(t, v)
}

// blameDecode: innermost (type, target form) for which decoding the reference bytes fails.
func blameDecode(t *cqlref.Type, f *gform, v cqlref.Val, proto int) (string, string, string) {
	type kid struct {
		t *cqlref.Type
		f *gform
		v cqlref.Val
	}
	var ks []kid
	switch t.ID {
	case cqlref.TList, cqlref.TSet:
		for _, e := range v.Elems {
			ks = append(ks, kid{t.Elem, f.sub[0], e})
		}
	case cqlref.TMap:
		for i := range v.Elems {
			ks = append(ks, kid{t.Key, f.sub[0], v.Keys[i]}, kid{t.Elem, f.sub[1], v.Elems[i]})
		}
	case cqlref.TTuple, cqlref.TUDT:
		for i, e := range v.Elems {
			ks = append(ks, kid{t.Elems[i], f.sub[i], e})
		}
	}
	for _, k := range ks {
		if k.v.Null {
			continue
		}
		if _, ok := build(k.f, k.v); !ok {
			continue
		}
		ref, err := cqlref.EncodeValue(k.t, k.v, proto)
		if err != nil {
			continue
		}
		dst := reflect.New(k.f.goType())
		uerr, pan := safeUnmarshal(typeInfo(k.t, proto), ref, dst.Interface())
		bad := uerr != nil || pan != nil
		if !bad {
			got, rerr := readGo(k.f, dst.Elem())
			bad = rerr != nil || !cqlref.EqualVal(k.t, canon(k.t, blurNil(k.f, k.t, got), proto), canon(k.t, blurNil(k.f, k.t, k.v), proto))
		}
		if bad {
			return blameDecode(k.t, k.f, k.v, proto)
		}
	}
	return t.Name0(), f.keyName(), vclass(t, v)
}

// nullChecks: nil marshals to null; null decodes to the zero value of T and to a nil *T;
// an empty (non-null) text/blob stays distinguishable from null through **T.
func nullChecks(c *runner.Ctx, t *cqlref.Type, ti gocql.TypeInfo, f *gform, proto int) {
	c.Add("null_checks", 1)
	b, err, pan := safeMarshal(ti, nil)
	if pan != nil || err != nil || b != nil {
		c.Violation(fmt.Sprintf("C02:null:marshal-nil:%s", t.Name0()), fmt.Sprintf("Marshal(nil) gave %x, %v, panic %v; want null", b, err, pan), map[string]interface{}{"type": t.String()})
	}
	if !unmarshalTargetOf(f) || f.kind == "array" {
		return
	}
	base := *f
	base.ptr = false
	if f.kind != "ifaceslice" && f.kind != "udtmap" {
		np := reflect.Zero(reflect.PtrTo(base.rt))
		b, err, pan = safeMarshal(ti, np.Interface())
		if pan != nil || err != nil || b != nil {
			if !(t.ID == cqlref.TUDT) { // marshalUDT documents an error for a nil struct pointer
				c.Violation(fmt.Sprintf("C02:null:marshal-nil-pointer:%s:%s", t.Name0(), base.keyName()), fmt.Sprintf("Marshal((*T)(nil)) gave %x, %v, panic %v; want null", b, err, pan), map[string]interface{}{"type": t.String(), "form": base.String()})
			}
		}
	}
	// null into **T => nil
	pp := reflect.New(reflect.PtrTo(base.rt))
	pp.Elem().Set(reflect.New(base.rt))
	if err, pan := safeUnmarshal(ti, nil, pp.Interface()); err != nil || pan != nil || !pp.Elem().IsNil() {
		c.Violation(fmt.Sprintf("C02:null:into-pointer-pointer:%s:%s", t.Name0(), base.keyName()), fmt.Sprintf("Unmarshal(null) into **T: err=%v panic=%v nil=%v; want nil pointer", err, pan, pp.Elem().IsNil()), map[string]interface{}{"type": t.String(), "form": base.String()})
	}
	// null into *T => zero value
	if base.kind != "uuidtime" {
		p := reflect.New(base.rt)
		if gv, ok := build(&base, gen.Value(rand.New(rand.NewSource(int64(c.Case))), t, gen.Opts{Proto: proto})); ok {
			p.Elem().Set(gv)
		}
		err, pan := safeUnmarshal(ti, nil, p.Interface())
		if pan != nil {
			c.Violation(fmt.Sprintf("C02:null:panic:%s:%s", t.Name0(), base.keyName()), fmt.Sprintf("Unmarshal(null) into *T panicked: %v", pan), map[string]interface{}{"type": t.String(), "form": base.String()})
		} else if err == nil {
			z := reflect.Zero(base.rt)
			if !zeroLike(p.Elem(), z) {
				c.Violation(fmt.Sprintf("C02:null:into-value-not-zero:%s:%s", t.Name0(), base.keyName()), fmt.Sprintf("Unmarshal(null) into *T left %v, want the zero value", clipS(fmt.Sprint(p.Elem().Interface()))), map[string]interface{}{"type": t.String(), "form": base.String()})
			}
		}
	}
	// empty vs null for text-like types
	switch t.ID {
	case cqlref.TAscii, cqlref.TText, cqlref.TVarchar, cqlref.TBlob:
		if base.kind == "basic" {
			pp := reflect.New(reflect.PtrTo(base.rt))
			if err, pan := safeUnmarshal(ti, []byte{}, pp.Interface()); err != nil || pan != nil || pp.Elem().IsNil() {
				c.Violation(fmt.Sprintf("C02:null:empty-read-as-null:%s:%s", t.Name0(), base.keyName()), fmt.Sprintf("Unmarshal(empty, non-null) into **T: err=%v panic=%v nil=%v; want non-nil pointer to empty", err, pan, pp.Elem().IsNil()), map[string]interface{}{"type": t.String(), "form": base.String()})
			}
			ev := reflect.New(base.rt).Elem()
			if base.rt.Kind() == reflect.Slice {
				ev.Set(reflect.MakeSlice(base.rt, 0, 0))
			}
			b, err, pan := safeMarshal(ti, ev.Interface())
			if err != nil || pan != nil || b == nil {
				c.Violation(fmt.Sprintf("C02:null:empty-written-as-null:%s:%s", t.Name0(), base.keyName()), fmt.Sprintf("Marshal(empty) gave null (%v %v)", err, pan), map[string]interface{}{"type": t.String(), "form": base.String()})
			}
		}
	}
}

func zeroLike(a, z reflect.Value) bool {
	switch a.Kind() {
	case reflect.Slice, reflect.Map:
		return a.Len() == 0
	}
	if a.Type() == rtTime {
		return a.Interface().(time.Time).IsZero()
	}
	if a.Type() == rtBigInt {
		b := a.Interface().(big.Int)
		return b.Sign() == 0
	}
	if a.Kind() == reflect.String && a.String() == "0" {
		return true // a null integer read into *string is formatted as the number 0
	}
	return reflect.DeepEqual(a.Interface(), z.Interface())
}

// largeCollection builds a list / set / map whose element count or element size sits at a boundary of the
// unsigned 16-bit collection framing of protocol versions 1 and 2 (and far inside the 32-bit one of 3+).
func largeCollection(r *rand.Rand, proto int) (*cqlref.Type, []cqlref.Val) {
	sizes := []int{32767, 32768, 32769, 40000, 65535, 65536, 70000}
	n := sizes[r.Intn(len(sizes))]
	blob := func(n int) cqlref.Val {
		b := make([]byte, n)
		r.Read(b)
		return cqlref.Val{B: b}
	}
	ascii := func(n int) cqlref.Val {
		b := make([]byte, n)
		for i := range b {
			b[i] = byte('a' + r.Intn(26))
		}
		return cqlref.Val{B: b}
	}
	T := func(id int) *cqlref.Type { return &cqlref.Type{ID: id} }
	switch r.Intn(5) {
	case 0: // one large element between two small ones
		return &cqlref.Type{ID: cqlref.TList, Elem: T(cqlref.TBlob)}, []cqlref.Val{{Elems: []cqlref.Val{blob(3), blob(n), blob(2)}}}
	case 1:
		return &cqlref.Type{ID: cqlref.TList, Elem: T(cqlref.TText)}, []cqlref.Val{{Elems: []cqlref.Val{ascii(n), ascii(1)}}}
	case 2: // large map value, then large map key
		t := &cqlref.Type{ID: cqlref.TMap, Key: T(cqlref.TVarchar), Elem: T(cqlref.TBlob)}
		return t, []cqlref.Val{{Keys: []cqlref.Val{ascii(4), ascii(5)}, Elems: []cqlref.Val{blob(n), blob(1)}}, {Keys: []cqlref.Val{ascii(n), ascii(3)}, Elems: []cqlref.Val{blob(2), blob(1)}}}
	case 3: // many elements
		es := make([]cqlref.Val, n)
		for i := range es {
			es[i] = cqlref.Val{I: big.NewInt(int64(i) - 100)}
		}
		id := cqlref.TList
		if r.Intn(2) == 0 {
			id = cqlref.TSet
		}
		return &cqlref.Type{ID: id, Elem: T(cqlref.TInt)}, []cqlref.Val{{Elems: es}}
	default: // many map entries
		ks := make([]cqlref.Val, n)
		vs := make([]cqlref.Val, n)
		for i := range ks {
			ks[i] = cqlref.Val{I: big.NewInt(int64(i))}
			vs[i] = cqlref.Val{Bool: i%3 == 0}
		}
		return &cqlref.Type{ID: cqlref.TMap, Key: T(cqlref.TInt), Elem: T(cqlref.TBoolean)}, []cqlref.Val{{Keys: ks, Elems: vs}}
	}
}

// udtRedefined: one Go struct type used for a user-defined type whose definition changes under the same keyspace and
// name (ALTER TYPE ... ADD while the application runs; the same type name in another cluster with another field
// order). Each Marshal / Unmarshal goes by the definition it is given.
type c12udtRow struct {
	A int32  `cql:"a"`
	B string `cql:"b"`
	C int32  `cql:"c"`
}

func udtRedefined(c *runner.Ctx, i int, proto int) {
	intT, textT := &cqlref.Type{ID: cqlref.TInt}, &cqlref.Type{ID: cqlref.TText}
	name := fmt.Sprintf("redef_%d", i%7)
	defs := []*cqlref.Type{
		{ID: cqlref.TUDT, Keyspace: "ks", Name: name, Fields: []string{"a", "b"}, Elems: []*cqlref.Type{intT, textT}},
		{ID: cqlref.TUDT, Keyspace: "ks", Name: name, Fields: []string{"a", "b", "c"}, Elems: []*cqlref.Type{intT, textT, intT}},
		{ID: cqlref.TUDT, Keyspace: "ks", Name: name, Fields: []string{"c", "a"}, Elems: []*cqlref.Type{intT, intT}},
	}
	row := c12udtRow{A: int32(i%1000 + 1), B: fmt.Sprintf("b%d", i), C: int32(-i%1000 - 2)}
	valOf := func(t *cqlref.Type) cqlref.Val {
		v := cqlref.Val{Present: -1}
		for _, f := range t.Fields {
			switch f {
			case "a":
				v.Elems = append(v.Elems, cqlref.Val{I: big.NewInt(int64(row.A))})
			case "b":
				v.Elems = append(v.Elems, cqlref.Val{B: []byte(row.B)})
			default:
				v.Elems = append(v.Elems, cqlref.Val{I: big.NewInt(int64(row.C))})
			}
		}
		return v
	}
	for k, t := range defs {
		ref, err := cqlref.EncodeValue(t, valOf(t), proto)
		if err != nil {
			c.Broken("udtRedefined: reference encoder: " + err.Error())
			return
		}
		ti := typeInfo(t, proto)
		b, merr, pan := safeMarshal(ti, row)
		c.Add("udt_redefinitions", 1)
		wit := map[string]interface{}{"proto": proto, "definition": t.String(), "definition_number": k, "go_value": fmt.Sprintf("%+v", row)}
		if pan != nil || merr != nil || !bytes.Equal(b, ref) {
			c.Violation(fmt.Sprintf("%s:udt-redefined:marshal", c.Prop), fmt.Sprintf("a struct marshalled for definition %d of %s.%s (%v) gives %x, the specification's encoding is %x (err %v, panic %v)", k, t.Keyspace, t.Name, t.Fields, clip(b), clip(ref), merr, pan), wit)
			return
		}
		var back c12udtRow
		uerr, upan := safeUnmarshal(ti, ref, &back)
		want := c12udtRow{}
		for _, f := range t.Fields {
			switch f {
			case "a":
				want.A = row.A
			case "b":
				want.B = row.B
			default:
				want.C = row.C
			}
		}
		if upan != nil || uerr != nil || back != want {
			c.Violation(fmt.Sprintf("%s:udt-redefined:unmarshal", c.Prop), fmt.Sprintf("definition %d of %s.%s (%v) decodes into %+v, want %+v (err %v, panic %v)", k, t.Keyspace, t.Name, t.Fields, back, want, uerr, upan), wit)
			return
		}
	}
}
