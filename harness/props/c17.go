package props

import (
	"context"
	"errors"
	"fmt"
	"math/rand"
	"runtime"
	"sort"
	"strings"
	"sync"
	"sync/atomic"
	"time"

	"github.com/gocql/gocql"

	"verifharness/cqlref"
	"verifharness/fakenode"
	"verifharness/perturb"
	"verifharness/runner"
)

// C17: pools stay within bounds; a session is safe to share and always closes.

func init() {
	runner.Register(&runner.Prop{
		ID: "C17", Level: "exploration",
		Technique: "runtime monitors over real sessions on scripted in-memory nodes: pool-size sampler (at hook hits and at quiescence), node-side connection tables, goroutine-stack leak scan and hang detector around Session.Close, broad concurrent API workload under the Go race detector with seeded perturbation at pool / debouncer / control-connection hook points",
		Rule: "case = one session (pool size 1..8, 1..4 nodes) with a scenario from {fill storm: many simultaneous fill triggers + connection drops; API mix: queries, batches, prepared statements, paging, schema metadata, setters from 2..64 goroutines; close races: Session.Close once / twice / concurrently / during queries, a ring refresh, a control-connection reconnect or event delivery}; " +
			"distinct = hash(scenario parameters, schedule signature); non-trivial = every case (each has concurrent activity racing a pool fill or Close)",
		Assumptions: []string{
			"'closes within a bounded time' is restated with all driver timeouts <= 200 ms: after Close returns, every connection the driver dialled must be closed and no goroutine with gocql frames may remain within 5 s; Close itself is subject to the hang detector (two identical goroutine dumps 8 s apart with no I/O or hook activity)",
			"every data race the detector reports inside gocql code during this broad workload is attributed to C17",
		},
		RaceOwner: func(fns []string) bool { return true },
		Phases: func(tier string) []runner.Phase {
			n, cw := 240, 24
			if tier == "thorough" {
				n, cw = 8000, 480
			}
			return []runner.Phase{
				{Name: "close-at-wake", Variant: "race", Cases: cw, Run: closeAtWake, CaseTimeout: 60 * time.Second, Required: []string{"close_at_wake_cases", "close_reached_stop_while_parked"}},
				{Name: "close-parked", Variant: "race", Cases: cw, Run: closeParked, CaseTimeout: 60 * time.Second, Required: []string{"close_parked_cases", "activity_parked:control-heartbeat-unanswered", "activity_parked:control-reconnect-waiting-for-system.local", "activity_parked:refill-failed-waiting-for-conviction"}},
				{Name: "close-vs-reconnect", Variant: "race", Cases: n * 2, Run: c17closeReconnect, CaseTimeout: 40 * time.Second, Required: []string{"closes_checked"}},
				{Name: "scenarios", Variant: "race", Cases: n, Run: c17case, CaseTimeout: 60 * time.Second,
					Required: []string{"fill_storms", "api_mixes", "close_races", "uneven_fills", "closes_checked", "pool_samples", "control_loss_before_close", "replacement_attempts_refused_once"}},
				{Name: "debouncer-stress", Variant: "race", Cases: cw, Run: c17debouncerStress, CaseTimeout: 60 * time.Second, Required: []string{"debouncer_refresh_requests", "debouncer_refreshes_run", "debouncer_single_requester_rounds"}},
				{Name: "node-returns", Variant: "race", Cases: cw, Run: c17nodeReturns, CaseTimeout: 120 * time.Second, Required: []string{"node_return_rounds", "coinciding_up_triggers", "pool_removals_checked"}},
				{Name: "refresh-storm", Variant: "race", Cases: cw, Run: c17refreshStorm, CaseTimeout: 60 * time.Second, Required: []string{"refresh_storms", "ring_refreshes_requested"}},
			}
		},
	})
}

// gocqlGoroutines returns the stacks of goroutines that are inside gocql code (not called from the harness).
func gocqlGoroutines() []string {
	buf := make([]byte, 32<<20)
	n := runtime.Stack(buf, true)
	var out []string
	for _, blk := range strings.Split(string(buf[:n]), "\n\n") {
		if !strings.Contains(blk, "github.com/gocql/gocql") {
			continue
		}
		if strings.Contains(blk, "verifharness/props.") || strings.Contains(blk, "verifharness/runner.") {
			// a harness goroutine calling into the driver
			continue
		}
		out = append(out, blk)
	}
	return out
}

// c17openConns describes the connections still open (for witnesses).
func c17openConns(cl *fakenode.Cluster) []string {
	var out []string
	for _, sc := range cl.AllConns() {
		if sc.Driver.Closed() {
			continue
		}
		var ops []string
		for _, rq := range sc.AllRequests() {
			ops = append(ops, fmt.Sprintf("%#x", rq.Header.Op))
		}
		out = append(out, fmt.Sprintf("node %s conn #%d control=%v requests=%v outstanding=%d", sc.Node.IP, sc.Index, sc.Control(), ops, sc.Outstanding()))
	}
	return out
}

// c17awaitClosed waits until nothing the driver dialled is open and no goroutine runs driver
// code any more. A leftover only counts when it is a stable state: still there after at
// least 5 s AND 400 polling steps (so that a starved process does not run out the clock in a
// few steps), and then unchanged for another 3 s.
func c17awaitClosed(c *runner.Ctx, cl *fakenode.Cluster) (open []string, leaked []string) {
	start := time.Now()
	for steps := 0; ; steps++ {
		open, leaked = c17openConns(cl), gocqlGoroutines()
		if len(open) == 0 && len(leaked) == 0 {
			return nil, nil
		}
		if steps >= 400 && time.Since(start) > 5*time.Second {
			break
		}
		time.Sleep(5 * time.Millisecond)
	}
	for k := 0; k < 30; k++ {
		time.Sleep(100 * time.Millisecond)
		o2, l2 := c17openConns(cl), gocqlGoroutines()
		if len(o2) < len(open) || len(l2) < len(leaked) {
			// still winding down: slow, not stuck
			c.Add("slow_wind_down_after_close", 1)
			return c17awaitClosed(c, cl)
		}
	}
	return open, leaked
}

func topFrameOf(blk string) string {
	for _, l := range strings.Split(blk, "\n") {
		if strings.HasPrefix(l, "github.com/gocql/gocql") {
			l = strings.TrimPrefix(l, "github.com/gocql/gocql.")
			if i := strings.LastIndex(l, "("); i > 0 {
				l = l[:i]
			}
			return l
		}
	}
	return "?"
}

type c17sampler struct {
	sess *gocql.Session
	max  map[string]int
	size int
	mu   sync.Mutex
	n    int64
	stop chan struct{}
	done chan struct{}
}

func (s *c17sampler) sample() {
	snap := gocql.VerifPoolSnapshot(s.sess)
	s.mu.Lock()
	for _, p := range snap {
		if len(p.Conns) > s.max[p.Addr] {
			s.max[p.Addr] = len(p.Conns)
		}
	}
	s.n++
	s.mu.Unlock()
}

func (s *c17sampler) run() {
	defer close(s.done)
	t := time.NewTicker(150 * time.Microsecond)
	defer t.Stop()
	for {
		select {
		case <-s.stop:
			return
		case <-t.C:
			s.sample()
		}
	}
}

func c17case(c *runner.Ctx, i int) {
	r := c.Rng
	version := 3 + i%3
	nn := 1 + r.Intn(4)
	size := 1 + r.Intn(8)
	cl := fakenode.NewCluster(nn)
	var paged sync.Map
	handler := func(sc *fakenode.ServerConn, req *fakenode.Req) {
		switch req.Header.Op {
		case cqlref.OpPrepare:
			ps := &cqlref.PreparedSpec{ID: []byte("P:" + req.Statement), Bind: cqlref.Metadata{Global: true, ColCount: 1, Columns: []cqlref.Column{{Keyspace: "k", Table: "t", Name: "a", Type: &cqlref.Type{ID: cqlref.TInt}}}},
				Result: cqlref.Metadata{Global: true, ColCount: 1, Columns: []cqlref.Column{{Keyspace: "k", Table: "t", Name: "a", Type: &cqlref.Type{ID: cqlref.TInt}}}}}
			sc.Reply(req, cqlref.OpResult, nil, cqlref.BodyPrepared(sc.Version, ps))
		case cqlref.OpExecute, cqlref.OpQuery:
			// two pages of two rows for SELECTs / LIST PAGED, void otherwise
			stmt := req.Statement
			if req.Header.Op == cqlref.OpExecute {
				stmt = strings.TrimPrefix(string(req.PreparedID), "P:")
			}
			if strings.Contains(stmt, "PAGED") {
				meta := cqlref.Metadata{Global: true, ColCount: 1, Columns: []cqlref.Column{{Keyspace: "k", Table: "t", Name: "a", Type: &cqlref.Type{ID: cqlref.TInt}}}}
				if req.Params.SkipMeta {
					meta.NoMetadata = true
					meta.Columns = nil
				}
				if !req.Params.HasPagingState {
					meta.MorePages = true
					meta.PagingState = []byte("p2")
				}
				paged.Store(stmt, true)
				sc.ReplyRows(req, &cqlref.RowsSpec{Meta: meta, Rows: [][][]byte{{{0, 0, 0, 1}}, {{0, 0, 0, 2}}}})
				return
			}
			sc.ReplyVoid(req)
		default:
			sc.ReplyVoid(req)
		}
	}
	for _, n := range cl.Nodes {
		n.Handler = handler
	}
	cl.Keyspaces["ks1"] = map[string]string{"class": "org.apache.cassandra.locator.SimpleStrategy", "replication_factor": "1"}
	scenario := []string{"fill-storm", "api-mix", "close-race", "uneven-fill"}[i%4]
	var uneven int32 // while 1, new connections get an uneven handshake: some are dropped at STARTUP, the others answered late
	if scenario == "uneven-fill" {
		if size < 3 {
			size = 3 + r.Intn(4)
		}
		slow := time.Duration(200+r.Intn(500)) * time.Millisecond
		for _, n := range cl.Nodes {
			n.OnHandshake = func(conn *fakenode.ServerConn, op byte) bool {
				if op != cqlref.OpStartup || atomic.LoadInt32(&uneven) == 0 {
					return false
				}
				if conn.Index%3 == 1 {
					conn.Close() // this connect of the fill fails at once
					return true
				}
				time.Sleep(slow) // its siblings succeed, but late
				return false
			}
		}
	}
	ctl := perturb.Install(c.Seed*101+int64(i), []int{0, 20, 50, 80}[r.Intn(4)], 2*time.Millisecond, &c.Activity)
	defer perturb.Uninstall()
	cfg := newCfg(cl, version)
	cfg.NumConns = size
	cfg.Timeout = 150 * time.Millisecond
	cfg.ConnectTimeout = 150 * time.Millisecond
	cfg.ReconnectionPolicy = &gocql.ConstantReconnectionPolicy{MaxRetries: 2, Interval: time.Millisecond}
	if scenario == "uneven-fill" {
		cfg.ConnectTimeout = 2 * time.Second // the late handshakes are to succeed
	}
	if r.Intn(3) == 0 {
		cfg.ReconnectInterval = time.Duration(5+r.Intn(20)) * time.Millisecond
	}
	if r.Intn(3) == 0 {
		cfg.WriteCoalesceWaitTime = 100 * time.Microsecond
	}
	var sess *gocql.Session
	var err error
	c.Guard("CreateSession", func() { sess, err = cfg.CreateSession() })
	if err != nil {
		c.Inconclusive("c17-session", err.Error())
		return
	}
	sm := &c17sampler{sess: sess, max: map[string]int{}, size: size, stop: make(chan struct{}), done: make(chan struct{})}
	for _, pt := range []string{"fill.filling", "pool.connect.add", "pool.handleError", "fill.upgrade"} {
		ctl.SetOnHit(pt, sm.sample)
	}
	go sm.run()
	key := fmt.Sprintf("%s v%d nodes=%d size=%d coalesce=%v reconnect=%v", scenario, version, nn, size, cfg.WriteCoalesceWaitTime > 0, cfg.ReconnectInterval > 0)
	wit := map[string]interface{}{"scenario": key}
	fail := func(k, what string) { c.Violation("C17:"+k, what, wit) }
	outcomes := map[string]int{}
	var omu sync.Mutex
	note := func(err error) {
		omu.Lock()
		outcomes[classifyErr(err)]++
		omu.Unlock()
	}
	apiOp := func(rr *rand.Rand, g, k int) {
		switch rr.Intn(9) {
		case 0:
			c.Guard("Query.Exec", func() { note(sess.Query(fmt.Sprintf("LIST x%d_%d", g, k)).Exec()) })
		case 1:
			c.Guard("Query.Exec(prepared)", func() { note(sess.Query("INSERT INTO t (a) VALUES (?)", k).Exec()) })
		case 2:
			b := sess.NewBatch(gocql.UnloggedBatch)
			b.Query("INSERT INTO t (a) VALUES (?)", k)
			b.Query("UPDATE t SET a = 1")
			c.Guard("ExecuteBatch", func() { note(sess.ExecuteBatch(b)) })
		case 3:
			c.Guard("Iter(paged)", func() {
				it := sess.Query("SELECT PAGED a FROM t WHERE a = ?", k).PageSize(2).Iter()
				var a int
				for it.Scan(&a) {
				}
				note(it.Close())
			})
		case 4:
			c.Guard("KeyspaceMetadata", func() { _, err := sess.KeyspaceMetadata("ks1"); _ = err })
		case 5:
			ctx, cancel := context.WithTimeout(context.Background(), 50*time.Millisecond)
			c.Guard("AwaitSchemaAgreement", func() { sess.AwaitSchemaAgreement(ctx) })
			cancel()
		case 6:
			sess.SetConsistency(gocql.Quorum)
			sess.SetPageSize(100 + k%7)
			sess.SetPrefetch(0.3)
		case 7:
			ctx, cancel := context.WithCancel(context.Background())
			t := time.AfterFunc(time.Duration(rr.Intn(300))*time.Microsecond, cancel)
			c.Guard("Query.Exec(ctx)", func() { note(sess.Query(fmt.Sprintf("LIST c%d_%d", g, k)).WithContext(ctx).Exec()) })
			t.Stop()
			cancel()
		default:
			q := sess.Query(fmt.Sprintf("LIST r%d_%d", g, k))
			c.Guard("Query.Exec+Release", func() { note(q.Exec()) })
			q.Release()
		}
	}
	dropSome := func(rr *rand.Rand, frac int) {
		for _, n := range cl.Snapshot() {
			for _, sc := range n.OpenConns() {
				if rr.Intn(100) < frac {
					sc.Close()
				}
			}
		}
	}
	var wg sync.WaitGroup
	closers := 1
	switch scenario {
	case "fill-storm":
		c.Add("fill_storms", 1)
		// repeatedly: drop connections on the node side while many goroutines query (each Pick on an under-full pool triggers a fill)
		ng := 8 + r.Intn(56)
		for g := 0; g < ng; g++ {
			wg.Add(1)
			seed := r.Int63()
			go func(g int) {
				defer wg.Done()
				rr := rand.New(rand.NewSource(seed))
				for k := 0; k < 30; k++ {
					c.Guard("Query.Exec", func() { note(sess.Query(fmt.Sprintf("LIST s%d_%d", g, k)).Exec()) })
					if rr.Intn(6) == 0 {
						time.Sleep(time.Duration(rr.Intn(300)) * time.Microsecond)
					}
				}
			}(g)
		}
		rr := rand.New(rand.NewSource(r.Int63()))
		for round := 0; round < 6; round++ {
			time.Sleep(time.Duration(200+rr.Intn(1500)) * time.Microsecond)
			dropSome(rr, 30+rr.Intn(70))
			if rr.Intn(3) == 0 && nn > 1 {
				n := cl.Nodes[1+rr.Intn(nn-1)]
				gocql.VerifHandleNodeEvents(sess, []gocql.VerifNodeEvent{{Change: "UP", Host: n.IP, Port: 9042}})
			}
		}
		wg.Wait()
	case "api-mix":
		c.Add("api_mixes", 1)
		ng := 2 + r.Intn(62)
		for g := 0; g < ng; g++ {
			wg.Add(1)
			seed := r.Int63()
			go func(g int) {
				defer wg.Done()
				rr := rand.New(rand.NewSource(seed))
				for k := 0; k < 25; k++ {
					apiOp(rr, g, k)
				}
			}(g)
		}
		if r.Intn(2) == 0 {
			rr := rand.New(rand.NewSource(r.Int63()))
			time.Sleep(300 * time.Microsecond)
			dropSome(rr, 40)
		}
		wg.Wait()
	case "uneven-fill":
		// every pooled connection is lost; while the pools refill, one connect of each fill fails at once and its
		// siblings take a few hundred ms, with queries (each a fill trigger on an under-full pool) arriving all the time
		c.Add("uneven_fills", 1)
		atomic.StoreInt32(&uneven, 1)
		rr := rand.New(rand.NewSource(r.Int63()))
		dropSome(rr, 100)
		stopQ := make(chan struct{})
		for g := 0; g < 4; g++ {
			wg.Add(1)
			go func(g int) {
				defer wg.Done()
				for k := 0; ; k++ {
					select {
					case <-stopQ:
						return
					default:
					}
					c.Guard("Query.Exec", func() { note(sess.Query(fmt.Sprintf("LIST u%d_%d", g, k)).Exec()) })
					time.Sleep(3 * time.Millisecond)
				}
			}(g)
		}
		time.Sleep(1800 * time.Millisecond)
		atomic.StoreInt32(&uneven, 0)
		time.Sleep(300 * time.Millisecond)
		close(stopQ)
		wg.Wait()
	default:
		c.Add("close_races", 1)
		ng := 2 + r.Intn(30)
		closers = 1 + r.Intn(3)
		stopQ := make(chan struct{})
		for g := 0; g < ng; g++ {
			wg.Add(1)
			seed := r.Int63()
			go func(g int) {
				defer wg.Done()
				rr := rand.New(rand.NewSource(seed))
				for k := 0; k < 200; k++ {
					select {
					case <-stopQ:
						return
					default:
					}
					apiOp(rr, g, k)
				}
			}(g)
		}
		// what else is going on while Close runs
		switch r.Intn(5) {
		case 0:
			if sc := cl.ControlConn(); sc != nil {
				c.Add("control_loss_before_close", 1)
				time.Sleep(time.Duration(r.Intn(400)) * time.Microsecond)
				sc.Close()
				time.Sleep(time.Duration(r.Intn(500)) * time.Microsecond)
			}
		case 1:
			if sc := cl.ControlConn(); sc != nil {
				for k := 0; k < 5; k++ {
					sc.PushEvent(&cqlref.EventSpec{Kind: "STATUS_CHANGE", Change: "UP", IP: cl.Nodes[0].IP, Port: 9042})
					sc.PushEvent(&cqlref.EventSpec{Kind: "TOPOLOGY_CHANGE", Change: "NEW_NODE", IP: []byte{10, 9, 8, 7}, Port: 9042})
				}
			}
		case 2:
			go func() {
				gocql.VerifHandleNodeEvents(sess, []gocql.VerifNodeEvent{{Topology: true, Change: "NEW_NODE", Host: []byte{10, 9, 8, 7}, Port: 9042}})
			}()
		case 3:
			rr := rand.New(rand.NewSource(r.Int63()))
			dropSome(rr, 60)
		default:
			time.Sleep(time.Duration(r.Intn(2000)) * time.Microsecond)
		}
		close(stopQ)
		if r.Intn(2) == 0 {
			wg.Wait()
		}
	}
	// pool bound at (near-)quiescence, before closing
	if scenario != "close-race" {
		time.Sleep(5 * time.Millisecond)
		sm.sample()
		// a connection the node closed must disappear from its pool and be replaced: drop one and wait
		if nodes := cl.Snapshot(); len(nodes) > 0 {
			n := nodes[r.Intn(len(nodes))]
			var victim *fakenode.ServerConn
			for _, sc := range n.OpenConns() {
				if !sc.Control() {
					victim = sc
					break
				}
			}
			if victim != nil {
				if size >= 2 && r.Intn(2) == 0 {
					// the node also refuses the next connection attempt or two (it is busy for a moment): the replacement
					// fails once, the pool is short but not empty, and it is use that has to bring it back to size
					atomic.StoreInt32(&n.RefuseNext, int32(1+r.Intn(2)))
					c.Add("replacement_attempts_refused_once", 1)
				}
				victim.Close()
				// bounded progress, judged on what the driver does, not on the wall clock alone: it must either
				// restore the pool or still be dialling; only "pool under-full and no dial for 2 s while queries
				// keep coming" is a violation
				deadline := time.Now().Add(12 * time.Second)
				ok := false
				lastDials := atomic.LoadInt64(&cl.Dials)
				lastDialAt := time.Now()
				for time.Now().Before(deadline) {
					if n.DataConnsOpen() >= size {
						ok = true
						break
					}
					if d := atomic.LoadInt64(&cl.Dials); d != lastDials {
						lastDials, lastDialAt = d, time.Now()
					}
					if time.Since(lastDialAt) > 2*time.Second {
						break
					}
					// replacement is triggered by use
					sess.Query("LIST nudge").Exec()
					time.Sleep(2 * time.Millisecond)
				}
				c.Add("replacements_checked", 1)
				if !ok {
					poolAlive := false
					for _, p := range gocql.VerifPoolSnapshot(sess) {
						if p.Addr == n.IP.String() && !p.Closed {
							poolAlive = true
						}
					}
					if !poolAlive {
						// the driver convicted the node after failed refills (no UP event, no reconnect interval): nothing to replace
						c.Add("replacement_checks_node_convicted", 1)
					} else if time.Since(lastDialAt) > 2*time.Second {
						var dbg []string
						for _, p := range gocql.VerifPoolSnapshot(sess) {
							cc := 0
							for _, cn := range p.Conns {
								if cn.Closed() {
									cc++
								}
							}
							dbg = append(dbg, fmt.Sprintf("pool %s: %d conns (%d closed) filling=%v closed=%v", p.Addr, len(p.Conns), cc, p.Filling, p.Closed))
						}
						for _, nd := range cl.Snapshot() {
							dbg = append(dbg, fmt.Sprintf("node %s: %d data conns open of %d ever, down=%v", nd.IP, nd.DataConnsOpen(), len(nd.Conns()), nd.IsDown()))
						}
						wit["debug"] = dbg
						wit["goroutines"] = gocqlGoroutines()
						fail("closed-connection-not-replaced", fmt.Sprintf("a connection closed by node %s was not replaced: %d of %d connections open and the driver made no dial attempt for 2 s although queries kept coming", n.IP, n.DataConnsOpen(), size))
					} else {
						c.Inconclusive("replacement-slow", fmt.Sprintf("pool of %s not back to %d connections within 12 s but the driver is still dialling", n.IP, size))
					}
				}
			}
		}
	}
	// Close: once, twice, or concurrently
	var cwg sync.WaitGroup
	for k := 0; k < closers; k++ {
		cwg.Add(1)
		go func() {
			defer cwg.Done()
			c.Guard("Session.Close", sess.Close)
		}()
	}
	cwg.Wait()
	c.Guard("Session.Close(again)", sess.Close)
	c.Add("closes_checked", 1)
	wg.Wait()
	close(sm.stop)
	<-sm.done
	sm.mu.Lock()
	c.Add("pool_samples", sm.n)
	for addr, mx := range sm.max {
		if mx > size {
			fail("pool-over-capacity", fmt.Sprintf("the pool of %s held %d connections, the configured size is %d", addr, mx, size))
		}
	}
	sm.mu.Unlock()
	// after Close
	if err := sess.Query("LIST after").Exec(); !errors.Is(err, gocql.ErrSessionClosed) {
		fail("query-after-close", fmt.Sprintf("a query after Close returned %v, want ErrSessionClosed", err))
	}
	{
		openL, leaked := c17awaitClosed(c, cl)
		if len(openL) > 0 {
			wit["open_connections"] = openL
			wit["driver_goroutines_left"] = len(leaked)
			fail("connection-open-after-close", fmt.Sprintf("%d connections the driver dialled are still open 8 s after Session.Close returned", len(openL)))
		}
		if len(leaked) > 0 {
			tops := map[string]int{}
			for _, b := range leaked {
				tops[topFrameOf(b)]++
			}
			var ks []string
			for k := range tops {
				ks = append(ks, k)
			}
			sort.Strings(ks)
			w2 := map[string]interface{}{"scenario": key, "goroutines": leaked[:minInt(len(leaked), 6)]}
			c.Violation("C17:goroutine-leak:"+strings.Join(ks, "+"), fmt.Sprintf("%d goroutines are still running driver code 8 s after Session.Close returned (%v)", len(leaked), tops), w2)
		}
	}
	for k := range outcomes {
		c.SetAdd("outcomes", k)
	}
	c.Eval(runner.H("c17", key, ctl.Signature()), true)
	for k, v := range ctl.Hits() {
		if strings.HasPrefix(k, "fill") || strings.HasPrefix(k, "pool") || strings.HasPrefix(k, "rd.") || strings.HasPrefix(k, "sess.") || strings.HasPrefix(k, "ctl.") || strings.HasPrefix(k, "ed.") {
			c.Add("hook:"+k, v)
		}
	}
	if c.WantSample() {
		c.Sample(map[string]interface{}{"scenario": key, "outcomes": outcomes, "max_pool_sizes": sm.max})
	}
}

func minInt(a, b int) int {
	if a < b {
		return a
	}
	return b
}

// c17closeReconnect: the control connection is lost (the driver starts to reconnect and to refresh
// the ring) a moment before Session.Close; Close must return and leave nothing behind.
func c17closeReconnect(c *runner.Ctx, i int) {
	r := c.Rng
	cl := fakenode.NewCluster(1 + r.Intn(2))
	ctl := perturb.Install(c.Seed*7+int64(i), []int{0, 30}[r.Intn(2)], time.Millisecond, &c.Activity)
	defer perturb.Uninstall()
	if i%2 == 0 {
		ctl.Fixed["rd.stop.marked"] = time.Duration(200+r.Intn(1500)) * time.Microsecond
	}
	if i%3 == 0 {
		ctl.Fixed["rd.woke"] = time.Duration(100+r.Intn(800)) * time.Microsecond
	}
	cfg := newCfg(cl, 3+i%3)
	cfg.Timeout = 150 * time.Millisecond
	cfg.ConnectTimeout = 150 * time.Millisecond
	var sess *gocql.Session
	var err error
	c.Guard("CreateSession", func() { sess, err = cfg.CreateSession() })
	if err != nil {
		c.Inconclusive("c17-session", err.Error())
		return
	}
	mode := i % 5
	if mode == 4 {
		// several goroutines call Close at the same instant, on a handful of sessions
		sess.Close()
		for k := 0; k < 12; k++ {
			s2, err := cfg.CreateSession()
			if err != nil {
				c.Inconclusive("c17-session", err.Error())
				return
			}
			start := make(chan struct{})
			var ready, cwg sync.WaitGroup
			nc := 2 + r.Intn(7)
			for g := 0; g < nc; g++ {
				ready.Add(1)
				cwg.Add(1)
				go func() {
					defer cwg.Done()
					defer func() {
						if rec := recover(); rec != nil {
							c.Violation("C17:concurrent-close-panics", fmt.Sprintf("Session.Close panicked when called from %d goroutines at once: %v", nc, rec), map[string]interface{}{"closers": nc})
						}
					}()
					ready.Done()
					<-start
					c.Guard("Session.Close", s2.Close)
				}()
			}
			ready.Wait()
			close(start)
			cwg.Wait()
			if !s2.Closed() {
				c.Violation("C17:close-did-not-close", "Session.Closed() is false after concurrent Close calls returned", nil)
			}
			if err := s2.Query("LIST after").Exec(); !errors.Is(err, gocql.ErrSessionClosed) {
				c.Violation("C17:query-after-close", fmt.Sprintf("a query after Close returned %v, want ErrSessionClosed", err), nil)
			}
			c.Add("concurrent_closes", 1)
		}
		c.Add("closes_checked", 1)
		c.Eval(runner.H("concclose", i), true)
		return
	}
	switch mode {
	case 0, 1:
		if sc := cl.ControlConn(); sc != nil {
			sc.Close()
			c.Add("control_loss_before_close", 1)
		}
		time.Sleep(time.Duration(r.Intn(900)) * time.Microsecond)
	case 2:
		go func() { gocql.VerifRefreshRing(sess) }()
		time.Sleep(time.Duration(r.Intn(300)) * time.Microsecond)
	default:
		if sc := cl.ControlConn(); sc != nil {
			sc.PushEvent(&cqlref.EventSpec{Kind: "TOPOLOGY_CHANGE", Change: "NEW_NODE", IP: []byte{10, 9, 8, 7}, Port: 9042})
		}
	}
	c.Guard("Session.Close", sess.Close)
	c.Add("closes_checked", 1)
	c.Eval(runner.H("closereconnect", i, mode, ctl.Signature()), true)
	wit := map[string]interface{}{"mode": mode}
	{
		openL, leaked := c17awaitClosed(c, cl)
		if len(openL) > 0 {
			wit["open_connections"] = openL
			wit["driver_goroutines_left"] = len(leaked)
			c.Violation("C17:connection-open-after-close", fmt.Sprintf("%d connections the driver dialled are still open 8 s after Session.Close returned", len(openL)), wit)
		}
		if len(leaked) > 0 {
			tops := map[string]int{}
			for _, b := range leaked {
				tops[topFrameOf(b)]++
			}
			var ks []string
			for k := range tops {
				ks = append(ks, k)
			}
			sort.Strings(ks)
			c.Violation("C17:goroutine-leak:"+strings.Join(ks, "+"), fmt.Sprintf("%d goroutines are still running driver code 8 s after Session.Close returned (%v)", len(leaked), tops), map[string]interface{}{"mode": mode, "goroutines": leaked[:minInt(len(leaked), 4)]})
		}
	}
}

// c17refreshStorm: many goroutines ask for an immediate ring refresh at the same time (what control-connection
// reconnects and pool error handlers do), mixed with debounced requests; every request must be answered, and the
// session must still close.
func c17refreshStorm(c *runner.Ctx, i int) {
	r := c.Rng
	cl := fakenode.NewCluster(1 + r.Intn(3))
	ctl := perturb.Install(c.Seed*53+int64(i), []int{0, 30, 60}[r.Intn(3)], time.Millisecond, &c.Activity)
	defer perturb.Uninstall()
	_ = ctl
	cfg := newCfg(cl, 3+i%3)
	cfg.Timeout = 150 * time.Millisecond
	cfg.ConnectTimeout = 150 * time.Millisecond
	var sess *gocql.Session
	var err error
	c.Guard("CreateSession", func() { sess, err = cfg.CreateSession() })
	if err != nil {
		c.Inconclusive("c17-session", err.Error())
		return
	}
	ng := 2 + r.Intn(7)
	per := 150 + r.Intn(250)
	var wg sync.WaitGroup
	var asked int64
	for g := 0; g < ng; g++ {
		wg.Add(1)
		seed := r.Int63()
		go func(g int) {
			defer wg.Done()
			rr := rand.New(rand.NewSource(seed))
			for k := 0; k < per; k++ {
				c.Guard("refreshRing", func() { gocql.VerifRefreshRing(sess) })
				atomic.AddInt64(&asked, 1)
				if rr.Intn(8) == 0 {
					// a debounced request on the side (an UP event for an address the ring does not know)
					gocql.VerifHandleNodeEvents(sess, []gocql.VerifNodeEvent{{Change: "UP", Host: []byte{10, 9, 7, byte(1 + rr.Intn(200))}, Port: 9042}})
				}
				if rr.Intn(4) == 0 {
					runtime.Gosched()
				}
			}
		}(g)
	}
	wg.Wait()
	c.Add("refresh_storms", 1)
	c.Add("ring_refreshes_requested", atomic.LoadInt64(&asked))
	c.Eval(runner.H("c17refreshstorm", i, ng, per), true)
	c.Guard("Session.Close", sess.Close)
	c.Add("closes_checked", 1)
	openL, leaked := c17awaitClosed(c, cl)
	if len(openL) > 0 {
		c.Violation("C17:connection-open-after-close", fmt.Sprintf("%d connections the driver dialled are still open after Session.Close returned (after a refresh storm)", len(openL)), map[string]interface{}{"open_connections": openL})
	}
	if len(leaked) > 0 {
		tops := map[string]int{}
		for _, b := range leaked {
			tops[topFrameOf(b)]++
		}
		var ks []string
		for k := range tops {
			ks = append(ks, k)
		}
		sort.Strings(ks)
		c.Violation("C17:goroutine-leak:"+strings.Join(ks, "+"), fmt.Sprintf("%d goroutines are still running driver code after Session.Close returned (%v)", len(leaked), tops), map[string]interface{}{"goroutines": leaked[:minInt(len(leaked), 4)]})
	}
}

// c17debouncerStress drives the ring-refresh debouncer itself (through the hook that builds one with a chosen
// interval and a trivial refresh function): several goroutines ask for an immediate refresh and wait for its
// result, the way control-connection reconnects and pool error handlers do, while debounced requests with an
// interval of a few microseconds keep waking the flusher. Every request must be answered (a request that is never
// answered keeps its caller - in a session: the heartbeat goroutine, and with it Session.Close - waiting forever),
// no refresh may run after stop returned, and stop must return.
func c17debouncerStress(c *runner.Ctx, i int) {
	r := c.Rng
	var runs, afterStop int64
	var stopped int32
	interval := time.Duration(5+r.Intn(40)) * time.Microsecond
	work := time.Duration(r.Intn(30)) * time.Microsecond
	d := gocql.VerifNewRefreshDebouncer(interval, func() error {
		atomic.AddInt64(&runs, 1)
		if atomic.LoadInt32(&stopped) == 1 {
			atomic.AddInt64(&afterStop, 1)
		}
		if work > 0 {
			time.Sleep(work)
		}
		return nil
	})
	var asked int64
	if i%2 == 0 {
		// one requester at a time, each request racing a debounce timer that is about to fire: if the flusher's
		// wake-up for the timer swallows the wake-up token of the request, nothing else will ever wake it again
		rounds := 5000 + r.Intn(15000)
		for k := 0; k < rounds; k++ {
			d.Debounce()
			// land somewhere around the moment the timer fires
			spin := time.Duration(r.Int63n(int64(2*interval) + 1))
			for t0 := time.Now(); time.Since(t0) < spin; {
			}
			c.Guard("refreshNow", func() { d.RefreshNow() })
			atomic.AddInt64(&asked, 1)
		}
		c.Add("debouncer_single_requester_rounds", int64(rounds))
	} else {
		// several requesters at once (they can rescue each other; the last ones have nobody left to do so)
		ng := 2 + r.Intn(7)
		per := 2000 + r.Intn(6000)
		var wg sync.WaitGroup
		for g := 0; g < ng; g++ {
			wg.Add(1)
			go func(g int) {
				defer wg.Done()
				for k := 0; k < per; k++ {
					if (g+k)%64 == 0 {
						d.Debounce()
					}
					c.Guard("refreshNow", func() { d.RefreshNow() })
					atomic.AddInt64(&asked, 1)
				}
			}(g)
		}
		wg.Wait()
	}
	c.Guard("refreshDebouncer.stop", d.Stop)
	atomic.StoreInt32(&stopped, 1)
	time.Sleep(2 * time.Millisecond)
	c.Add("debouncer_refresh_requests", atomic.LoadInt64(&asked))
	c.Add("debouncer_refreshes_run", atomic.LoadInt64(&runs))
	c.Eval(runner.H("c17debouncer", i, interval, work), true)
	if n := atomic.LoadInt64(&afterStop); n > 0 {
		c.Violation(c.Prop+":refresh-after-stop", fmt.Sprintf("%d ring refreshes ran after the debouncer's stop had returned", n), nil)
	}
	if atomic.LoadInt64(&runs) == 0 {
		c.Violation(c.Prop+":refresh-never-ran", fmt.Sprintf("%d immediate refresh requests were answered but the refresh function never ran", atomic.LoadInt64(&asked)), nil)
	}
}

// c17nodeReturns: a node goes down (its pool is removed and closed) and comes back, noticed by several parts of the
// driver at the same moment (UP event, reconnect ticker, control-connection reconnect: all end in
// policyConnPool.addHost for a host that has no pool). However many triggers coincide, the host gets one pool of
// NumConns connections; when it goes down again, and at Close, none of its connections stays open.
func c17nodeReturns(c *runner.Ctx, i int) {
	r := c.Rng
	nn := 2 + r.Intn(2)
	cl := fakenode.NewCluster(nn)
	cfg := newCfg(cl, 3+i%3)
	cfg.NumConns = 1 + r.Intn(3)
	cfg.Timeout = 500 * time.Millisecond
	cfg.ConnectTimeout = 500 * time.Millisecond
	if r.Intn(2) == 0 {
		cfg.ReconnectInterval = time.Duration(1+r.Intn(3)) * time.Millisecond // the reconnect ticker is one more trigger
	}
	var sess *gocql.Session
	var err error
	c.Guard("CreateSession", func() { sess, err = cfg.CreateSession() })
	if err != nil {
		c.Inconclusive("c17-session", err.Error())
		return
	}
	waitFor := func(cond func() bool) bool {
		for w := 0; w < 1000; w++ {
			if cond() {
				return true
			}
			time.Sleep(5 * time.Millisecond)
		}
		return false
	}
	key := fmt.Sprintf("node-returns v%d nodes=%d size=%d ticker=%v", cfg.ProtoVersion, nn, cfg.NumConns, cfg.ReconnectInterval > 0)
	wit := map[string]interface{}{"scenario": key}
	rounds := 30
	settled := true
	for round := 0; round < rounds && settled; round++ {
		n := cl.Nodes[1+r.Intn(nn-1)]
		if !waitFor(func() bool { return n.DataConnsOpen() >= cfg.NumConns }) {
			settled = false
			break
		}
		// stable surplus: more connections than the pool may hold, seen ten times in a row over half a second (the
		// connections of the pool that was removed may take a moment to close)
		over := 0
		for k := 0; k < 10; k++ {
			if n.DataConnsOpen() <= cfg.NumConns {
				break
			}
			over++
			time.Sleep(50 * time.Millisecond)
		}
		if over == 10 {
			wit["round"] = round
			c.Violation("C17:more-connections-than-pool-size", fmt.Sprintf("node %s holds %d data connections of this session, NumConns is %d (after the node came back and %s)", n.IP, n.DataConnsOpen(), cfg.NumConns, "several triggers asked for its pool at once"), wit)
			break
		}
		gocql.VerifHandleNodeEvents(sess, []gocql.VerifNodeEvent{{Change: "DOWN", Host: n.IP, Port: 9042}})
		if cfg.ReconnectInterval == 0 {
			// nothing re-creates the pool on its own: every connection of the removed pool has to go
			if !waitFor(func() bool { return n.DataConnsOpen() == 0 }) {
				wit["round"] = round
				wit["open_connections"] = c17openConns(cl)
				c.Violation("C17:connection-open-after-pool-removed", fmt.Sprintf("%d connections to node %s are still open 5 s after the node was reported down and its pool removed and closed", n.DataConnsOpen(), n.IP), wit)
				break
			}
			c.Add("pool_removals_checked", 1)
		}
		triggers := 2 + r.Intn(6)
		var ready, start int32
		var wg sync.WaitGroup
		for k := 0; k < triggers; k++ {
			wg.Add(1)
			go func() {
				defer wg.Done()
				atomic.AddInt32(&ready, 1)
				for atomic.LoadInt32(&start) == 0 {
				}
				c.Guard("handleNodeUp", func() {
					gocql.VerifHandleNodeEvents(sess, []gocql.VerifNodeEvent{{Change: "UP", Host: n.IP, Port: 9042}})
				})
			}()
		}
		for atomic.LoadInt32(&ready) < int32(triggers) {
			runtime.Gosched()
		}
		atomic.StoreInt32(&start, 1)
		wg.Wait()
		c.Add("coinciding_up_triggers", int64(triggers))
		c.Add("node_return_rounds", 1)
	}
	if !settled {
		c.Inconclusive("c17-node-returns", "a pool did not fill within 5 s")
	}
	c.Eval(runner.H("c17nodereturns", i, nn, cfg.NumConns, cfg.ReconnectInterval), true)
	time.Sleep(5 * time.Millisecond)
	c.Guard("Session.Close", sess.Close)
	c.Add("closes_checked", 1)
	openL, leaked := c17awaitClosed(c, cl)
	if len(openL) > 0 {
		wit["open_connections"] = openL
		c.Violation("C17:connection-open-after-close", fmt.Sprintf("%d connections the driver dialled are still open after Session.Close returned (after nodes went down and came back)", len(openL)), wit)
	}
	if len(leaked) > 0 {
		tops := map[string]int{}
		for _, b := range leaked {
			tops[topFrameOf(b)]++
		}
		var ks []string
		for k := range tops {
			ks = append(ks, k)
		}
		sort.Strings(ks)
		c.Violation("C17:goroutine-leak:"+strings.Join(ks, "+"), fmt.Sprintf("%d goroutines are still running driver code after Session.Close returned (%v)", len(leaked), tops), map[string]interface{}{"scenario": key, "goroutines": leaked[:minInt(len(leaked), 4)]})
	}
}
