package props

import (
	"fmt"
	"strings"
	"sync"
	"time"

	"github.com/gocql/gocql"

	"verifharness/cqlref"
	"verifharness/fakenode"
	"verifharness/runner"
)

// C06: every request ends exactly once; closing never hangs; streams are never leaked.

func init() {
	runner.Register(&runner.Prop{
		ID: "C06", Level: "fault_enumeration",
		Technique: "runtime monitors over real sessions against a scripted in-memory node: every submitted call must return (hang detector = stable blocked goroutine dumps with zero I/O and hook activity), exactly one StreamObserver end per start, stream conservation against the node's own outstanding table at stable quiescence, Session.Close returns and leaves nothing open; connection faults enumerated over handshake steps and write offsets; perturbation; race detector",
		Rule: "case = one scenario of the echo workload (callers, answer order, late / never answered requests, cancellations, frame-build failures, stream exhaustion on protocol 2, write cut at an offset, node-side close mid-frame, Session.Close racing the callers) or one handshake fault (connection index x handshake step x {drop, half reply then drop, no reply}); " +
			"distinct = hash(scenario parameters, schedule signature); non-trivial = a fault, a closer, never-answered requests or frame-build failures were part of the scenario",
		Assumptions: []string{
			"liveness is restated as bounded progress: all driver timeouts are <= 200 ms in these scenarios; a hang verdict needs two identical goroutine dumps 8 s apart with no harness I/O or hook hit in between; anything less is inconclusive",
			"conservation is compared with the node's own table of unanswered requests (which includes heartbeats) and must be stable over 5 samples 20 ms apart",
			"outcome kinds are recorded, not asserted, except: nil error carries the caller's own token; a connection-class error requires a connection that was faulted or closed in that scenario",
		},
		RaceOwner: connRaceOwner,
		Phases: func(tier string) []runner.Phase {
			n, h, e := 200, 72, 400
			if tier == "thorough" {
				n, h, e = 4000, 720, 8000
			}
			return []runner.Phase{
				{Name: "close-at-wake", Variant: "race", Cases: n / 10, Run: closeAtWake, CaseTimeout: 60 * time.Second, Required: []string{"close_at_wake_cases", "close_reached_stop_while_parked"}},
				{Name: "debouncer-stress", Variant: "race", Cases: n / 10, Run: c17debouncerStress, CaseTimeout: 60 * time.Second, Required: []string{"debouncer_refresh_requests", "debouncer_refreshes_run", "debouncer_single_requester_rounds"}},
				{Name: "handshake-faults", Variant: "race", Cases: h, Run: c06handshake, CaseTimeout: 40 * time.Second, Required: []string{"handshake_faults"}},
				{Name: "write-offsets", Variant: "plain", Cases: e, Run: c06offsets, CaseTimeout: 40 * time.Second, Required: []string{"cuts_injected"}},
				{Name: "near-full", Variant: "plain", Cases: n / 20, Shards: 4, Run: c06nearfull, CaseTimeout: 120 * time.Second, Required: []string{"nearfull_build_failures"}},
				{Name: "scenarios", Variant: "race", Cases: n, Run: c06case, CaseTimeout: 60 * time.Second, Required: []string{"closer_scenarios", "never_answered", "frame_build_failures", "no_streams_outcomes", "conservation_checks", "stream_starts", "timeout_limit_scenarios", "undecodable_late_answers", "answers_of_another_protocol_version"}},
			}
		},
	})
}

func c06report(c *runner.Ctx, ec *echoCfg, res *echoResult) {
	wit := map[string]interface{}{"scenario": echoKey(ec), "outcomes": res.outcomes, "seed": ec.seed, "closer_after": ec.closeSessionAfter, "cut_at": ec.writeCutAt, "timeout_limit": ec.timeoutLimit}
	for k, n := range res.outcomes {
		c.SetAdd("outcomes", k)
		if strings.HasPrefix(k, "other:") {
			c.Inconclusive("unclassified-outcome", fmt.Sprintf("%d calls ended with an error the harness cannot classify: %s", n, k))
		}
	}
	for k, n := range res.outcomes {
		if strings.Contains(k, "stream already in use") {
			c.Violation("C06:stream-handed-out-twice", fmt.Sprintf("%d calls were refused with %q: a stream id was given to a request while another request still held it", n, k), wit)
		}
	}
	c.Add("no_streams_outcomes", int64(res.outcomes["no-streams"]))
	c.Add("frame_build_failures", int64(res.outcomes["marshal-error"]))
	c.Add("never_answered", res.never)
	c.Add("undecodable_late_answers", res.undecodable)
	c.Add("answers_of_another_protocol_version", res.wrongVersion)
	c.Add("stream_starts", res.streamObs.started)
	c.Add("cuts_injected", int64(res.cutsInjected))
	for _, m := range res.mismatches {
		c.Violation(fmt.Sprintf("C06:wrong-response:v%d", ec.version), "a call that ended without error does not carry its own response: "+m, wit)
	}
	faulted := ec.writeCutAt >= 0 || ec.nodeCloseAfter >= 0 || ec.closeSessionAfter >= 0 || ec.stallAt > 0
	// ("no connection available" is a legitimate immediate refusal when every stream id of the only connection is taken)
	// The driver may also close a connection on its own (six failed heartbeats, TimeoutLimit), which depends on
	// timing and load; what can be decided is that a connection-closed outcome needs a connection that was closed.
	if !faulted && res.outcomes["conn-closed"] > 0 {
		c.Add("conn_closed_outcomes_without_scripted_fault", int64(res.outcomes["conn-closed"]))
		if res.connsClosedBeforeClose == 0 {
			c.Violation("C06:unexplained-connection-error", fmt.Sprintf("%d calls ended with a connection-closed class error although no connection was closed by either side before Session.Close", res.outcomes["conn-closed"]), wit)
		}
	}
	if !res.closeReturned {
		c.Violation("C06:close-did-not-return", "Session.Close did not return", wit)
	}
	so := res.streamObs
	so.mu.Lock()
	if len(so.doubleEnd) > 0 {
		c.Violation("C06:stream-ended-twice", fmt.Sprintf("a started stream was reported finished/abandoned more than once (%v)", so.doubleEnd), wit)
	}
	if so.endNoStart > 0 {
		c.Violation("C06:stream-end-without-start", fmt.Sprintf("%d stream ends without a start", so.endNoStart), wit)
	}
	open := len(so.open)
	so.mu.Unlock()
	if open > 0 && res.closeReturned {
		// StreamObserver's own contract (one end per start) is stricter than C06: a request whose response
		// body was being read when the connection died gets no end notification. Recorded, not alarmed.
		time.Sleep(5 * time.Millisecond)
		so.mu.Lock()
		open = len(so.open)
		so.mu.Unlock()
		c.Add("observer_streams_without_end_after_connection_loss", int64(open))
	}
	for _, s := range echoDesync(res) {
		c.Violation("C06:response-stream-out-of-step", s, wit)
	}
	for _, s := range res.recvStalls {
		c.Violation("C06:receive-loop-stalled", "responses the node sent are never read, so their requests cannot end with them: "+s, wit)
	}
	if ec.closeSessionAfter < 0 {
		c.Add("conservation_checks", 1)
		for _, s := range res.conservation {
			c.Violation("C06:stream-leak", "stream accounting does not balance at a stable quiescent point: "+s, wit)
		}
	}
	for _, s := range res.afterClose {
		c.Violation("C06:after-close", s, wit)
	}
}

func c06cfg(c *runner.Ctx, i int) *echoCfg {
	ec := c01cfg(c, i)
	r := c.Rng
	ec.pBadValue = []int{0, 0, 3, 10}[r.Intn(4)]
	if ec.pNever == 0 && r.Intn(2) == 0 {
		ec.pNever = 3
	}
	if ec.timeout > 40*time.Millisecond {
		ec.timeout = 40 * time.Millisecond
	}
	if i%8 == 4 {
		// the (deprecated but honoured) package-level TimeoutLimit: after that many timeouts the driver closes the
		// connection from the goroutine of the request that timed out
		ec.timeoutLimit = int64(1 + r.Intn(6))
		if ec.pNever < 10 {
			ec.pNever = 10 + r.Intn(30)
		}
		c.Add("timeout_limit_scenarios", 1)
	}
	if i%16 == 8 {
		// answers whose header names another protocol version: a protocol error for the caller, and the id comes back
		ec.pWrongVersion = 5 + r.Intn(20)
		ec.writeCutAt, ec.nodeCloseAfter, ec.closeSessionAfter, ec.stallAt = -1, -1, -1, 0
		c.Add("wrong_version_answer_scenarios", 1)
	}
	if i%16 == 0 {
		// late answers that cannot be decoded (compression flag without negotiated compression): their callers have
		// gone, the connection lives on, the ids come back
		ec.lateUndecodable = true
		if ec.pLate < 10 {
			ec.pLate = 10 + r.Intn(20)
		}
		ec.writeCutAt, ec.nodeCloseAfter, ec.closeSessionAfter, ec.stallAt = -1, -1, -1, 0
		c.Add("undecodable_late_answer_scenarios", 1)
	}
	switch i % 4 {
	case 1:
		// Session.Close races the callers
		ec.closeSessionAfter = r.Intn(ec.callers*ec.perCaller/2 + 1)
		c.Add("closer_scenarios", 1)
	case 3:
		// many frame-build failures next to successful requests on a small id space:
		// a freed id is handed out again at once
		ec.version = 3 + r.Intn(3)
		ec.callers = 64
		ec.perCaller = 60
		ec.pBadValue = 40
		ec.pNever, ec.pLate, ec.window = 0, 0, 0
		ec.writeCutAt, ec.nodeCloseAfter, ec.closeSessionAfter = -1, -1, -1
		ec.reusePhase = 50
	case 2:
		// protocol 2, more callers than stream ids, nobody answers for a while
		ec.version = 2
		ec.callers = 200
		ec.perCaller = 6
		ec.pNever = 30
		ec.window = 0
	}
	return ec
}

func c06case(c *runner.Ctx, i int) {
	ec := c06cfg(c, i)
	res := runEcho(c, ec)
	if res == nil {
		return
	}
	c.Eval(runner.H("c06", echoKey(ec), ec.closeSessionAfter >= 0, ec.pBadValue, res.signature), ec.writeCutAt >= 0 || ec.nodeCloseAfter >= 0 || ec.closeSessionAfter >= 0 || ec.pNever > 0 || ec.pBadValue > 0)
	c06report(c, ec, res)
	if c.WantSample() {
		c.Sample(map[string]interface{}{"scenario": echoKey(ec), "closer_after": ec.closeSessionAfter, "outcomes": res.outcomes, "stream_starts": res.streamObs.started, "stream_finished": res.streamObs.finished, "stream_abandoned": res.streamObs.aband})
	}
}

// c06offsets: the write is cut at every offset of the first request frames (shares C07's enumeration).
func c06offsets(c *runner.Ctx, i int) {
	r := c.Rng
	version := []int{4, 2, 3, 5, 1}[i%5]
	ec := &echoCfg{version: version, numConns: 1, writeCutAt: -1, nodeCloseAfter: -1, closeSessionAfter: -1, seed: c.Seed*7 + int64(i)}
	ec.callers = 4
	ec.perCaller = 4
	ec.padTokens = true
	ec.timeout = 100 * time.Millisecond
	ec.pNever = []int{0, 20}[r.Intn(2)]
	if (i/5)%2 == 1 {
		ec.coalesce = 2 * time.Millisecond
	}
	hs, ok := handshakeSize(c, ec)
	if !ok {
		return
	}
	ec.writeCutAt = hs + int64((i/10)%400)
	res := runEcho(c, ec)
	if res == nil {
		return
	}
	c.Eval(runner.H("c06off", version, ec.coalesce, ec.writeCutAt, res.signature), true)
	c06report(c, ec, res)
}

// c06handshake: the connection dies at each step of the handshake, on the control connection
// or on a data connection; session creation and Close must return, nothing may hang or leak.
func c06handshake(c *runner.Ctx, i int) {
	steps := []byte{cqlref.OpOptions, cqlref.OpStartup, cqlref.OpAuthResponse, cqlref.OpRegister}
	modes := []string{"drop", "half", "silent"}
	connIdx := i % 3
	step := steps[(i/3)%4]
	mode := modes[(i/12)%3]
	version := []int{4, 3, 2, 5}[(i/36)%4]
	cl := fakenode.NewCluster(1)
	n := cl.Nodes[0]
	n.AuthClass = "org.apache.cassandra.auth.PasswordAuthenticator"
	n.AuthSteps = 0
	var fired int32
	var mu sync.Mutex
	n.OnHandshake = func(sc *fakenode.ServerConn, op byte) bool {
		if sc.Index != connIdx || op != step {
			return false
		}
		mu.Lock()
		fired++
		mu.Unlock()
		switch mode {
		case "drop":
			sc.Close()
		case "half":
			f, _ := cqlref.BuildFrame(sc.Version, 1, cqlref.OpSupported, nil, cqlref.BodySupported(n.Supported), nil)
			sc.WriteRaw(f[:len(f)/2])
			sc.Close()
		case "silent":
			// never answer: the driver's connect timeout has to end it
		}
		return true
	}
	cfg := newCfg(cl, version)
	cfg.Authenticator = gocql.PasswordAuthenticator{Username: "u", Password: "p"}
	cfg.ConnectTimeout = 120 * time.Millisecond
	cfg.Timeout = 120 * time.Millisecond
	obs := &streamObs{open: map[*streamCtx]bool{}}
	cfg.StreamObserver = obs
	c.Add("handshake_faults", 1)
	var sess *gocql.Session
	var err error
	c.Guard("CreateSession", func() { sess, err = cfg.CreateSession() })
	key := fmt.Sprintf("conn%d/op%#x/%s/v%d", connIdx, step, mode, version)
	c.Eval(runner.H("hs", key), true)
	c.SetAdd("handshake_cases", key)
	wit := map[string]interface{}{"case": key}
	if err == nil {
		for k := 0; k < 5; k++ {
			c.Guard("Query.Exec", func() { sess.Query("LIST x").Exec() })
		}
		c.Guard("Session.Close", sess.Close)
		c.SetAdd("handshake_results", "session-created")
	} else {
		c.SetAdd("handshake_results", "create-failed")
	}
	// everything the driver dialled must end up closed
	deadline := time.Now().Add(3 * time.Second)
	for {
		open := 0
		for _, sc := range cl.AllConns() {
			if !sc.Driver.Closed() {
				open++
			}
		}
		if open == 0 {
			break
		}
		if time.Now().After(deadline) {
			c.Violation("C06:handshake:connection-left-open", fmt.Sprintf("%d connections are still open 3 s after the session was closed / failed to start (%s)", open, key), wit)
			break
		}
		time.Sleep(2 * time.Millisecond)
	}
	obs.mu.Lock()
	if len(obs.doubleEnd) > 0 {
		c.Violation("C06:stream-ended-twice", "a stream was ended twice during a failed handshake", wit)
	}
	obs.mu.Unlock()
	if c.WantSample() {
		c.Sample(map[string]interface{}{"handshake_case": key, "create_error": fmt.Sprint(err), "fault_fired": fired})
	}
}

// c06nearfull: almost every stream id of the connection is parked at the node; on the few ids
// left, requests that fail while their frame is built (after an id was taken) alternate with
// normal requests, so a freed id is handed out again immediately.
func c06nearfull(c *runner.Ctx, i int) {
	version := 3 + i%3
	capacity := 32767
	cl := fakenode.NewCluster(1)
	var mu sync.Mutex
	var parked []*fakenode.Req
	cl.Nodes[0].Handler = func(sc *fakenode.ServerConn, req *fakenode.Req) {
		switch {
		case req.Header.Op == cqlref.OpPrepare:
			ps := &cqlref.PreparedSpec{ID: []byte("bad"), Bind: cqlref.Metadata{Global: true, ColCount: 1, Columns: []cqlref.Column{{Keyspace: "e", Table: "e", Name: "x", Type: &cqlref.Type{ID: cqlref.TInt}}}}}
			sc.Reply(req, cqlref.OpResult, nil, cqlref.BodyPrepared(sc.Version, ps))
		case strings.HasPrefix(req.Statement, "PARK"):
			mu.Lock()
			parked = append(parked, req)
			mu.Unlock()
		default:
			sc.ReplyVoid(req)
		}
	}
	cfg := newCfg(cl, version)
	cfg.Timeout = 100 * time.Second
	cfg.PageSize = 0
	sess, err := cfg.CreateSession()
	if err != nil {
		c.Inconclusive("nearfull-session", err.Error())
		return
	}
	free := 4 + i%5
	n := capacity - free
	var wg sync.WaitGroup
	for k := 0; k < n; k++ {
		wg.Add(1)
		go func(k int) {
			defer wg.Done()
			sess.Query(fmt.Sprintf("PARK %d", k)).Exec()
		}(k)
	}
	deadline := time.Now().Add(60 * time.Second)
	for {
		mu.Lock()
		have := len(parked)
		mu.Unlock()
		if have >= n || time.Now().After(deadline) {
			break
		}
		time.Sleep(5 * time.Millisecond)
	}
	outcomes := map[string]int{}
	var omu sync.Mutex
	var wg2 sync.WaitGroup
	for g := 0; g < 8; g++ {
		wg2.Add(1)
		go func(g int) {
			defer wg2.Done()
			for k := 0; k < 400; k++ {
				var err error
				if (g+k)%2 == 0 {
					b := sess.NewBatch(gocql.UnloggedBatch)
					b.Query("INSERT BAD ?", gocql.NamedValue("x", 1))
					c.Guard("ExecuteBatch", func() { err = sess.ExecuteBatch(b) })
					if err != nil && strings.Contains(err.Error(), "named query values are not supported in batches") {
						omu.Lock()
						outcomes["frame-build-failure"]++
						omu.Unlock()
						continue
					}
				} else {
					c.Guard("Query.Exec", func() { err = sess.Query("LIST x").Exec() })
				}
				omu.Lock()
				outcomes[classifyErr(err)]++
				omu.Unlock()
			}
		}(g)
	}
	wg2.Wait()
	mu.Lock()
	l := append([]*fakenode.Req{}, parked...)
	mu.Unlock()
	for _, rq := range l {
		rq.Conn.ReplyVoid(rq)
	}
	c.Guard("parked callers", wg.Wait)
	c.Add("nearfull_build_failures", int64(outcomes["frame-build-failure"]))
	c.Eval(runner.H("nearfull", version, free), true)
	wit := map[string]interface{}{"version": version, "free_ids": free, "outcomes": outcomes}
	for k, cnt := range outcomes {
		c.SetAdd("outcomes", k)
		if strings.Contains(k, "stream already in use") {
			c.Violation("C06:stream-handed-out-twice", fmt.Sprintf("%d calls were refused with %q: a stream id was given to a request while another request still held it", cnt, k), wit)
		}
	}
	for _, s := range echoConservation(sess, cl) {
		c.Violation("C06:stream-leak", "stream accounting does not balance at a stable quiescent point: "+s, wit)
	}
	c.Guard("Session.Close", sess.Close)
	if c.WantSample() {
		c.Sample(map[string]interface{}{"near_full": wit})
	}
}
