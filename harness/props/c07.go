package props

import (
	"strings"
	"time"

	"verifharness/runner"
)

// C07: frames are written whole; concurrent requests never interleave bytes on the wire.

func init() {
	runner.Register(&runner.Prop{
		ID: "C07", Level: "fault_enumeration",
		Technique: "offline check of the recorded byte stream of every connection with an independent frame splitter/decoder; write faults injected by the in-memory transport at enumerated byte offsets (short write / error / stall until the deadline); race detector",
		Rule: "case = one scenario: 2..64 concurrent writers, small and large (up to ~40 KB) frames mixed, direct writer or coalescer with window in {50us,200us,2ms}, cancellations before/after enqueue, and a write cut at an enumerated byte offset of the request stream (phase cut-enum walks every offset of the first frames after the handshake, phase mixed draws offsets); " +
			"distinct = hash(scenario, cut offset, schedule signature); non-trivial = the scenario injected a cut, or had more than one concurrent writer",
		Assumptions: []string{
			"memnet's own counter of bytes accepted after it returned a short write is exact (no parsing involved)",
			"a trailing partial frame is tolerated only if the driver closes that connection within 2 s",
		},
		RaceOwner: func(fns []string) bool {
			for _, f := range fns {
				if strings.Contains(f, "writeCoalescer") || strings.Contains(f, "deadlineContextWriter") || strings.Contains(f, "writeContext") {
					return true
				}
			}
			return false
		},
		Phases: func(tier string) []runner.Phase {
			n, m := 160, 7000
			if tier == "thorough" {
				n, m = 3000, 70000
			}
			return []runner.Phase{
				{Name: "cut-enum", Variant: "plain", Cases: m, Run: c07enum, CaseTimeout: 120 * time.Second, Required: []string{"cuts_injected", "frames_checked"}},
				{Name: "queued-cancel", Variant: "race", Cases: n / 10, Run: c07queuedCancel, CaseTimeout: 120 * time.Second, Required: []string{"queued_cancel_cases", "requests_cancelled_while_queued"}},
				{Name: "tcp", Variant: "race", Cases: n / 2, Run: c07tcp, CaseTimeout: 180 * time.Second, Required: []string{"tcp_scenarios", "tcp_slow_reader_scenarios", "tcp_frames_checked", "tcp_failed_writes"}},
				{Name: "mixed", Variant: "race", Cases: n, Run: c07mixed, CaseTimeout: 180 * time.Second, Required: []string{"cuts_injected", "frames_checked", "coalesced_scenarios", "direct_scenarios", "stall_scenarios", "repeated_stall_scenarios", "huge_frame_scenarios", "flood_scenarios"}},
			}
		},
	})
}

func c07report(c *runner.Ctx, ec *echoCfg, res *echoResult) {
	kind := "direct"
	if ec.coalesce > 0 {
		kind = "coalesced"
		c.Add("coalesced_scenarios", 1)
	} else {
		c.Add("direct_scenarios", 1)
	}
	c.Add("cuts_injected", int64(res.cutsInjected))
	c.Add("frames_checked", res.wireFrames)
	c.Add("bytes_checked", res.wireBytes)
	c.Add("partial_tails_seen", int64(res.partialTails))
	for k := range res.outcomes {
		c.SetAdd("outcomes", k)
	}
	wit := map[string]interface{}{"scenario": echoKey(ec), "cut_at": ec.writeCutAt, "stall_at": ec.stallAt, "write_timeout": ec.writeTimeout.String(), "outcomes": res.outcomes, "seed": ec.seed}
	for _, p := range res.wireProblems {
		key := p.key
		if strings.HasPrefix(key, "C07:bytes-after-short-write") {
			key += ":" + kind
		}
		c.Violation(key, p.what, wit)
	}
	for _, d := range res.dupTokens {
		c.Violation("C07:frame-twice", d, wit)
	}
}

// handshake bytes on a data connection for the plain configuration used here:
// OPTIONS (header only) + STARTUP. Measured, not assumed: c07enum learns it from a dry run.
var c07handshake = map[int]int64{}

func c07enum(c *runner.Ctx, i int) {
	r := c.Rng
	version := []int{4, 2, 3, 5, 1}[i%5]
	ec := &echoCfg{version: version, numConns: 1, writeCutAt: -1, nodeCloseAfter: -1, closeSessionAfter: -1, seed: c.Seed*7 + int64(i)}
	ec.callers = 4
	ec.perCaller = 3
	ec.padTokens = true
	ec.timeout = 150 * time.Millisecond
	if (i/5)%2 == 1 {
		ec.coalesce = 2 * time.Millisecond // the four first frames leave in one flush
	}
	ec.intensity = []int{0, 20}[r.Intn(2)]
	hs, ok := handshakeSize(c, ec)
	if !ok {
		return
	}
	// walk the offsets of the first ~4 frames (each ~40 bytes): offset index from the case number
	k := int64((i / 10) % 700)
	ec.writeCutAt = hs + k
	res := runEcho(c, ec)
	if res == nil {
		return
	}
	c.Eval(runner.H("enum", version, ec.coalesce, k, res.signature), true)
	c07report(c, ec, res)
	if c.WantSample() {
		c.Sample(map[string]interface{}{"scenario": echoKey(ec), "cut_at_offset_after_handshake": k, "outcomes": res.outcomes, "frames_on_wire": res.wireFrames})
	}
}

func c07mixed(c *runner.Ctx, i int) {
	r := c.Rng
	ec := &echoCfg{version: 1 + i%5, numConns: 1 + r.Intn(2), writeCutAt: -1, nodeCloseAfter: -1, closeSessionAfter: -1, seed: c.Seed*13 + int64(i)}
	ec.callers = []int{2, 4, 16, 64}[r.Intn(4)]
	ec.perCaller = 300/ec.callers + 2
	ec.timeout = 60 * time.Millisecond
	ec.coalesce = []time.Duration{0, 0, 50 * time.Microsecond, 200 * time.Microsecond, 2 * time.Millisecond}[r.Intn(5)]
	ec.bigFrames = false
	ec.padTokens = r.Intn(2) == 0
	if r.Intn(3) == 0 {
		ec.hugeFrames = true
		ec.perCaller = 100/ec.callers + 2
		c.Add("huge_frame_scenarios", 1)
	}
	ec.pPreCancel = []int{0, 5}[r.Intn(2)]
	ec.pCancel = []int{0, 10, 30}[r.Intn(3)]
	ec.pLate = []int{0, 5}[r.Intn(2)]
	ec.intensity = []int{0, 20, 50}[r.Intn(3)]
	ec.pErrFrame = 10
	switch r.Intn(8) {
	case 0, 1:
	case 2, 3:
		// the peer stops reading at an offset: the write blocks until the write deadline, which leaves a torn
		// frame and a *timeout* error (a net.Error that calls itself temporary)
		ec.stallAt = int64(100 + r.Intn(12000))
		ec.writeTimeout = time.Duration(5+r.Intn(30)) * time.Millisecond
		if r.Intn(2) == 0 {
			// the peer stalls again a little further on (inside the same frame, if it is a large one)
			ec.stallMore = []int64{ec.stallAt + int64(200+r.Intn(30000))}
			if r.Intn(2) == 0 {
				ec.stallMore = append(ec.stallMore, ec.stallMore[0]+int64(200+r.Intn(30000)))
			}
			c.Add("repeated_stall_scenarios", 1)
		}
		c.Add("stall_scenarios", 1)
	default:
		ec.writeCutAt = int64(100 + r.Intn(12000))
	}
	if i%40 == 7 {
		// a flood: well over a thousand requests land in one coalescing window, and the write is cut inside it
		ec.callers, ec.perCaller = 1300+r.Intn(700), 1
		ec.coalesce = 20 * time.Millisecond
		ec.timeout = 2 * time.Second
		ec.hugeFrames, ec.padTokens = false, false
		ec.pPreCancel, ec.pCancel, ec.pLate = 0, 0, 0
		ec.numConns = 1
		ec.writeCutAt, ec.stallAt, ec.writeTimeout = int64(2000+r.Intn(20000)), 0, 0
		c.Add("flood_scenarios", 1)
	}
	res := runEcho(c, ec)
	if res == nil {
		return
	}
	c.Eval(runner.H("mixed", echoKey(ec), ec.writeCutAt, ec.stallAt, res.signature), ec.callers > 1 || ec.writeCutAt >= 0 || ec.stallAt > 0)
	c07report(c, ec, res)
	if c.WantSample() {
		c.Sample(map[string]interface{}{"scenario": echoKey(ec), "cut_at": ec.writeCutAt, "outcomes": res.outcomes, "frames_on_wire": res.wireFrames, "bytes_on_wire": res.wireBytes})
	}
}

// handshakeSize measures (by a dry run, once per version and worker) how many bytes the
// driver writes on a data connection before the first request frame.
func handshakeSize(c *runner.Ctx, ec *echoCfg) (int64, bool) {
	if hs, ok := c07handshake[ec.version]; ok {
		return hs, true
	}
	dry := *ec
	dry.callers, dry.perCaller, dry.writeCutAt, dry.padTokens, dry.pNever, dry.pLate = 1, 1, -1, false, 0, 0
	res := runEcho(c, &dry)
	if res == nil || len(res.dataConns) == 0 {
		return 0, false
	}
	w, _, _, _ := res.dataConns[0].Driver.Snapshot()
	idx := strings.Index(string(w), "ECHO ")
	if idx < 0 {
		c.Broken("handshakeSize: dry run has no ECHO frame")
		return 0, false
	}
	hdr := 9 + 4 // header + [long string] length
	if ec.version < 3 {
		hdr = 8 + 4
	}
	hs := int64(idx - hdr)
	c07handshake[ec.version] = hs
	return hs, true
}
