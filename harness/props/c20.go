package props

import (
	"bytes"
	"context"
	"crypto/ecdsa"
	"crypto/elliptic"
	crand "crypto/rand"
	"crypto/tls"
	"crypto/x509"
	"crypto/x509/pkix"
	"encoding/pem"
	"fmt"
	"io"
	"math/big"
	"net"
	"os"
	"path/filepath"
	"strings"
	"sync"
	"time"

	"github.com/gocql/gocql"

	"verifharness/cqlref"
	"verifharness/fakenode"
	"verifharness/memnet"
	"verifharness/runner"
)

// C20: TLS verification and credential disclosure are exactly as documented.

func init() {
	runner.Register(&runner.Prop{
		ID: "C20", Level: "exploration",
		Technique: "runtime monitor on real handshakes: sessions are created through an in-process TLS terminator that presents right / wrong-name / untrusted / server-name-only certificates (optionally demanding a client certificate) in front of a scripted node, for the full cross product of the documented SslOptions table; the outcome of every handshake and of session creation is compared with the table, the caller's tls.Config is compared before/after; a scripted node advertising arbitrary authenticator classes records every AUTH_RESPONSE and every byte it receives",
		Rule: "tls case = one point of {Config nil / InsecureSkipVerify false / true} x EnableHostVerification x ServerName {unset, set} x host form {IPv4 two nodes, IPv6, name} x trust {RootCAs, CaPath, none} x server certificate {own identity, other name, untrusted CA, server-name only, swapped between nodes} x client certificate {none, configured+required, configured, required but none}; bad-file case = one unreadable / unparsable CA or key-pair variant x table row; auth case = authenticator class variant x allowed-list setting x credentials x {PasswordAuthenticator, AuthProvider, none} x protocol 2-5; " +
			"distinct = hash of the case tuple; non-trivial = verification expected on (tls), class demanded (auth)",
		Assumptions: []string{
			"crypto/tls and crypto/x509 of the Go toolchain decide certificate validity; certificates are generated per process (ECDSA P-256)",
			"the built-in approved authenticator list is pinned in the harness as of the checked commit",
		},
		Phases: func(tier string) []runner.Phase {
			na := 1400
			if tier == "thorough" {
				na = 30000
			}
			return []runner.Phase{
				{Name: "tls-table", Variant: "race", Cases: c20tlsCases(), Run: c20tlsCase, CaseTimeout: 120 * time.Second,
					Required: []string{"tls_sessions", "verify_expected", "no_verify_expected", "handshakes_completed", "handshakes_rejected_by_client", "caller_config_compared", "per_node_names", "client_cert_presented", "two_contact_points", "ssl_options_reused_after_change", "caller_rootcas_plus_ca_path", "contact_points_given_by_name_verified"}},
				{Name: "bad-files", Variant: "race", Cases: 6 * len(c20badFiles), Run: c20badFileCase, CaseTimeout: 120 * time.Second,
					Required: []string{"bad_file_cases"}},
				{Name: "auth-per-host", Variant: "race", Cases: 36, Run: c20perHostAuth, CaseTimeout: 120 * time.Second, Required: []string{"per_host_auth_sessions", "tokens_checked"}},
				{Name: "auth", Variant: "race", Cases: na, Run: c20authCase, CaseTimeout: 120 * time.Second,
					Required: []string{"auth_sessions", "approved_class", "unapproved_class", "no_authenticator_configured", "no_authenticator_vs_known_class", "auth_not_demanded", "tokens_checked"}},
			}
		},
	})
}

// ---- PKI ----------------------------------------------------------------------------------

type c20ca struct {
	cert *x509.Certificate
	key  *ecdsa.PrivateKey
	pem  []byte
}

type c20pki struct {
	dir               string
	ca1, ca2          *c20ca
	ca1File           string
	ca2File           string
	clientCertFile    string
	clientKeyFile     string
	otherKeyFile      string
	serial            int64
	mu                sync.Mutex
	clientFingerprint string
}

var (
	c20pkiOnce sync.Once
	c20pkiVal  *c20pki
	c20pkiErr  error
)

func c20newCA(cn string) (*c20ca, error) {
	key, err := ecdsa.GenerateKey(elliptic.P256(), crand.Reader)
	if err != nil {
		return nil, err
	}
	tmpl := &x509.Certificate{SerialNumber: big.NewInt(1), Subject: pkix.Name{CommonName: cn}, NotBefore: time.Now().Add(-time.Hour), NotAfter: time.Now().Add(240 * time.Hour),
		IsCA: true, BasicConstraintsValid: true, KeyUsage: x509.KeyUsageCertSign | x509.KeyUsageDigitalSignature}
	der, err := x509.CreateCertificate(crand.Reader, tmpl, tmpl, &key.PublicKey, key)
	if err != nil {
		return nil, err
	}
	cert, _ := x509.ParseCertificate(der)
	return &c20ca{cert: cert, key: key, pem: pem.EncodeToMemory(&pem.Block{Type: "CERTIFICATE", Bytes: der})}, nil
}

func (p *c20pki) issue(ca *c20ca, cn string, dns []string, ips []net.IP, client bool) (tls.Certificate, []byte, []byte, error) {
	key, err := ecdsa.GenerateKey(elliptic.P256(), crand.Reader)
	if err != nil {
		return tls.Certificate{}, nil, nil, err
	}
	p.mu.Lock()
	p.serial++
	sn := p.serial + 100
	p.mu.Unlock()
	eku := x509.ExtKeyUsageServerAuth
	if client {
		eku = x509.ExtKeyUsageClientAuth
	}
	tmpl := &x509.Certificate{SerialNumber: big.NewInt(sn), Subject: pkix.Name{CommonName: cn}, NotBefore: time.Now().Add(-time.Hour), NotAfter: time.Now().Add(240 * time.Hour),
		KeyUsage: x509.KeyUsageDigitalSignature, ExtKeyUsage: []x509.ExtKeyUsage{eku}, DNSNames: dns, IPAddresses: ips}
	der, err := x509.CreateCertificate(crand.Reader, tmpl, ca.cert, &key.PublicKey, ca.key)
	if err != nil {
		return tls.Certificate{}, nil, nil, err
	}
	kb, _ := x509.MarshalECPrivateKey(key)
	certPEM := pem.EncodeToMemory(&pem.Block{Type: "CERTIFICATE", Bytes: der})
	keyPEM := pem.EncodeToMemory(&pem.Block{Type: "EC PRIVATE KEY", Bytes: kb})
	tc, err := tls.X509KeyPair(certPEM, keyPEM)
	return tc, certPEM, keyPEM, err
}

func c20getPKI(c *runner.Ctx) (*c20pki, error) {
	c20pkiOnce.Do(func() {
		p := &c20pki{}
		var err error
		base := c.OutDir
		if base == "" {
			base = os.TempDir()
		}
		if p.dir, err = os.MkdirTemp(base, "c20pki"); err != nil {
			c20pkiErr = err
			return
		}
		if p.ca1, err = c20newCA("verif CA one"); err != nil {
			c20pkiErr = err
			return
		}
		if p.ca2, err = c20newCA("verif CA two"); err != nil {
			c20pkiErr = err
			return
		}
		p.ca1File = filepath.Join(p.dir, "ca1.pem")
		os.WriteFile(p.ca1File, p.ca1.pem, 0600)
		p.ca2File = filepath.Join(p.dir, "ca2.pem")
		os.WriteFile(p.ca2File, p.ca2.pem, 0600)
		_, cp, kp, err := p.issue(p.ca1, "verif-client", nil, nil, true)
		if err != nil {
			c20pkiErr = err
			return
		}
		p.clientCertFile = filepath.Join(p.dir, "client.pem")
		p.clientKeyFile = filepath.Join(p.dir, "client.key")
		os.WriteFile(p.clientCertFile, cp, 0600)
		os.WriteFile(p.clientKeyFile, kp, 0600)
		_, _, kp2, _ := p.issue(p.ca1, "verif-other", nil, nil, true)
		p.otherKeyFile = filepath.Join(p.dir, "other.key")
		os.WriteFile(p.otherKeyFile, kp2, 0600)
		c20pkiVal = p
	})
	return c20pkiVal, c20pkiErr
}

// ---- TLS terminator in front of the scripted node ----------------------------------------------

type c20hs struct {
	node      string
	sni       string
	completed bool
	err       string
	clientCN  string
}

type c20dialer struct {
	inner  fakenode.Dialer
	cfgFor func(n *fakenode.Node) *tls.Config
	mu     sync.Mutex
	log    []c20hs
	dials  int
}

func (d *c20dialer) DialContext(ctx context.Context, network, addr string) (net.Conn, error) {
	d.mu.Lock()
	d.dials++
	d.mu.Unlock()
	n := d.inner.C.NodeByAddr(addr)
	if n == nil {
		return nil, &net.OpError{Op: "dial", Net: "mem", Err: fmt.Errorf("no route to %s", addr)}
	}
	plain, err := d.inner.DialContext(ctx, network, addr)
	if err != nil {
		return nil, err
	}
	a, b := memnet.Pipe(&net.TCPAddr{IP: net.IPv4(10, 9, 9, 8), Port: 31000}, &net.TCPAddr{IP: n.IP, Port: n.Port}, memnet.NoFaults())
	base := d.cfgFor(n)
	rec := c20hs{node: n.IP.String()}
	scfg := base.Clone()
	scfg.GetConfigForClient = func(chi *tls.ClientHelloInfo) (*tls.Config, error) {
		rec.sni = chi.ServerName
		return nil, nil
	}
	go func() {
		ts := tls.Server(b, scfg)
		b.SetDeadline(time.Now().Add(30 * time.Second))
		herr := ts.Handshake()
		b.SetDeadline(time.Time{})
		if herr != nil {
			rec.err = herr.Error()
		} else {
			rec.completed = true
			if pcs := ts.ConnectionState().PeerCertificates; len(pcs) > 0 {
				rec.clientCN = pcs[0].Subject.CommonName
			}
		}
		d.mu.Lock()
		d.log = append(d.log, rec)
		d.mu.Unlock()
		if herr != nil {
			b.Close()
			plain.Close()
			return
		}
		go func() {
			io.Copy(plain, ts)
			plain.Close()
			ts.Close()
		}()
		io.Copy(ts, plain)
		ts.Close()
		plain.Close()
	}()
	return a, nil
}

func (d *c20dialer) snapshot() (log []c20hs, dials int) {
	d.mu.Lock()
	defer d.mu.Unlock()
	return append([]c20hs{}, d.log...), d.dials
}

// ---- TLS table ---------------------------------------------------------------------------------

var c20dims = []int{3, 2, 2, 3, 3, 7, 4} // cfgKind, ehv, serverName, hostForm, trust, serverCert, clientCert

func c20tlsCases() int {
	n := 1
	for _, d := range c20dims {
		n *= d
	}
	return n
}

type c20userCfgSnap struct {
	isv         bool
	serverName  string
	rootCAs     *x509.CertPool
	nRootSubj   int
	nCerts      int
	minVersion  uint16
	nextProtos  int
	clientAuth  tls.ClientAuthType
	verifyPeer  bool
	verifyConn  bool
	clientCAs   *x509.CertPool
	cipherCount int
}

func c20snap(t *tls.Config) c20userCfgSnap {
	s := c20userCfgSnap{isv: t.InsecureSkipVerify, serverName: t.ServerName, rootCAs: t.RootCAs, nCerts: len(t.Certificates), minVersion: t.MinVersion, nextProtos: len(t.NextProtos),
		clientAuth: t.ClientAuth, verifyPeer: t.VerifyPeerCertificate != nil, verifyConn: t.VerifyConnection != nil, clientCAs: t.ClientCAs, cipherCount: len(t.CipherSuites)}
	if t.RootCAs != nil {
		s.nRootSubj = len(t.RootCAs.Subjects()) //nolint:staticcheck
	}
	return s
}

func c20tlsCase(c *runner.Ctx, i int) {
	x := i
	var d [7]int
	for k := range c20dims {
		d[k] = x % c20dims[k]
		x /= c20dims[k]
	}
	cfgKind, ehv, snKind, hostForm, trust, certKind, clientKind := d[0], d[1] == 1, d[2], d[3], d[4], d[5], d[6]
	if cfgKind == 0 && (snKind != 0 || trust == 0) {
		return // ServerName / RootCAs need a caller-supplied Config
	}
	if certKind == 4 && hostForm != 0 {
		return // swapped certificates need the two-node form
	}
	if certKind >= 5 && hostForm != 2 {
		return // name-without-address / address-without-name differ from the other kinds only for a host given by name
	}
	pki, err := c20getPKI(c)
	if err != nil {
		c.Broken("cannot set up the test PKI: " + err.Error())
		return
	}
	cl := fakenode.NewCluster(0)
	// contact points of the two-node form: 0 = the first node only, 1 = both nodes,
	// 2 = both nodes and only the first presents the case's certificate, the second a valid one of its own
	contacts := 0
	if hostForm == 0 && certKind != 4 {
		contacts = int(runner.H("c20contacts", i) % 3)
	}
	var hosts []string
	type ident struct {
		dns []string
		ips []net.IP
	}
	var ids []ident
	switch hostForm {
	case 0:
		for k := 0; k < 2; k++ {
			ip := net.IPv4(10, 0, 0, byte(k+1)).To4()
			cl.AddNode(ip, "dc1", "rack1", []string{fmt.Sprint(k * 1000)})
			ids = append(ids, ident{ips: []net.IP{ip}})
		}
		hosts = []string{"10.0.0.1"}
		switch contacts {
		case 1, 2:
			// both nodes are contact points: until the ring is read neither has a host id
			hosts = []string{"10.0.0.1", "10.0.0.2"}
		}
	case 1:
		ip := net.ParseIP("fd00::c0:1")
		cl.AddNode(ip, "dc1", "rack1", []string{"0"})
		ids = append(ids, ident{ips: []net.IP{ip}})
		hosts = []string{[]string{"fd00::c0:1", "[fd00::c0:1]:9042"}[(i/3)%2]}
	default:
		ip := net.IPv4(127, 0, 0, 1).To4()
		cl.AddNode(ip, "dc1", "rack1", []string{"0"})
		ids = append(ids, ident{dns: []string{"localhost"}, ips: []net.IP{ip}})
		hosts = []string{[]string{"localhost", "localhost:9042"}[i%2]}
	}
	serverName := ""
	if snKind == 1 {
		serverName = "cass.internal"
	}
	// server certificates
	certs := make([]tls.Certificate, len(ids))
	kindOf := make([]int, len(ids))
	for k := range ids {
		id := ids[k]
		ca := pki.ca1
		kindOf[k] = certKind
		if contacts == 2 && k == 1 {
			kindOf[k] = 0
		}
		switch kindOf[k] {
		case 1:
			id = ident{dns: []string{"other.example"}, ips: []net.IP{net.IPv4(10, 9, 9, 9)}}
		case 2:
			ca = pki.ca2
		case 3:
			id = ident{dns: []string{"cass.internal"}}
		case 4:
			id = ids[(k+1)%len(ids)]
		case 5:
			// the certificate names the host (or, for a node known by address only, some name) but no address
			id = ident{dns: append([]string{}, id.dns...)}
			if len(id.dns) == 0 {
				id.dns = []string{fmt.Sprintf("node%d.example", k)}
			}
		case 6:
			// the certificate covers the address only, not the name the host was given by
			id = ident{ips: id.ips}
		}
		tc, _, _, err := pki.issue(ca, fmt.Sprintf("node%d", k), id.dns, id.ips, false)
		if err != nil {
			c.Broken("cannot issue a certificate: " + err.Error())
			return
		}
		certs[k] = tc
	}
	serverWantsClientCert := clientKind == 1 || clientKind == 3
	clientCertConfigured := clientKind == 1 || clientKind == 2
	clientCAs := x509.NewCertPool()
	clientCAs.AddCert(pki.ca1.cert)
	dl := &c20dialer{inner: fakenode.Dialer{C: cl}, cfgFor: func(n *fakenode.Node) *tls.Config {
		sc := &tls.Config{Certificates: []tls.Certificate{certs[n.Idx]}, MinVersion: tls.VersionTLS12}
		if serverWantsClientCert {
			sc.ClientAuth = tls.RequireAndVerifyClientCert
			sc.ClientCAs = clientCAs
		}
		return sc
	}}
	cfg := newCfg(cl, 4)
	cfg.Hosts = hosts
	cfg.Dialer = dl
	cfg.ConnectTimeout = 20 * time.Second
	cfg.Timeout = 20 * time.Second
	opts := &gocql.SslOptions{EnableHostVerification: ehv}
	var user *tls.Config
	if cfgKind != 0 {
		user = &tls.Config{InsecureSkipVerify: cfgKind == 2, ServerName: serverName, MinVersion: tls.VersionTLS12}
		if trust == 0 {
			user.RootCAs = x509.NewCertPool()
			user.RootCAs.AddCert(pki.ca1.cert)
		}
		opts.Config = user
	}
	if trust == 1 {
		opts.CaPath = pki.ca1File
	}
	// the caller's Config brings its own RootCAs (CA one) and the options name a CA file as well (CA two): both are
	// trusted for this cluster - and the caller's own pool is still the caller's
	bothTrust := trust == 0 && user != nil && runner.H("c20both", i)%3 == 0
	if bothTrust {
		opts.CaPath = pki.ca2File
		c.Add("caller_rootcas_plus_ca_path", 1)
	}
	if clientCertConfigured {
		opts.CertPath, opts.KeyPath = pki.clientCertFile, pki.clientKeyFile
	}
	cfg.SslOpts = opts
	var before c20userCfgSnap
	if user != nil {
		before = c20snap(user)
	}
	verify := (user == nil && ehv) || (user != nil && !(cfgKind == 2 && !ehv))
	clientOK := !serverWantsClientCert || clientCertConfigured
	// per node: may a verifying client accept this node's certificate?
	nodeOK := map[string]bool{}
	anyContactOK := false
	for k := range ids {
		trusted := (kindOf[k] != 2 || bothTrust) && trust != 2
		nameOK := false
		if serverName != "" {
			nameOK = kindOf[k] == 3
		} else {
			// without an explicit server name the certificate has to be valid for what the host is dialled as:
			// its name if it was given by name, else its address
			byName := len(ids[k].dns) > 0
			nameOK = kindOf[k] == 0 || kindOf[k] == 2 || (kindOf[k] == 5 && byName) || (kindOf[k] == 6 && !byName)
		}
		ok := !verify || (trusted && nameOK)
		nodeOK[ids[k].ips[0].String()] = ok
		if ok && (k == 0 || contacts > 0 || hostForm != 0) {
			anyContactOK = true
		}
	}
	expectOK := clientOK && anyContactOK
	key := fmt.Sprintf("Config=%s EnableHostVerification=%v ServerName=%q hosts=%v trust=%s server-cert=%s%s client-cert=%s",
		[]string{"nil", "InsecureSkipVerify:false", "InsecureSkipVerify:true"}[cfgKind], ehv, serverName, hosts,
		[]string{"Config.RootCAs", "CaPath", "none"}[trust], []string{"own-identity", "other-name", "untrusted-CA", "server-name-only", "swapped-between-nodes", "name-without-address", "address-without-name"}[certKind],
		[]string{"", "", "(first node only; the second has a valid certificate of its own)"}[contacts],
		[]string{"none", "configured+required", "configured", "required-but-none"}[clientKind])
	if contacts > 0 {
		c.Add("two_contact_points", 1)
	}
	c.Eval(runner.H("c20tls", i), verify)
	c.Add("tls_sessions", 1)
	if verify {
		c.Add("verify_expected", 1)
	} else {
		c.Add("no_verify_expected", 1)
	}
	if runner.H("c20reuse", i)%3 == 0 {
		// the same SslOptions object served an earlier session with the opposite verification setting (one
		// ClusterConfig, several CreateSession calls, a setting changed in between; the file paths stay)
		if verify {
			w := &tls.Config{InsecureSkipVerify: true, ServerName: serverName, MinVersion: tls.VersionTLS12}
			if user != nil {
				w.RootCAs = user.RootCAs
			}
			opts.Config, opts.EnableHostVerification = w, false
		} else {
			opts.EnableHostVerification = true
		}
		cfgW := *cfg
		cfgW.Dialer = &c20dialer{inner: fakenode.Dialer{C: cl}, cfgFor: dl.cfgFor}
		var sw *gocql.Session
		c.Guard("CreateSession", func() { sw, _ = cfgW.CreateSession() })
		if sw != nil {
			c.Guard("Session.Close", sw.Close)
		}
		opts.Config, opts.EnableHostVerification = user, ehv
		if user == nil {
			opts.Config = nil
		}
		key += " [SslOptions used before with the opposite verification setting]"
		c.Add("ssl_options_reused_after_change", 1)
	}
	var sess *gocql.Session
	c.Guard("CreateSession", func() { sess, err = cfg.CreateSession() })
	if sess != nil {
		// let the pools of all nodes connect
		deadline := time.Now().Add(3 * time.Second)
		for time.Now().Before(deadline) {
			log, _ := dl.snapshot()
			seen := map[string]bool{}
			for _, h := range log {
				seen[h.node] = true
			}
			if len(seen) == len(ids) {
				break
			}
			time.Sleep(5 * time.Millisecond)
		}
	}
	log, dials := dl.snapshot()
	completed, failed := 0, 0
	perNode := map[string]int{}
	completedOnBad, failedOnGood := 0, 0
	var sample []string
	for _, h := range log {
		if h.completed && !nodeOK[h.node] {
			completedOnBad++
		}
		if !h.completed && nodeOK[h.node] {
			failedOnGood++
		}
		if h.completed {
			completed++
			perNode[h.node]++
			if h.clientCN != "" {
				c.Add("client_cert_presented", 1)
				if h.clientCN != "verif-client" {
					c.Violation("C20:tls:wrong-client-certificate", fmt.Sprintf("the server was shown client certificate %q (%s)", h.clientCN, key), nil)
				}
			} else if clientCertConfigured && serverWantsClientCert {
				c.Violation("C20:tls:client-certificate-not-presented", "handshake completed without the configured client certificate although the server demands one ("+key+")", nil)
			}
		} else {
			failed++
		}
		if len(sample) < 6 {
			sample = append(sample, fmt.Sprintf("%s sni=%q completed=%v err=%s", h.node, h.sni, h.completed, clipS(h.err)))
		}
	}
	c.Add("handshakes_completed", int64(completed))
	c.Add("handshakes_rejected_by_client", int64(failed))
	wit := map[string]interface{}{"case": key, "verify_expected": verify, "handshakes": sample, "dials": dials, "create_session_error": fmt.Sprint(err)}
	// a host given by name, verification on, no explicit server name: the name is what the certificate is checked
	// against, so the handshake with the contact point names it (SNI)
	if hostForm == 2 && verify && serverName == "" && len(log) > 0 {
		c.Add("contact_points_given_by_name_verified", 1)
		named := false
		for _, h := range log {
			if h.sni == "localhost" {
				named = true
			}
		}
		if !named {
			c.Violation("C20:tls:host-name-not-used", fmt.Sprintf("none of the %d handshakes with a contact point given as \"localhost\" named it: the certificate was checked against something else (%s)", len(log), key), wit)
		}
	}
	// (the pools dial a node by the address the cluster reports for it; a certificate that names the host but not
	// its address decides the contact-point handshake only, which the check above covers)
	sniOnly := certKind == 5
	switch {
	case sniOnly:
	case expectOK && sess == nil:
		c.Violation("C20:tls:valid-setup-refused", fmt.Sprintf("session creation failed although the table and the certificates allow it: %v (%s)", err, key), wit)
	case !expectOK && sess != nil:
		cls := "C20:tls:not-verified"
		if !clientOK {
			cls = "C20:tls:connected-without-client-certificate"
		}
		c.Violation(cls, fmt.Sprintf("a session was created although verification had to fail (%s)", key), wit)
	case !expectOK && completed > 0 && (completedOnBad > 0 || !clientOK):
		c.Violation("C20:tls:not-verified", fmt.Sprintf("%d TLS handshakes completed although verification had to fail (%s)", completed, key), wit)
	case clientOK && verify && completedOnBad > 0:
		c.Violation("C20:tls:not-verified", fmt.Sprintf("%d TLS handshakes completed with a node whose certificate is not valid for it (%s)", completedOnBad, key), wit)
	case clientOK && verify && failedOnGood > 0:
		c.Violation("C20:tls:valid-certificate-rejected", fmt.Sprintf("%d handshakes were rejected although that node's certificate is valid for that node (%s)", failedOnGood, key), wit)
	}
	if expectOK && sess != nil && len(ids) > 1 && !sniOnly {
		c.Add("per_node_names", 1)
		for _, id := range ids {
			if !nodeOK[id.ips[0].String()] {
				continue
			}
			if perNode[id.ips[0].String()] == 0 {
				c.Violation("C20:tls:node-not-connected", fmt.Sprintf("no handshake completed with node %s although its certificate is valid for it (%s)", id.ips[0], key), wit)
			}
		}
	}
	if sess != nil {
		if expectOK && !sniOnly {
			if qerr := sess.Query("LIST over tls").Exec(); qerr != nil {
				c.Violation("C20:tls:session-unusable", fmt.Sprintf("a query over the TLS session failed: %v (%s)", qerr, key), wit)
			}
		}
		c.Guard("Session.Close", sess.Close)
	}
	if user != nil {
		c.Add("caller_config_compared", 1)
		after := c20snap(user)
		if after != before {
			c.Violation("C20:tls:caller-config-modified", fmt.Sprintf("the caller's tls.Config changed: before %+v, after %+v (%s)", before, after, key), wit)
		}
	}
	if c.WantSample() {
		c.Sample(map[string]interface{}{"case": key, "verify_expected": verify, "session_created": sess != nil, "handshakes_completed": completed, "handshakes_failed": failed, "handshakes": sample})
	}
}

// ---- unreadable / unparsable files --------------------------------------------------------------

var c20badFiles = []string{"ca-missing", "ca-directory", "ca-empty", "ca-garbage", "ca-key-instead-of-cert", "ca-truncated-pem",
	"pair-cert-only", "pair-key-only", "pair-missing", "pair-key-garbage", "pair-cert-garbage", "pair-mismatched", "pair-empty", "pair-swapped"}

func c20badFileCase(c *runner.Ctx, i int) {
	pki, err := c20getPKI(c)
	if err != nil {
		c.Broken("cannot set up the test PKI: " + err.Error())
		return
	}
	variant := c20badFiles[i%len(c20badFiles)]
	row := i / len(c20badFiles) // 0..5: Config nil/false/true x EHV
	cfgKind, ehv := row%3, row/3 == 1
	dir, err := os.MkdirTemp(pki.dir, "bad")
	if err != nil {
		c.Broken(err.Error())
		return
	}
	defer os.RemoveAll(dir)
	w := func(name string, b []byte) string {
		p := filepath.Join(dir, name)
		os.WriteFile(p, b, 0600)
		return p
	}
	clientCert, _ := os.ReadFile(pki.clientCertFile)
	clientKey, _ := os.ReadFile(pki.clientKeyFile)
	opts := &gocql.SslOptions{EnableHostVerification: ehv}
	switch variant {
	case "ca-missing":
		opts.CaPath = filepath.Join(dir, "does-not-exist.pem")
	case "ca-directory":
		opts.CaPath = dir
	case "ca-empty":
		opts.CaPath = w("ca.pem", nil)
	case "ca-garbage":
		opts.CaPath = w("ca.pem", []byte("-----BEGIN CERTIFICATE-----\nnot base64 at all\n-----END CERTIFICATE-----\n"))
	case "ca-key-instead-of-cert":
		opts.CaPath = w("ca.pem", clientKey)
	case "ca-truncated-pem":
		opts.CaPath = w("ca.pem", pki.ca1.pem[:len(pki.ca1.pem)/2])
	case "pair-cert-only":
		opts.CertPath = pki.clientCertFile
	case "pair-key-only":
		opts.KeyPath = pki.clientKeyFile
	case "pair-missing":
		opts.CertPath, opts.KeyPath = filepath.Join(dir, "nope.pem"), filepath.Join(dir, "nope.key")
	case "pair-key-garbage":
		opts.CertPath, opts.KeyPath = pki.clientCertFile, w("k.key", []byte("garbage"))
	case "pair-cert-garbage":
		opts.CertPath, opts.KeyPath = w("c.pem", []byte("garbage")), pki.clientKeyFile
	case "pair-mismatched":
		opts.CertPath, opts.KeyPath = pki.clientCertFile, pki.otherKeyFile
	case "pair-empty":
		opts.CertPath, opts.KeyPath = w("c.pem", nil), w("k.key", nil)
	case "pair-swapped":
		opts.CertPath, opts.KeyPath = w("c.pem", clientKey), w("k.key", clientCert)
	}
	cl := fakenode.NewCluster(1)
	ip := cl.Nodes[0].IP
	tc, _, _, err := pki.issue(pki.ca1, "node0", nil, []net.IP{ip}, false)
	if err != nil {
		c.Broken(err.Error())
		return
	}
	dl := &c20dialer{inner: fakenode.Dialer{C: cl}, cfgFor: func(n *fakenode.Node) *tls.Config {
		return &tls.Config{Certificates: []tls.Certificate{tc}}
	}}
	cfg := newCfg(cl, 4)
	cfg.Dialer = dl
	if cfgKind != 0 {
		opts.Config = &tls.Config{InsecureSkipVerify: cfgKind == 2}
		opts.Config.RootCAs = x509.NewCertPool()
		opts.Config.RootCAs.AddCert(pki.ca1.cert)
	}
	cfg.SslOpts = opts
	key := fmt.Sprintf("%s Config=%s EnableHostVerification=%v", variant, []string{"nil", "InsecureSkipVerify:false", "InsecureSkipVerify:true"}[cfgKind], ehv)
	c.Eval(runner.H("c20bad", variant, cfgKind, ehv), true)
	c.Add("bad_file_cases", 1)
	var sess *gocql.Session
	c.Guard("CreateSession", func() { sess, err = cfg.CreateSession() })
	log, dials := dl.snapshot()
	completed := 0
	for _, h := range log {
		if h.completed {
			completed++
		}
	}
	if sess != nil || completed > 0 {
		c.Violation("C20:files:"+variant+":connected-without", fmt.Sprintf("with an unusable %s the driver connected anyway (session=%v, %d handshakes completed of %d dials) (%s)", strings.SplitN(variant, "-", 2)[0], sess != nil, completed, dials, key), map[string]interface{}{"case": key})
	} else if err == nil {
		c.Violation("C20:files:"+variant+":no-error", "CreateSession returned neither a session nor an error ("+key+")", nil)
	} else {
		c.SetAdd("file_errors", clipS(strings.ReplaceAll(err.Error(), dir, "<dir>")))
	}
	if sess != nil {
		sess.Close()
	}
	if c.WantSample() {
		c.Sample(map[string]interface{}{"case": key, "error": fmt.Sprint(err), "dials": dials})
	}
}

// ---- authentication --------------------------------------------------------------------------------

var c20defaultApproved = []string{
	"org.apache.cassandra.auth.PasswordAuthenticator",
	"com.instaclustr.cassandra.auth.SharedSecretAuthenticator",
	"com.datastax.bdp.cassandra.auth.DseAuthenticator",
	"io.aiven.cassandra.auth.AivenAuthenticator",
	"com.ericsson.bss.cassandra.ecaudit.auth.AuditPasswordAuthenticator",
	"com.amazon.helenus.auth.HelenusAuthenticator",
	"com.ericsson.bss.cassandra.ecaudit.auth.AuditAuthenticator",
	"com.scylladb.auth.SaslauthdAuthenticator",
	"com.scylladb.auth.TransitionalAuthenticator",
	"com.instaclustr.cassandra.auth.InstaclustrPasswordAuthenticator",
}

func c20authCase(c *runner.Ctx, i int) {
	r := c.Rng
	version := 2 + i%4
	// allowed-list setting
	var allowed []string
	listKind := (i / 4) % 5
	switch listKind {
	case 0:
		allowed = nil
	case 1:
		allowed = []string{}
	case 2:
		allowed = []string{"com.example.MyAuth"}
	case 3:
		allowed = []string{c20defaultApproved[r.Intn(len(c20defaultApproved))], "com.example.MyAuth", "org.example.Other"}
	default:
		allowed = []string{"com.example.MyAuth", ""}
	}
	effective := allowed
	if len(effective) == 0 {
		effective = c20defaultApproved
	}
	// class offered by the server
	base := effective[r.Intn(len(effective))]
	if r.Intn(3) == 0 {
		base = c20defaultApproved[r.Intn(len(c20defaultApproved))]
	}
	class := base
	demanded := true
	switch m := r.Intn(16); m {
	case 0, 1, 2, 3, 4:
		// exact
	case 5:
		class = strings.ToLower(base)
	case 6:
		class = strings.ToUpper(base)
	case 7:
		class = base + " "
	case 8:
		class = " " + base
	case 9:
		if len(base) > 2 {
			class = base[:len(base)-1]
		}
	case 10:
		class = base + "2"
	case 11:
		if k := strings.LastIndex(base, "."); k >= 0 {
			class = base[k+1:]
		}
	case 12:
		class = ""
	case 13:
		class = "com.evil.CollectPasswords"
	case 14:
		class = strings.Replace(base, "a", "а", 1) // Cyrillic look-alike
	default:
		demanded = false
	}
	approved := false
	for _, a := range effective {
		if a == class {
			approved = true
		}
	}
	users := []string{"cassandra", "", "usér-名", "a b", strings.Repeat("u", 300)}
	user := users[r.Intn(len(users))]
	pass := fmt.Sprintf("pw-%08x-%s", r.Uint32(), []string{"", "üß€", " ", "x"}[r.Intn(4)])
	if r.Intn(12) == 0 {
		pass = ""
	}
	authKind := r.Intn(4) // 0 none, 1 Authenticator, 2 AuthProvider, 3 Authenticator, 4 AuthProvider returning no authenticator
	if authKind == 0 && r.Intn(2) == 0 {
		// a client without credentials against every class a server is known to name, spelled exactly
		class, demanded = c20defaultApproved[(i/4)%len(c20defaultApproved)], true
		c.Add("no_authenticator_vs_known_class", 1)
		c.SetAdd("classes_demanded_from_a_client_without_credentials", class)
		if r.Intn(3) == 0 {
			authKind = 4
		}
	}
	cl := fakenode.NewCluster(1 + r.Intn(2))
	for _, n := range cl.Nodes {
		n := n
		n.OnHandshake = func(sc *fakenode.ServerConn, op byte) bool {
			if op != cqlref.OpStartup || !demanded {
				return false
			}
			reqs := sc.AllRequests()
			f, _ := cqlref.BuildFrame(sc.Version, reqs[len(reqs)-1].Header.Stream, cqlref.OpAuthenticate, nil, cqlref.BodyString(class), nil)
			sc.WriteReply(reqs[len(reqs)-1], f)
			return true
		}
	}
	cfg := newCfg(cl, version)
	pa := gocql.PasswordAuthenticator{Username: user, Password: pass, AllowedAuthenticators: allowed}
	switch authKind {
	case 1, 3:
		cfg.Authenticator = pa
	case 2:
		cfg.AuthProvider = func(h *gocql.HostInfo) (gocql.Authenticator, error) { return pa, nil }
	case 4:
		cfg.AuthProvider = func(h *gocql.HostInfo) (gocql.Authenticator, error) { return nil, nil }
	}
	key := fmt.Sprintf("v%d class=%q demanded=%v allowed=%q authenticator=%s user=%q", version, class, demanded, allowed, []string{"none", "PasswordAuthenticator", "AuthProvider", "PasswordAuthenticator", "AuthProvider returning nil"}[authKind], clipS(user))
	c.Eval(runner.H("c20auth", version, listKind, class, demanded, authKind), demanded)
	c.Add("auth_sessions", 1)
	var sess *gocql.Session
	var err error
	c.Guard("CreateSession", func() { sess, err = cfg.CreateSession() })
	if sess != nil {
		sess.Query("LIST after auth").Exec()
	}
	// what the nodes received
	var tokens [][]byte
	leak := ""
	for _, sc := range cl.AllConns() {
		for _, rq := range sc.AllRequests() {
			if rq.Header.Op == cqlref.OpAuthResponse {
				tokens = append(tokens, rq.Token)
			} else if len(pass) >= 8 && bytes.Contains(rq.Raw, []byte(pass)) {
				leak = fmt.Sprintf("a %#x frame", rq.Header.Op)
			}
		}
	}
	if sess != nil {
		c.Guard("Session.Close", sess.Close)
	}
	wit := map[string]interface{}{"case": key, "auth_responses": len(tokens), "create_session_error": fmt.Sprint(err), "bad_frames": cl.BadFramesCopy()}
	want := append(append(append([]byte{0}, user...), 0), pass...)
	if leak != "" {
		c.Violation("C20:auth:password-outside-auth-response", "the password appears in "+leak+" ("+key+")", wit)
	}
	switch {
	case !demanded:
		c.Add("auth_not_demanded", 1)
		if len(tokens) > 0 {
			c.Violation("C20:auth:unsolicited-credentials", fmt.Sprintf("%d AUTH_RESPONSE frames were sent to a server that did not ask for authentication (%s)", len(tokens), key), wit)
		}
		if sess == nil {
			c.Violation("C20:auth:session-refused", fmt.Sprintf("session creation failed against a server without authentication: %v (%s)", err, key), wit)
		}
	case authKind == 0 || authKind == 4:
		c.Add("no_authenticator_configured", 1)
		if sess != nil {
			c.Violation("C20:auth:unauthenticated-session", "a session was created although the server demands authentication and no credentials are configured ("+key+")", wit)
		}
		if len(tokens) > 0 {
			c.Violation("C20:auth:unsolicited-credentials", fmt.Sprintf("%d AUTH_RESPONSE frames without a configured authenticator (%s)", len(tokens), key), wit)
		}
		if sess == nil && err == nil {
			c.Violation("C20:auth:no-error", "neither session nor error ("+key+")", wit)
		}
	case approved:
		c.Add("approved_class", 1)
		if sess == nil {
			c.Violation("C20:auth:approved-class-refused", fmt.Sprintf("session creation failed although class %q is on the approved list: %v (%s)", class, err, key), wit)
		}
		if len(tokens) == 0 {
			c.Violation("C20:auth:no-credentials-sent", "no AUTH_RESPONSE reached the server ("+key+")", wit)
		}
		for _, t := range tokens {
			c.Add("tokens_checked", 1)
			if !bytes.Equal(t, want) {
				c.Violation("C20:auth:token-not-sasl-plain", fmt.Sprintf("AUTH_RESPONSE token %q is not the SASL PLAIN token %q (%s)", clipS(string(t)), clipS(string(want)), key), wit)
				break
			}
		}
	default:
		c.Add("unapproved_class", 1)
		if len(tokens) > 0 {
			c.Violation("C20:auth:credentials-sent-to-unapproved-class", fmt.Sprintf("credentials were sent in reply to authenticator class %q, which is not on the approved list %q (%s)", class, effective, key), wit)
		}
		if sess != nil {
			c.Violation("C20:auth:unauthenticated-session", "a session was created although the authenticator class was not approved ("+key+")", wit)
		}
	}
	if c.WantSample() {
		c.Sample(map[string]interface{}{"case": key, "approved": approved, "session_created": sess != nil, "auth_responses": len(tokens), "error": fmt.Sprint(err)})
	}
}

// c20perHostAuth: two nodes behind one address, told apart by their port, and an AuthProvider that decides per host
// (that is what it is handed the *HostInfo for): each node is sent the credentials chosen for it - or nothing.
func c20perHostAuth(c *runner.Ctx, i int) {
	r := c.Rng
	version := 3 + i%3
	variant := i % 3
	cl := fakenode.NewCluster(0)
	ip := net.IPv4(10, 0, 0, 1).To4()
	a := cl.AddNode(ip, "dc1", "rack1", []string{"0"})
	b := cl.AddNode(ip, "dc1", "rack1", []string{"1000"})
	b.Port = 9043
	classA := c20defaultApproved[r.Intn(len(c20defaultApproved))]
	classB := classA
	if variant == 2 {
		classB = "com.example.OtherAuthenticator"
	}
	for _, n := range []*fakenode.Node{a, b} {
		class := classA
		if n == b {
			class = classB
		}
		n.OnHandshake = func(sc *fakenode.ServerConn, op byte) bool {
			if op != cqlref.OpStartup {
				return false
			}
			reqs := sc.AllRequests()
			f, _ := cqlref.BuildFrame(sc.Version, reqs[len(reqs)-1].Header.Stream, cqlref.OpAuthenticate, nil, cqlref.BodyString(class), nil)
			sc.WriteReply(reqs[len(reqs)-1], f)
			return true
		}
	}
	alice := gocql.PasswordAuthenticator{Username: "alice", Password: fmt.Sprintf("pw-a-%08x", r.Uint32())}
	bob := gocql.PasswordAuthenticator{Username: "bob", Password: fmt.Sprintf("pw-b-%08x", r.Uint32())}
	if variant == 2 {
		// node B's class is approved for alice's list only (had the provider chosen alice for B); bob's list is the default one
		alice.AllowedAuthenticators = []string{classA, classB}
	}
	cfg := newCfg(cl, version)
	order := [][]string{{"10.0.0.1:9042", "10.0.0.1:9043"}, {"10.0.0.1:9043", "10.0.0.1:9042"}}[(i/3)%2]
	cfg.Hosts = order
	cfg.DisableInitialHostLookup = true
	cfg.NumConns = 1 + r.Intn(2)
	cfg.ReconnectInterval = 20 * time.Millisecond
	cfg.AuthProvider = func(h *gocql.HostInfo) (gocql.Authenticator, error) {
		if h.Port() == 9042 {
			return alice, nil
		}
		switch variant {
		case 0:
			return nil, nil
		default:
			return bob, nil
		}
	}
	key := fmt.Sprintf("v%d two nodes at 10.0.0.1 (ports 9042 / 9043, contact points %v), AuthProvider: alice for :9042, %s for :9043 (which asks for %q)", version, order,
		[]string{"no authenticator", "bob", "bob (default approved list)"}[variant], classB)
	c.Eval(runner.H("c20perhost", version, variant, order[0]), true)
	c.Add("per_host_auth_sessions", 1)
	var sess *gocql.Session
	var err error
	c.Guard("CreateSession", func() { sess, err = cfg.CreateSession() })
	if sess != nil {
		for k := 0; k < 6; k++ {
			sess.Query(fmt.Sprintf("LIST per host %d", k)).Exec()
			time.Sleep(10 * time.Millisecond)
		}
	}
	tokA := append(append(append([]byte{0}, alice.Username...), 0), alice.Password...)
	tokB := append(append(append([]byte{0}, bob.Username...), 0), bob.Password...)
	var gotA, gotB [][]byte
	for _, sc := range cl.AllConns() {
		for _, rq := range sc.AllRequests() {
			if rq.Header.Op != cqlref.OpAuthResponse {
				continue
			}
			if sc.Node == a {
				gotA = append(gotA, rq.Token)
			} else {
				gotB = append(gotB, rq.Token)
			}
		}
	}
	if sess != nil {
		c.Guard("Session.Close", sess.Close)
	}
	wit := map[string]interface{}{"case": key, "create_session_error": fmt.Sprint(err), "auth_responses_to_9042": len(gotA), "auth_responses_to_9043": len(gotB)}
	c.Add("tokens_checked", int64(len(gotA)+len(gotB)))
	for _, tkn := range gotA {
		if !bytes.Equal(tkn, tokA) {
			c.Violation("C20:auth:credentials-of-another-host", fmt.Sprintf("the node at :9042 was sent a token that is not the one the AuthProvider chose for it (%s)", key), wit)
			break
		}
	}
	for _, tkn := range gotB {
		switch {
		case variant == 0:
			c.Violation("C20:auth:unsolicited-credentials", fmt.Sprintf("the node at :9043, for which the AuthProvider has no authenticator, was sent an AUTH_RESPONSE (%s)", key), wit)
		case variant == 2:
			c.Violation("C20:auth:credentials-to-unapproved-class", fmt.Sprintf("the node at :9043 names a class that is not on the approved list of the authenticator chosen for it, and was sent an AUTH_RESPONSE (%s)", key), wit)
		case !bytes.Equal(tkn, tokB):
			c.Violation("C20:auth:credentials-of-another-host", fmt.Sprintf("the node at :9043 was sent a token that is not the one the AuthProvider chose for it (%s)", key), wit)
		default:
			continue
		}
		break
	}
	if len(gotA) == 0 && sess != nil {
		c.Violation("C20:auth:no-credentials-sent", fmt.Sprintf("the node at :9042 was never sent the credentials chosen for it although a session exists (%s)", key), wit)
	}
}
