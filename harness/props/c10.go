package props

import (
	"fmt"
	"math/big"
	"math/rand"
	"sort"
	"strings"
	"sync"
	"sync/atomic"
	"time"

	"github.com/gocql/gocql"

	"verifharness/cqlref"
	"verifharness/runner"
)

// C10: replica sets for a token equal Cassandra's placement.

func init() {
	runner.Register(&runner.Prop{
		ID: "C10", Level: "exploration",
		Technique: "runtime oracle: the driver's replica map and token-aware lookup compared with an independent implementation of Cassandra's SimpleStrategy / NetworkTopologyStrategy (2.x and 3.x formulations cross-checked) over generated rings; small parameter boxes enumerated completely",
		Rule: "case = (ring: 1..12 nodes x 1..8 tokens, 1..3 DCs, 1..4 racks unevenly filled; keyspace: Simple rf 0..6 or NTS per-DC rf 0..5 incl. unknown / missing DCs; partitioner; lookup tokens equal to / between / below / above ring tokens); " +
			"distinct = hash of the whole configuration; non-trivial = more than one node and rf >= 1 (single-node rings and rf 0 are trivial)",
		Assumptions: []string{
			"cqlref placement = Cassandra's: both NetworkTopologyStrategy generations are implemented and must agree as sets and on the first element, otherwise the case is reported inconclusive (oracle self-check), never as a violation",
			"replica *sets* and the first replica are compared for NTS (the two Cassandra generations order the tail differently); SimpleStrategy is compared as an exact sequence",
		},
		Phases: func(tier string) []runner.Phase {
			n := 30000
			if tier == "thorough" {
				n = 1500000
			}
			return []runner.Phase{
				{Name: "box", Variant: "plain", Cases: c10boxCount(), Run: c10box, Required: []string{"nts_cases", "simple_cases", "picks"}},
				{Name: "random", Variant: "plain", Cases: n, Run: c10random, Required: []string{"nts_cases", "simple_cases", "vnode_rings", "unknown_dc_keyspaces", "lookups", "picks", "hashed_murmur_rings", "policy_host_removed", "policy_keyspace_change_overlaps_ring_change", "second_keyspaces", "policy_ring_change_without_keyspace_description", "lookups_without_keyspace_description", "policy_node_down_during_lookups", "policies_with_shuffled_replicas"}},
			}
		},
	})
}

type c10node struct {
	id, dc, rack string
	toks         []int64
}

type c10cfg struct {
	partitioner string
	nodes       []c10node
	simple      bool
	rf          int
	dcrf        map[string]int
	// keys: for Murmur3 rings whose tokens are the hashes of generated keys, token -> a routing key with that token
	keys map[int64][]byte
}

// keyFor returns a routing key whose token is p, when one is known.
func (cfg *c10cfg) keyFor(p int64) []byte {
	switch cfg.partitioner {
	case "OrderedPartitioner":
		return []byte(c10tokStr(cfg.partitioner, p))
	case "Murmur3Partitioner":
		return cfg.keys[p]
	}
	return nil
}

func (cfg *c10cfg) String() string {
	var s []string
	for _, n := range cfg.nodes {
		s = append(s, fmt.Sprintf("%s@%s/%s%v", n.id, n.dc, n.rack, n.toks))
	}
	if cfg.simple {
		return fmt.Sprintf("%s Simple rf=%d ring=%s", cfg.partitioner, cfg.rf, strings.Join(s, " "))
	}
	var ks []string
	for dc, rf := range cfg.dcrf {
		ks = append(ks, fmt.Sprintf("%s:%d", dc, rf))
	}
	sort.Strings(ks)
	return fmt.Sprintf("%s NTS{%s} ring=%s", cfg.partitioner, strings.Join(ks, ","), strings.Join(s, " "))
}

func c10tokStr(p string, t int64) string {
	switch p {
	case "OrderedPartitioner":
		return fmt.Sprintf("%019d", t+1<<40) // fixed width: byte order == numeric order
	case "RandomPartitioner":
		return new(big.Int).Add(new(big.Int).Lsh(big.NewInt(t+1<<40), 60), big.NewInt(7)).String()
	}
	return fmt.Sprint(t)
}

// c10check runs the oracle on one configuration.
func c10check(c *runner.Ctx, cfg *c10cfg, probes []int64) {
	var hosts []*gocql.HostInfo
	var refNodes []*cqlref.Node
	byID := map[string]*cqlref.Node{}
	for i, n := range cfg.nodes {
		var ts []string
		rn := &cqlref.Node{ID: n.id, DC: n.dc, Rack: n.rack}
		for _, t := range n.toks {
			ts = append(ts, c10tokStr(cfg.partitioner, t))
			rn.Tokens = append(rn.Tokens, big.NewInt(t))
		}
		hosts = append(hosts, gocql.VerifNewHostInfo(n.id, []byte{10, 0, byte(i / 250), byte(i%250 + 1)}, 9042, n.dc, n.rack, ts, true))
		refNodes = append(refNodes, rn)
		byID[n.id] = rn
	}
	ring := cqlref.NewRing(refNodes)
	ks := &gocql.KeyspaceMetadata{Name: "ks", StrategyOptions: map[string]interface{}{}}
	if cfg.simple {
		ks.StrategyClass = "org.apache.cassandra.locator.SimpleStrategy"
		ks.StrategyOptions["replication_factor"] = fmt.Sprint(cfg.rf)
		c.Add("simple_cases", 1)
	} else {
		ks.StrategyClass = "org.apache.cassandra.locator.NetworkTopologyStrategy"
		ks.StrategyOptions["class"] = ks.StrategyClass
		for dc, rf := range cfg.dcrf {
			ks.StrategyOptions[dc] = fmt.Sprint(rf)
		}
		c.Add("nts_cases", 1)
	}
	expected := func(i int) (exp []*cqlref.Node, ok bool) {
		if cfg.simple {
			return ring.SimpleReplicas(i, cfg.rf), true
		}
		a := ring.NTSReplicas3x(i, cfg.dcrf)
		b := ring.NTSReplicas2x(i, cfg.dcrf)
		if !sameSet(a, b) || (len(a) > 0 && a[0] != b[0]) {
			return a, false
		}
		return a, true
	}
	wit := func(extra string) map[string]interface{} {
		return map[string]interface{}{"config": cfg.String(), "detail": extra}
	}
	class := "nts"
	if cfg.simple {
		class = "simple"
	}
	vn := "single-token"
	for _, n := range cfg.nodes {
		if len(n.toks) > 1 {
			vn = "vnodes"
		}
	}
	var rmap []gocql.VerifReplicas
	var strategy bool
	var err error
	func() {
		defer func() {
			if r := recover(); r != nil {
				msg := fmt.Sprint(r)
				k := "other"
				switch {
				case strings.Contains(msg, "token map different size"):
					k = "token-map-size"
				case strings.Contains(msg, "replica overflow"):
					k = "replica-overflow"
				case strings.Contains(msg, "no replicas for token"):
					k = "no-replicas"
				case strings.Contains(msg, "first replica is not the primary"):
					k = "first-not-primary"
				}
				c.Violation(fmt.Sprintf("C10:%s:panic:%s", class, k), "computing the replica map panicked: "+msg, wit(msg))
				err = fmt.Errorf("panic")
			}
		}()
		rmap, strategy, err = gocql.VerifReplicaMap(ks, cfg.partitioner, hosts)
	}()
	if err != nil {
		return
	}
	if !strategy {
		c.Add("no_strategy", 1)
		return
	}
	got := map[string][]string{}
	for _, e := range rmap {
		var ids []string
		for _, h := range e.Hosts {
			if h == nil {
				ids = append(ids, "<nil>")
			} else {
				ids = append(ids, h.HostID())
			}
		}
		got[e.Token] = ids
	}
	nodesN := len(cfg.nodes)
	for i := 0; i < ring.Len(); i++ {
		tok := c10tokStr(cfg.partitioner, ring.Token(i).Int64())
		exp, ok := expected(i)
		if !ok {
			c.Inconclusive("oracle-disagreement", "the two NetworkTopologyStrategy formulations disagree on "+cfg.String())
			continue
		}
		ids, present := got[tok]
		c.Add("ring_entries_checked", 1)
		if !present {
			// gocql leaves out ranges whose owner's DC holds no replicas; lookups then fall through to the next entry (checked below)
			continue
		}
		if bad := c10compare(cfg.simple, ids, exp, ring.Owner(i), nodesN, cfg); bad != "" {
			c.Violation(fmt.Sprintf("C10:%s:%s:%s", class, strings.SplitN(bad, ":", 2)[0], vn), "replica list for ring token differs from Cassandra's placement: "+bad, wit(fmt.Sprintf("token %s: driver %v, Cassandra %v", tok, ids, nodeIDs(exp))))
		}
	}
	// lookups through the token-aware policy (exercises replicasFor / wrap-around)
	// (with ShuffleReplicas the order in which replicas are *offered* is random by design; the placement the policy
	// keeps is not, and routing queries must not disturb it)
	shuffle := runner.H(cfg.String(), "shuffle")%3 == 0
	pol := gocql.TokenAwareHostPolicy(gocql.RoundRobinHostPolicy())
	if shuffle {
		pol = gocql.TokenAwareHostPolicy(gocql.RoundRobinHostPolicy(), gocql.ShuffleReplicas())
		c.Add("policies_with_shuffled_replicas", 1)
	}
	gocql.VerifInitTokenAware(pol, "ks", func(string) (*gocql.KeyspaceMetadata, error) { return ks, nil })
	ok := true
	downHost := -1
	func() {
		defer func() {
			if r := recover(); r != nil {
				ok = false // same panic as above, already reported
			}
		}()
		// the replica map has to be right whatever order the session learns things in:
		// hosts / partitioner / keyspace in any order, nodes joining one by one later,
		// nodes leaving and coming back
		part := "org.apache.cassandra.dht." + cfg.partitioner
		slowMeta := int32(0)
		failMeta := int32(0)
		gocql.VerifInitTokenAware(pol, "ks", func(string) (*gocql.KeyspaceMetadata, error) {
			if atomic.LoadInt32(&slowMeta) == 1 {
				time.Sleep(150 * time.Microsecond) // the schema query a KeyspaceChanged has to wait for
			}
			if atomic.LoadInt32(&failMeta) == 1 {
				return nil, fmt.Errorf("keyspace description not available (control connection down)")
			}
			return ks, nil
		})
		switch order := int(runner.H(cfg.String()) % 9); order {
		case 8:
			// a node is reported down (and stays down for the lookups below): that changes who is asked, not where
			// Cassandra keeps the data - the node still owns its ranges and is still a replica of the others'
			pol.SetPartitioner(part)
			for _, h := range hosts {
				pol.AddHost(h)
			}
			pol.KeyspaceChanged(gocql.KeyspaceUpdateEvent{Keyspace: "ks"})
			downHost = int(runner.H(cfg.String(), "down") % uint64(len(hosts)))
			gocql.VerifSetHostState(hosts[downHost], false)
			pol.HostDown(hosts[downHost])
			c.Add("policy_node_down_during_lookups", 1)
		case 7:
			// the keyspace description cannot be read (control connection being re-established) while the ring changes:
			// until it can be read again the policy has no placement for the keyspace - it may answer with the owner of the
			// range alone, but not with the placement of the ring that no longer exists
			if len(hosts) < 2 {
				for _, h := range hosts {
					pol.AddHost(h)
				}
				pol.SetPartitioner(part)
				pol.KeyspaceChanged(gocql.KeyspaceUpdateEvent{Keyspace: "ks"})
				break
			}
			pol.SetPartitioner(part)
			cut := 1 + len(hosts)/2
			if cut >= len(hosts) {
				cut = len(hosts) - 1
			}
			for _, h := range hosts[:cut] {
				pol.AddHost(h)
			}
			pol.KeyspaceChanged(gocql.KeyspaceUpdateEvent{Keyspace: "ks"})
			atomic.StoreInt32(&failMeta, 1)
			for _, h := range hosts[cut:] {
				pol.AddHost(h)
			}
			if len(hosts)%3 == 0 {
				// ... and a node leaves and comes back meanwhile
				pol.RemoveHost(hosts[0])
				pol.AddHost(hosts[0])
			}
			c.Add("policy_ring_change_without_keyspace_description", 1)
			for _, p := range probes {
				i := ring.Index(big.NewInt(p))
				exp, okx := expected(i)
				if !okx {
					continue
				}
				hs, _ := gocql.VerifTokenAwareReplicas(pol, "ks", c10tokStr(cfg.partitioner, p))
				var ids []string
				for _, h := range hs {
					ids = append(ids, h.HostID())
				}
				c.Add("lookups_without_keyspace_description", 1)
				if len(ids) > 0 && !(len(ids) == 1 && ids[0] == ring.Owner(i).ID) {
					if bad := c10compare(cfg.simple, ids, exp, ring.Owner(i), nodesN, cfg); bad != "" {
						c.Violation(fmt.Sprintf("C10:%s:stale-placement:%s:%s", class, strings.SplitN(bad, ":", 2)[0], vn), "after the ring changed while the keyspace could not be described, the replicas kept for a token are neither Cassandra's placement on the current ring nor absent: "+bad, wit(fmt.Sprintf("lookup %d: driver %v, Cassandra %v (owner %s)", p, ids, nodeIDs(exp), ring.Owner(i).ID)))
					}
				}
				if key := cfg.keyFor(p); key != nil {
					seq, _, _ := drain(pol.Pick(gocql.VerifNewQuery("ks", key)), 4*len(hosts)+8)
					if len(seq) > 0 && seq[0].HostID() != ring.Owner(i).ID {
						c.Violation(fmt.Sprintf("C10:%s:stale-placement:pick:%s", class, vn), fmt.Sprintf("after the ring changed while the keyspace could not be described, the policy offers %s first for a key whose range is owned by %s", seq[0].HostID(), ring.Owner(i).ID), wit(fmt.Sprintf("routing key %x (token %d)", key, p)))
					}
				}
			}
			// the description is readable again and a schema event arrives: the placement is the current ring's
			atomic.StoreInt32(&failMeta, 0)
			pol.KeyspaceChanged(gocql.KeyspaceUpdateEvent{Keyspace: "ks"})
		case 5:
			// a node that is not part of this ring (the only member of a rack of its own) was known and has been
			// removed again: what is left must be exactly this ring's placement
			var maxTok int64
			for _, n := range cfg.nodes {
				for _, t := range n.toks {
					if t > maxTok {
						maxTok = t
					}
				}
			}
			extra := gocql.VerifNewHostInfo("extra", []byte{10, 9, 9, 9}, 9042, cfg.nodes[0].dc, "rack-of-its-own", []string{c10tokStr(cfg.partitioner, maxTok+12345), c10tokStr(cfg.partitioner, maxTok+999)}, true)
			pol.SetPartitioner(part)
			for k, h := range hosts {
				pol.AddHost(h)
				if k == len(hosts)/2 {
					pol.AddHost(extra)
					pol.KeyspaceChanged(gocql.KeyspaceUpdateEvent{Keyspace: "ks"})
				}
			}
			pol.RemoveHost(extra)
			c.Add("policy_host_removed", 1)
		case 6:
			// a schema event (KeyspaceChanged, waiting for the keyspace description) overlaps a ring change
			pol.SetPartitioner(part)
			for _, h := range hosts[:len(hosts)-1] {
				pol.AddHost(h)
			}
			atomic.StoreInt32(&slowMeta, 1)
			var wg sync.WaitGroup
			wg.Add(2)
			go func() { defer wg.Done(); pol.KeyspaceChanged(gocql.KeyspaceUpdateEvent{Keyspace: "ks"}) }()
			go func() {
				defer wg.Done()
				if len(hosts)%2 == 0 {
					time.Sleep(50 * time.Microsecond)
				}
				pol.AddHost(hosts[len(hosts)-1])
			}()
			wg.Wait()
			atomic.StoreInt32(&slowMeta, 0)
			c.Add("policy_keyspace_change_overlaps_ring_change", 1)
		case 0:
			for _, h := range hosts {
				pol.AddHost(h)
			}
			pol.SetPartitioner(part)
			pol.KeyspaceChanged(gocql.KeyspaceUpdateEvent{Keyspace: "ks"})
		case 1:
			pol.SetPartitioner(part)
			pol.KeyspaceChanged(gocql.KeyspaceUpdateEvent{Keyspace: "ks"})
			for _, h := range hosts {
				pol.AddHost(h)
			}
		case 2:
			pol.SetPartitioner(part)
			for i, h := range hosts {
				pol.AddHost(h)
				if i == 0 {
					pol.KeyspaceChanged(gocql.KeyspaceUpdateEvent{Keyspace: "ks"})
				}
			}
		case 3:
			pol.SetPartitioner(part)
			pol.KeyspaceChanged(gocql.KeyspaceUpdateEvent{Keyspace: "ks"})
			for _, h := range hosts {
				pol.AddHost(h)
			}
			// a node leaves and rejoins
			pol.RemoveHost(hosts[len(hosts)/2])
			pol.AddHost(hosts[len(hosts)/2])
		default:
			type adder interface{ AddHosts([]*gocql.HostInfo) }
			pol.SetPartitioner(part)
			if a, ok := pol.(adder); ok && len(hosts) > 1 {
				a.AddHosts(hosts[:len(hosts)-1])
				pol.AddHost(hosts[len(hosts)-1])
			} else {
				for _, h := range hosts {
					pol.AddHost(h)
				}
			}
		}
		c.Add("policy_init_orders", 1)
	}()
	if !ok {
		return
	}
	lookups := func(when string) bool {
		for _, p := range probes {
			i := ring.Index(big.NewInt(p))
			exp, okx := expected(i)
			if !okx {
				continue
			}
			hs, err := gocql.VerifTokenAwareReplicas(pol, "ks", c10tokStr(cfg.partitioner, p))
			if err != nil {
				c.Broken(err.Error())
				return false
			}
			var ids []string
			for _, h := range hs {
				ids = append(ids, h.HostID())
			}
			c.Add("lookups", 1)
			if len(exp) == 0 && len(ids) == 0 {
				continue
			}
			if bad := c10compare(cfg.simple, ids, exp, ring.Owner(i), nodesN, cfg); bad != "" {
				pos := "between"
				switch {
				case p < ring.Token(0).Int64():
					pos = "below-min"
				case p > ring.Token(ring.Len()-1).Int64():
					pos = "above-max"
				case ring.Token(i).Int64() == p:
					pos = "equal"
				}
				c.Violation(fmt.Sprintf("C10:%s:lookup%s:%s:%s:%s", class, when, strings.SplitN(bad, ":", 2)[0], pos, vn), "replicas looked up for a token differ from Cassandra's placement: "+bad, wit(fmt.Sprintf("lookup %d: driver %v, Cassandra %v", p, ids, nodeIDs(exp))))
			}
		}
		return true
	}
	if !lookups("") {
		return
	}
	if downHost >= 0 {
		gocql.VerifSetHostState(hosts[downHost], true)
		pol.HostUp(hosts[downHost])
	}
	// the same lookups through the policy's own Pick, with a routing key that hashes to the probe
	// (all hosts are up and the fallback has one tier, so the plan starts with the replica list)
	for _, p := range probes {
		key := cfg.keyFor(p)
		if key == nil {
			continue
		}
		i := ring.Index(big.NewInt(p))
		exp, okx := expected(i)
		if !okx || len(exp) == 0 {
			continue
		}
		var seq []*gocql.HostInfo
		var overflow bool
		panicked := ""
		func() {
			defer func() {
				if r := recover(); r != nil {
					panicked = fmt.Sprint(r)
				}
			}()
			seq, _, overflow = drain(pol.Pick(gocql.VerifNewQuery("ks", key)), 4*len(hosts)+8)
		}()
		c.Add("picks", 1)
		pos := "between"
		switch {
		case p < ring.Token(0).Int64():
			pos = "below-min"
		case p > ring.Token(ring.Len()-1).Int64():
			pos = "above-max"
		case ring.Token(i).Int64() == p:
			pos = "equal"
		}
		if panicked != "" {
			c.Violation(fmt.Sprintf("C10:%s:pick:panic:%s:%s", class, pos, vn), "the token-aware policy panicked looking up the replicas of a token: "+panicked, wit(fmt.Sprintf("routing key %x (token %d)", key, p)))
			continue
		}
		if overflow {
			continue // C11's business
		}
		if len(seq) > len(exp) {
			seq = seq[:len(exp)]
		}
		var ids []string
		for _, h := range seq {
			ids = append(ids, h.HostID())
		}
		if shuffle {
			// offered in a random order: the same nodes, each once
			got, want := append([]string{}, ids...), nodeIDs(exp)
			sort.Strings(got)
			sort.Strings(want)
			if strings.Join(got, ",") != strings.Join(want, ",") {
				c.Violation(fmt.Sprintf("C10:%s:pick:shuffled:wrong-set:%s:%s", class, pos, vn), fmt.Sprintf("the hosts the token-aware policy (shuffling replicas) offers first for a routing key are not Cassandra's replicas of its token: offered %v, Cassandra %v", ids, nodeIDs(exp)), wit(fmt.Sprintf("routing key %x (token %d)", key, p)))
			}
			continue
		}
		if bad := c10compare(cfg.simple, ids, exp, ring.Owner(i), nodesN, cfg); bad != "" {
			c.Violation(fmt.Sprintf("C10:%s:pick:%s:%s:%s", class, strings.SplitN(bad, ":", 2)[0], pos, vn), "the hosts the token-aware policy offers first for a routing key are not Cassandra's replicas of its token: "+bad, wit(fmt.Sprintf("routing key %x (token %d): offered first %v, Cassandra %v", key, p, ids, nodeIDs(exp))))
		}
	}
	if shuffle {
		// what the policy keeps is still the placement, owner first, after all that routing
		if !lookups(":after-routing") {
			return
		}
	}
	// a second keyspace in the same policy (learned through a schema event), replicated with the *other* strategy and,
	// where possible, the same numbers: each keyspace has its own placement
	cfg2 := *cfg
	dcs := map[string]bool{}
	for _, n := range cfg.nodes {
		dcs[n.dc] = true
	}
	if cfg.simple {
		cfg2.simple, cfg2.dcrf = false, map[string]int{}
		for dc := range dcs {
			cfg2.dcrf[dc] = cfg.rf
		}
	} else {
		n := -1
		for dc := range dcs {
			if n == -1 {
				n = cfg.dcrf[dc]
			} else if cfg.dcrf[dc] != n {
				n = -2
			}
		}
		if n < 0 {
			n = 1 + len(cfg.nodes)%3
		}
		cfg2.simple, cfg2.rf, cfg2.dcrf = true, n, nil
	}
	ks2 := &gocql.KeyspaceMetadata{Name: "ks2", StrategyOptions: map[string]interface{}{}}
	if cfg2.simple {
		ks2.StrategyClass = "org.apache.cassandra.locator.SimpleStrategy"
		ks2.StrategyOptions["replication_factor"] = fmt.Sprint(cfg2.rf)
	} else {
		ks2.StrategyClass = "org.apache.cassandra.locator.NetworkTopologyStrategy"
		ks2.StrategyOptions["class"] = ks2.StrategyClass
		for dc, rf := range cfg2.dcrf {
			ks2.StrategyOptions[dc] = fmt.Sprint(rf)
		}
	}
	gocql.VerifInitTokenAware(pol, "ks", func(name string) (*gocql.KeyspaceMetadata, error) {
		if name == "ks2" {
			return ks2, nil
		}
		return ks, nil
	})
	panicked2 := false
	func() {
		defer func() {
			if r := recover(); r != nil {
				panicked2 = true
				c.Violation(fmt.Sprintf("C10:%s:second-keyspace:panic", class), fmt.Sprintf("learning a second keyspace panicked: %v", r), wit(cfg2.String()))
			}
		}()
		pol.KeyspaceChanged(gocql.KeyspaceUpdateEvent{Keyspace: "ks2"})
	}()
	if panicked2 {
		return
	}
	c.Add("second_keyspaces", 1)
	for _, p := range probes {
		i := ring.Index(big.NewInt(p))
		var exp2 []*cqlref.Node
		if cfg2.simple {
			exp2 = ring.SimpleReplicas(i, cfg2.rf)
		} else {
			exp2 = ring.NTSReplicas3x(i, cfg2.dcrf)
			if b := ring.NTSReplicas2x(i, cfg2.dcrf); !sameSet(exp2, b) || (len(exp2) > 0 && exp2[0] != b[0]) {
				continue
			}
		}
		for _, kn := range []string{"ks2", "ks"} {
			hs, err := gocql.VerifTokenAwareReplicas(pol, kn, c10tokStr(cfg.partitioner, p))
			if err != nil {
				c.Broken(err.Error())
				return
			}
			var ids []string
			for _, h := range hs {
				ids = append(ids, h.HostID())
			}
			want, wcfg := exp2, &cfg2
			if kn == "ks" {
				e1, ok1 := expected(i)
				if !ok1 {
					continue
				}
				want, wcfg = e1, cfg
			}
			if len(want) == 0 && len(ids) == 0 {
				continue
			}
			if bad := c10compare(wcfg.simple, ids, want, ring.Owner(i), nodesN, wcfg); bad != "" {
				c.Violation(fmt.Sprintf("C10:%s:two-keyspaces:%s:%s", class, strings.SplitN(bad, ":", 2)[0], vn), fmt.Sprintf("with two keyspaces in the policy, the replicas of keyspace %s differ from Cassandra's placement: %s", kn, bad), wit(fmt.Sprintf("keyspace %s (%s), lookup %d: driver %v, Cassandra %v", kn, wcfg.String(), p, ids, nodeIDs(want))))
				return
			}
		}
	}
}

func nodeIDs(ns []*cqlref.Node) []string {
	var s []string
	for _, n := range ns {
		s = append(s, n.ID)
	}
	return s
}

func sameSet(a, b []*cqlref.Node) bool {
	if len(a) != len(b) {
		return false
	}
	m := map[*cqlref.Node]bool{}
	for _, x := range a {
		m[x] = true
	}
	for _, x := range b {
		if !m[x] {
			return false
		}
	}
	return len(m) == len(a)
}

func c10compare(simple bool, ids []string, exp []*cqlref.Node, owner *cqlref.Node, nodes int, cfg *c10cfg) string {
	seen := map[string]bool{}
	for _, id := range ids {
		if id == "<nil>" {
			return "nil-host: replica list contains a nil host"
		}
		if seen[id] {
			return fmt.Sprintf("duplicate-replica: node %s listed twice", id)
		}
		seen[id] = true
	}
	if len(ids) > nodes {
		return "too-many: more replicas than nodes"
	}
	want := nodeIDs(exp)
	if simple {
		if strings.Join(ids, ",") != strings.Join(want, ",") {
			return "wrong-sequence: SimpleStrategy replicas differ"
		}
		return ""
	}
	ws := map[string]bool{}
	for _, w := range want {
		ws[w] = true
	}
	if len(ws) != len(seen) {
		return "wrong-set: different number of replicas"
	}
	for id := range seen {
		if !ws[id] {
			return "wrong-set: node " + id + " is not a replica in Cassandra"
		}
	}
	// owner first whenever the owner's DC holds replicas
	if rf := cfg.dcrf[owner.DC]; rf > 0 && len(ids) > 0 && ids[0] != owner.ID {
		return "owner-not-first: the range owner is not the first replica"
	}
	return ""
}

// ---- exhaustive small box ---------------------------------------------------------------

type c10boxParams struct{ nodes, toks, dcs, racks int }

var c10boxes = func() []c10boxParams {
	var out []c10boxParams
	for n := 1; n <= 4; n++ {
		for t := 1; t <= 2; t++ {
			for d := 1; d <= 2; d++ {
				for r := 1; r <= 2; r++ {
					out = append(out, c10boxParams{n, t, d, r})
				}
			}
		}
	}
	return out
}()

// every assignment of (dc, rack) to nodes, every interleaving class of tokens (a fixed set of
// permutations derived from the case index), every rf vector up to 3
func c10boxCount() int { return len(c10boxes) * 8 }

func c10box(c *runner.Ctx, i int) {
	bp := c10boxes[i%len(c10boxes)]
	variant := i / len(c10boxes)
	r := rand.New(rand.NewSource(int64(variant)*7919 + int64(i)))
	// enumerate all dc/rack assignments for this box
	slots := bp.dcs * bp.racks
	total := 1
	for k := 0; k < bp.nodes; k++ {
		total *= slots
	}
	for a := 0; a < total; a++ {
		cfg := &c10cfg{partitioner: "Murmur3Partitioner"}
		if variant%2 == 1 {
			cfg.partitioner = "OrderedPartitioner" // token = key bytes: lookups can also go through Pick
		}
		x := a
		// token layout: permutation of positions determined by variant
		positions := r.Perm(bp.nodes * bp.toks)
		for k := 0; k < bp.nodes; k++ {
			s := x % slots
			x /= slots
			n := c10node{id: fmt.Sprintf("n%d", k), dc: fmt.Sprintf("dc%d", s/bp.racks), rack: fmt.Sprintf("r%d", s%bp.racks)}
			for t := 0; t < bp.toks; t++ {
				n.toks = append(n.toks, int64(positions[k*bp.toks+t]*10))
			}
			cfg.nodes = append(cfg.nodes, n)
		}
		for rf0 := 0; rf0 <= 3; rf0++ {
			// simple
			sc := *cfg
			sc.simple, sc.rf = true, rf0
			c.Eval(runner.H(sc.String()), bp.nodes > 1 && rf0 >= 1)
			c10check(c, &sc, []int64{-5, 0, 5, int64(bp.nodes*bp.toks*10 + 5)})
			for rf1 := 0; rf1 <= 3; rf1++ {
				if bp.dcs == 1 && rf1 > 0 {
					continue
				}
				nc := *cfg
				nc.dcrf = map[string]int{"dc0": rf0}
				if bp.dcs == 2 {
					nc.dcrf["dc1"] = rf1
				}
				c.Eval(runner.H(nc.String()), bp.nodes > 1 && rf0+rf1 >= 1)
				c10check(c, &nc, []int64{-5, 0, 5, int64(bp.nodes*bp.toks*10 + 5)})
			}
		}
	}
	c.Add("box_enumerated", 1)
}

// ---- random rings ------------------------------------------------------------------------

func c10random(c *runner.Ctx, i int) {
	r := c.Rng
	parts := []string{"Murmur3Partitioner", "Murmur3Partitioner", "RandomPartitioner", "OrderedPartitioner"}
	cfg := &c10cfg{partitioner: parts[r.Intn(len(parts))]}
	nn := 1 + r.Intn(12)
	nd := 1 + r.Intn(3)
	nr := 1 + r.Intn(4)
	nt := 1 + r.Intn(8)
	if r.Intn(3) == 0 {
		nt = 1
	}
	used := map[int64]bool{}
	adjacent := r.Intn(2) == 0
	hashed := cfg.partitioner == "Murmur3Partitioner" && r.Intn(2) == 0
	if hashed {
		cfg.keys = map[int64][]byte{}
		c.Add("hashed_murmur_rings", 1)
	}
	newKey := func() (int64, []byte) {
		for {
			k := make([]byte, 1+r.Intn(24))
			r.Read(k)
			t := cqlref.Murmur3Token(k)
			if _, dup := cfg.keys[t]; !dup && t > -1<<62 && t < 1<<62 {
				cfg.keys[t] = k
				return t, k
			}
		}
	}
	next := int64(0)
	for k := 0; k < nn; k++ {
		n := c10node{id: fmt.Sprintf("n%d", k), dc: fmt.Sprintf("dc%d", r.Intn(nd)), rack: fmt.Sprintf("r%d", r.Intn(1+r.Intn(nr)))}
		for t := 0; t < nt; t++ {
			var tok int64
			if hashed {
				tok, _ = newKey()
			} else if adjacent {
				next += int64(1 + r.Intn(3))
				tok = next
			} else {
				for {
					tok = int64(r.Intn(100000)) - 50000
					if !used[tok] {
						break
					}
				}
			}
			used[tok] = true
			n.toks = append(n.toks, tok)
		}
		cfg.nodes = append(cfg.nodes, n)
	}
	if nt > 1 {
		c.Add("vnode_rings", 1)
	}
	if r.Intn(3) == 0 {
		cfg.simple = true
		cfg.rf = r.Intn(7)
	} else {
		cfg.dcrf = map[string]int{}
		for d := 0; d < nd; d++ {
			if r.Intn(5) != 0 {
				cfg.dcrf[fmt.Sprintf("dc%d", d)] = r.Intn(6)
			}
		}
		if r.Intn(4) == 0 {
			cfg.dcrf["dcX"] = 1 + r.Intn(3) // a DC the ring does not (yet) contain
			c.Add("unknown_dc_keyspaces", 1)
		}
	}
	var probes []int64
	var all []int64
	for t := range used {
		all = append(all, t)
	}
	sort.Slice(all, func(a, b int) bool { return all[a] < all[b] })
	probes = append(probes, all[0]-1, all[0], all[len(all)-1], all[len(all)-1]+1, all[0]-1000, all[len(all)-1]+1000)
	for k := 0; k < 6; k++ {
		t := all[r.Intn(len(all))]
		probes = append(probes, t, t+1, t-1)
	}
	if hashed {
		for k := 0; k < 8; k++ {
			t, _ := newKey() // tokens between ring tokens, with a known key
			probes = append(probes, t)
		}
	}
	rfsum := cfg.rf
	for _, v := range cfg.dcrf {
		rfsum += v
	}
	c.Eval(runner.H(cfg.String()), nn > 1 && rfsum >= 1)
	if c.WantSample() {
		c.Sample(cfg.String())
	}
	c10check(c, cfg, probes)
}
