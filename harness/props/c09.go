package props

import (
	"fmt"
	"math/big"
	"math/rand"
	"sort"

	"github.com/gocql/gocql"

	"verifharness/cqlref"
	"verifharness/runner"
)

// C09: partition tokens equal the ones Cassandra computes (Murmur3 incl. signed tail bytes,
// Random = abs(signed md5), Ordered = raw bytes unsigned order), token strings order like
// Cassandra orders them.  Routing-key construction from bound values is checked in the
// session-level phase (see c09_session.go).

func init() {
	runner.Register(&runner.Prop{
		ID: "C09", Level: "exploration",
		Technique: "runtime oracle: differential check of the driver's partitioners against an independent implementation of Cassandra's token functions; routing keys observed through a real session against a scripted node",
		Rule: "case = (partitioner, key bytes) with keys of every length 0..96 x byte patterns (zero, 0xff, single high byte at each position, random) plus random keys, and pairs of token strings; " +
			"distinct = hash(partitioner, key); non-trivial = key has a non-empty tail or a byte >= 0x80 (the classes where Cassandra's signed-byte murmur variant differs from reference MurmurHash3)",
		Assumptions: []string{"cqlref.Murmur3Token / RandomToken reproduce Cassandra (self-tested against published DataStax/Cassandra vectors for every tail length)"},
		Phases: func(tier string) []runner.Phase {
			n := 60000
			if tier == "thorough" {
				n = 3000000
			}
			ph := []runner.Phase{
				{Name: "hash", Variant: "plain", Cases: n, Setup: c09setup, Run: c09hash, Required: []string{"murmur_highbyte_tail", "random_negative_md5", "token_pairs"}},
				{Name: "hash-appengine", Variant: "appengine", Cases: n / 4, Setup: c09setup, Run: c09hash},
				{Name: "hash-checkptr", Variant: "race", Cases: n / 8, Setup: c09setup, Run: c09hash},
				{Name: "routing", Variant: "race", Cases: n / 40, Setup: c09setup, Run: c09routing, Required: []string{"routing_keys", "composite_keys", "keys_not_at_leading_markers", "rebinds", "held_keys_rechecked", "statements_without_bound_partition_key", "named_values_out_of_marker_order", "composite_keys_with_an_empty_component", "routing_keys_from_schema_tables"}},
			}
			return ph
		},
	})
}

func c09setup(c *runner.Ctx) {
	if err := cqlref.SelfTest(); err != nil {
		panic("cqlref self-test failed: " + err.Error())
	}
}

func c09keys(r *rand.Rand, i int) [][]byte {
	var keys [][]byte
	// systematic part: length = i % 97, patterns
	n := i % 97
	zero := make([]byte, n)
	ff := make([]byte, n)
	for j := range ff {
		ff[j] = 0xff
	}
	keys = append(keys, zero, ff)
	if n > 0 {
		pos := (i / 97) % n
		hb := make([]byte, n)
		hb[pos] = byte(0x80 + r.Intn(0x80))
		keys = append(keys, hb)
		rb := make([]byte, n)
		r.Read(rb)
		rb[n-1] |= 0x80
		keys = append(keys, rb)
	}
	for k := 0; k < 12; k++ {
		l := r.Intn(200)
		if r.Intn(10) == 0 {
			l = r.Intn(5000)
		}
		b := make([]byte, l)
		r.Read(b)
		keys = append(keys, b)
	}
	return keys
}

func c09hash(c *runner.Ctx, i int) {
	r := c.Rng
	for _, key := range c09keys(r, i) {
		high := false
		for _, b := range key {
			if b >= 0x80 {
				high = true
			}
		}
		tail := len(key)%16 != 0
		nontrivial := tail || high
		// Murmur3
		got, err := gocql.VerifPartitionerHash("Murmur3Partitioner", key)
		want := fmt.Sprint(cqlref.Murmur3Token(key))
		c.Eval(runner.H("m3", key), nontrivial)
		if tail && high {
			c.Add("murmur_highbyte_tail", 1)
		}
		if err != nil || got != want {
			c.Violation(fmt.Sprintf("C09:murmur3:len%%16=%d:highbyte=%v", len(key)%16, high), fmt.Sprintf("Murmur3 token %s, Cassandra computes %s (%v)", got, want, err), map[string]interface{}{"key_hex": fmt.Sprintf("%x", key)})
		}
		// the same bytes as a sub-slice that does not start on a word boundary (a key cut out of a larger buffer, a
		// []byte bound to a blob / text key): the token depends on the bytes, not on where they sit in memory
		if len(key) > 0 {
			off := 1 + (i+len(key))%15
			buf := make([]byte, len(key)+32)
			copy(buf[off:], key)
			sub := buf[off : off+len(key)]
			got2, err2 := gocql.VerifPartitionerHash("Murmur3Partitioner", sub)
			c.Add("unaligned_keys", 1)
			if err2 != nil || got2 != want {
				c.Violation(fmt.Sprintf("C09:murmur3:unaligned:len%%16=%d:highbyte=%v", len(key)%16, high), fmt.Sprintf("Murmur3 token %s for the key at offset %d of a buffer, Cassandra computes %s (%v)", got2, off, want, err2), map[string]interface{}{"key_hex": fmt.Sprintf("%x", key), "offset_in_buffer": off})
			}
		}
		// Random
		got, err = gocql.VerifPartitionerHash("RandomPartitioner", key)
		rt := cqlref.RandomToken(key)
		c.Eval(runner.H("rnd", key), nontrivial)
		neg := cqlref.MD5Negative(key)
		if neg {
			c.Add("random_negative_md5", 1)
		}
		if err != nil || got != rt.String() {
			c.Violation(fmt.Sprintf("C09:random:md5negative=%v", neg), fmt.Sprintf("Random token %s, Cassandra computes %s (%v)", got, rt, err), map[string]interface{}{"key_hex": fmt.Sprintf("%x", key)})
		}
		// Ordered: token is the key itself
		got, err = gocql.VerifPartitionerHash("OrderedPartitioner", key)
		c.Eval(runner.H("ord", key), nontrivial)
		if err != nil || got != string(key) {
			c.Violation("C09:ordered:token-is-not-key", fmt.Sprintf("ordered token %x for key %x (%v)", got, key, err), map[string]interface{}{"key_hex": fmt.Sprintf("%x", key)})
		}
		if c.WantSample() && len(key) > 3 && len(key) < 40 {
			c.Sample(map[string]interface{}{"key_hex": fmt.Sprintf("%x", key), "murmur3": want, "random": rt.String()})
		}
	}
	// ordering of pairs
	for k := 0; k < 8; k++ {
		a, b := c09key(r), c09key(r)
		if k%3 == 0 {
			// shared prefix, differ by a high byte
			b = append(append([]byte{}, a...), byte(r.Intn(256)))
			if len(a) > 0 && k%2 == 0 {
				b = append([]byte{}, a...)
				b[r.Intn(len(b))] ^= 0x80
			}
		}
		c.Add("token_pairs", 1)
		c.Eval(runner.H("pair", a, b), true)
		less, err := gocql.VerifHashLess("OrderedPartitioner", a, b)
		if err != nil || less != cqlref.OrderedLess(a, b) {
			c.Violation("C09:ordered:order", fmt.Sprintf("ordered tokens compare %v, Cassandra (unsigned bytes) %v", less, cqlref.OrderedLess(a, b)), map[string]interface{}{"a": fmt.Sprintf("%x", a), "b": fmt.Sprintf("%x", b)})
		}
		less, err = gocql.VerifHashLess("Murmur3Partitioner", a, b)
		if want := cqlref.Murmur3Token(a) < cqlref.Murmur3Token(b); err != nil || less != want {
			c.Violation("C09:murmur3:order", fmt.Sprintf("murmur3 tokens of two keys compare %v, want %v", less, want), map[string]interface{}{"a": fmt.Sprintf("%x", a), "b": fmt.Sprintf("%x", b)})
		}
		less, err = gocql.VerifHashLess("RandomPartitioner", a, b)
		if want := cqlref.RandomToken(a).Cmp(cqlref.RandomToken(b)) < 0; err != nil || less != want {
			c.Violation("C09:random:order", fmt.Sprintf("random tokens of two keys compare %v, want %v", less, want), map[string]interface{}{"a": fmt.Sprintf("%x", a), "b": fmt.Sprintf("%x", b)})
		}
		// token strings as reported by the cluster
		m1, m2 := c09int64(r), c09int64(r)
		if k%4 == 0 {
			m2 = m1 + int64(r.Intn(3)-1)
		}
		less, err = gocql.VerifTokenLess("Murmur3Partitioner", fmt.Sprint(m1), fmt.Sprint(m2))
		if err != nil || less != (m1 < m2) {
			c.Violation("C09:murmur3:token-string-order", fmt.Sprintf("token strings %d < %d reported %v", m1, m2, less), nil)
		}
		r1, r2 := c09rand127(r), c09rand127(r)
		if k%4 == 1 {
			r2 = new(big.Int).Add(r1, big.NewInt(int64(r.Intn(3)-1)))
			if r2.Sign() < 0 {
				r2.SetInt64(0)
			}
		}
		less, err = gocql.VerifTokenLess("RandomPartitioner", r1.String(), r2.String())
		if err != nil || less != (r1.Cmp(r2) < 0) {
			c.Violation("C09:random:token-string-order", fmt.Sprintf("token strings %s < %s reported %v", r1, r2, less), nil)
		}
	}
	// sorting a small ring of token strings must follow numeric order (what newTokenRing relies on)
	if i%16 == 0 {
		var hosts []*gocql.HostInfo
		var toks []int64
		for k := 0; k < 6; k++ {
			t := c09int64(r)
			toks = append(toks, t)
			hosts = append(hosts, gocql.VerifNewHostInfo(fmt.Sprintf("h%d", k), []byte{10, 0, 0, byte(k + 1)}, 9042, "dc", "r", []string{fmt.Sprint(t)}, true))
		}
		sorted := append([]int64{}, toks...)
		sort.Slice(sorted, func(a, b int) bool { return sorted[a] < sorted[b] })
		probe := c09int64(r)
		h, end, err := gocql.VerifRingLookup("Murmur3Partitioner", hosts, fmt.Sprint(probe))
		wantEnd := sorted[0]
		for _, s := range sorted {
			if s >= probe {
				wantEnd = s
				break
			}
		}
		if err != nil || h == nil || end != fmt.Sprint(wantEnd) {
			c.Violation("C09:murmur3:ring-lookup", fmt.Sprintf("token %d resolves to range end %s, want %d (%v)", probe, end, wantEnd, err), map[string]interface{}{"ring": toks})
		}
		c.Add("ring_lookups", 1)
	}
}

func c09key(r *rand.Rand) []byte {
	b := make([]byte, r.Intn(40))
	r.Read(b)
	return b
}

func c09int64(r *rand.Rand) int64 {
	switch r.Intn(6) {
	case 0:
		return int64(r.Intn(5) - 2)
	case 1:
		return -1 << 63
	case 2:
		return 1<<63 - 1
	}
	return int64(r.Uint64())
}

func c09rand127(r *rand.Rand) *big.Int {
	max := new(big.Int).Lsh(big.NewInt(1), 127)
	switch r.Intn(5) {
	case 0:
		return big.NewInt(int64(r.Intn(3)))
	case 1:
		return max
	case 2:
		return new(big.Int).Sub(max, big.NewInt(int64(r.Intn(3))))
	}
	return new(big.Int).Rand(r, max)
}
