package props

import (
	"context"
	"errors"
	"fmt"
	"hash/fnv"
	"math/rand"
	"strings"
	"sync"
	"sync/atomic"
	"time"

	"github.com/gocql/gocql"

	"verifharness/cqlref"
	"verifharness/fakenode"
	"verifharness/memnet"
	"verifharness/perturb"
	"verifharness/runner"
)

// The echo workload: callers send unprepared statements "ECHO <unique token>" over one
// session; the scripted node echoes "<token>|<stream it arrived on>" (as a row or inside an
// ERROR frame) in a scripted order / with scripted lateness. C01 (routing), C06
// (exactly-one outcome, conservation, close) and C07 (wire stream) read its monitors.

type echoCfg struct {
	version           int
	callers           int
	perCaller         int
	timeout           time.Duration
	coalesce          time.Duration
	numConns          int
	pLate             int    // percent of requests answered after the driver's timeout
	pNever            int    // percent never answered until the end of the scenario
	pErrFrame         int    // percent answered with an ERROR frame instead of rows
	window            int    // answer in windows of this many requests ...
	windowMode        string // ... "reverse" or "shuffle" ("" = in order)
	pPreCancel        int    // percent of calls with an already-cancelled context
	pCancel           int    // percent of calls cancelled at a random later point
	pDeadline         int    // percent of calls with a context deadline
	pBadValue         int    // percent of calls whose frame cannot be built (prepared statement with an unmarshalable value)
	writeCutAt        int64  // driver-side write cut at this stream offset on the data connection (-1 = none)
	cutErrOnly        bool
	stallAt           int64         // driver-side writes block from this stream offset on until the write deadline (0 = none)
	stallMore         []int64       // further stall points on the same connection, each lasting one write deadline
	stallAtBoundary   bool          // ... and the stall begins between two Write calls (on a frame boundary of a coalesced batch)
	hugeAnswers       bool          // a few answers have a body of 1..4 MiB plus a bit, with other answers right behind them
	writeTimeout      time.Duration // ClusterConfig.WriteTimeout (0 = gocql's default)
	timeoutLimit      int64         // gocql.TimeoutLimit for this scenario (0 = gocql's default: off)
	nodeCloseAfter    int           // node closes the data connection mid-frame after this many answers (-1 = none)
	closeSessionAfter int           // Session.Close is called concurrently after this many completed calls (-1 = at the end)
	intensity         int
	reusePhase        int // sequential requests issued after the late answers were delivered
	bigFrames         bool
	padTokens         bool
	hugeFrames        bool
	pHoldIter         int  // percent of callers that read their row only a little later (other answers arrive meanwhile)
	pWrongVersion     int  // percent of answers whose header carries another protocol version (same header layout) than the connection's
	lateUndecodable   bool // late answers carry the compression flag although no compression was negotiated (the frame cannot be decoded)
	splitGapX         int  // the gap inside a split answer, in driver timeouts (0: one and a half)
	pSplit            int  // percent of answers that arrive in two pieces with a gap of 1.5 x the driver's timeout inside the body
	seed              int64
}

type echoCall struct {
	token   string
	outcome string
	err     string
	conn    string
}

type echoResult struct {
	outcomes               map[string]int
	mismatches             []string
	streamReuse            []string
	badFrames              []string
	dupTokens              []string
	lateDelivered          int64
	lateReused             int64
	never                  int64
	hits                   map[string]int64
	signature              uint64
	closeReturned          bool
	connsClosedBeforeClose int
	streamObs              *streamObs
	calls                  int64
	cluster                *fakenode.Cluster
	conservation           []string
	recvStalls             []string
	splits                 int64
	hugeSent               int64
	heldIters              int64
	wrongVersion           int64
	undecodable            int64
	logLines               []string // what the driver logged (through ClusterConfig.Logger)
	receiverSideRecord     bool     // the byte streams were recorded by the peer of a real socket, not by the transport itself
	afterClose             []string
	dataConns              []*fakenode.ServerConn
	wireProblems           []wireProblem
	byToken                map[string]string // token -> outcome class
	preCancelled           map[string]bool
	wireFrames             int64
	wireBytes              int64
	cutsInjected           int
	partialTails           int
	writes                 map[string]writeObs // token -> what the writer told exec
}

type writeObs struct {
	n, size int
	err     string
}

func tokenOf(frame []byte) string {
	i := strings.Index(string(frame), "ECHO ")
	if i < 0 {
		return ""
	}
	j := i + 5
	for j < len(frame) && (frame[j] == '_' || (frame[j] >= '0' && frame[j] <= '9') || (frame[j] >= 'a' && frame[j] <= 'z')) {
		j++
	}
	return string(frame[i+5 : j])
}

type wireProblem struct {
	key  string
	what string
}

// streamObs implements gocql.StreamObserver and counts starts / ends per stream context.
type streamObs struct {
	mu         sync.Mutex
	started    int64
	finished   int64
	aband      int64
	doubleEnd  []string
	endNoStart int64
	open       map[*streamCtx]bool
}

type streamCtx struct {
	o       *streamObs
	started int32
	ended   int32
}

func (o *streamObs) StreamContext(ctx context.Context) gocql.StreamObserverContext {
	return &streamCtx{o: o}
}
func (s *streamCtx) StreamStarted(gocql.ObservedStream) {
	atomic.AddInt32(&s.started, 1)
	s.o.mu.Lock()
	s.o.started++
	s.o.open[s] = true
	s.o.mu.Unlock()
}
func (s *streamCtx) end(kind string) {
	n := atomic.AddInt32(&s.ended, 1)
	s.o.mu.Lock()
	if kind == "finished" {
		s.o.finished++
	} else {
		s.o.aband++
	}
	if n > 1 && len(s.o.doubleEnd) < 10 {
		s.o.doubleEnd = append(s.o.doubleEnd, kind)
	}
	if atomic.LoadInt32(&s.started) == 0 {
		s.o.endNoStart++
	}
	delete(s.o.open, s)
	s.o.mu.Unlock()
}
func (s *streamCtx) StreamAbandoned(gocql.ObservedStream) { s.end("abandoned") }
func (s *streamCtx) StreamFinished(gocql.ObservedStream)  { s.end("finished") }

type echoNode struct {
	cfg           *echoCfg
	mu            sync.Mutex
	arrivals      map[string]int    // token -> arrivals
	where         map[string]string // token -> conn#stream
	window        map[*fakenode.ServerConn][]*fakenode.Req
	never         []*fakenode.Req
	answered      map[*fakenode.ServerConn]int
	late          map[string]time.Time // conn#stream -> when the late answer was written
	lateDelivered int64
	lateReused    int64
	closing       int32
	timers        int64
	dup           []string
	splits        int64
	hugeSent      int64
	wrongVersion  int64
	undecodable   int64
}

func h32(s string, salt int64) uint32 {
	h := fnv.New32a()
	fmt.Fprintf(h, "%d|%s", salt, s)
	return h.Sum32()
}

func (en *echoNode) answer(sc *fakenode.ServerConn, req *fakenode.Req, token string, late bool) {
	payload := fmt.Sprintf("%s|%d", token, req.Header.Stream)
	if en.cfg.bigFrames && h32(token, 7)%4 == 0 {
		payload += "|" + strings.Repeat("p", int(h32(token, 8)%40000))
	}
	if en.cfg.hugeAnswers && h32(token, 14)%24 == 0 {
		payload += "|" + strings.Repeat("h", int(1<<20*(1+h32(token, 15)%3)+h32(token, 16)%(1<<20)))
		atomic.AddInt64(&en.hugeSent, 1)
	}
	key := fmt.Sprintf("%s#%d#%d", sc.Node.IP, sc.Index, req.Header.Stream)
	en.mu.Lock()
	en.answered[sc]++
	n := en.answered[sc]
	if late {
		en.late[key] = time.Now()
	}
	en.mu.Unlock()
	if en.cfg.nodeCloseAfter >= 0 && n == en.cfg.nodeCloseAfter+1 && !sc.IsControl {
		// write half a frame, then drop the connection
		w := cqlref.BodyRows(sc.Version, &cqlref.RowsSpec{Meta: cqlref.Metadata{Global: true, ColCount: 1, Columns: []cqlref.Column{{Keyspace: "e", Table: "e", Name: "v", Type: &cqlref.Type{ID: cqlref.TText}}}}, Rows: [][][]byte{{[]byte(payload)}}})
		f, _ := cqlref.BuildFrame(sc.Version, req.Header.Stream, cqlref.OpResult, nil, w, sc.Compressor())
		cut := int(h32(token, 3)) % len(f)
		sc.WriteReply(req, f[:cut])
		sc.Close()
		return
	}
	var err error
	if late && en.cfg.lateUndecodable && sc.Compressor() == nil && !sc.Control() && h32(token, 13)%2 == 0 {
		// a complete, well-delimited frame that cannot be decoded: the compression flag without negotiated compression.
		// It is still the answer to its request - the connection lives on and the stream id comes back.
		w := cqlref.BodyRows(sc.Version, &cqlref.RowsSpec{Meta: cqlref.Metadata{Global: true, ColCount: 1, Columns: []cqlref.Column{{Keyspace: "e", Table: "e", Name: "v", Type: &cqlref.Type{ID: cqlref.TText}}}}, Rows: [][][]byte{{[]byte(payload)}}})
		f, _ := cqlref.BuildFrame(sc.Version, req.Header.Stream, cqlref.OpResult, nil, w, nil)
		f[1] |= 0x01
		if err = sc.WriteReply(req, f); err == nil {
			atomic.AddInt64(&en.lateDelivered, 1)
			atomic.AddInt64(&en.undecodable, 1)
		}
		return
	}
	if en.cfg.pWrongVersion > 0 && int(h32(token, 17)%100) < en.cfg.pWrongVersion && !sc.Control() {
		// a well-formed answer of another protocol version (a proxy, a node of another version): the caller gets a
		// protocol error, the request has ended and its stream id is free again
		other := map[int]int{1: 2, 2: 1, 3: 4, 4: 5, 5: 3}[sc.Version]
		w := cqlref.BodyRows(other, &cqlref.RowsSpec{Meta: cqlref.Metadata{Global: true, ColCount: 1, Columns: []cqlref.Column{{Keyspace: "e", Table: "e", Name: "v", Type: &cqlref.Type{ID: cqlref.TText}}}}, Rows: [][][]byte{{[]byte(payload)}}})
		f, _ := cqlref.BuildFrame(other, req.Header.Stream, cqlref.OpResult, nil, w, nil)
		if err = sc.WriteReply(req, f); err == nil {
			atomic.AddInt64(&en.wrongVersion, 1)
			if late {
				atomic.AddInt64(&en.lateDelivered, 1)
			}
		}
		return
	}
	if en.cfg.pSplit > 0 && int(h32(token, 11)%100) < en.cfg.pSplit && !sc.Control() {
		// the answer arrives in two pieces, with a gap longer than the driver's read timeout inside the body
		w := cqlref.BodyRows(sc.Version, &cqlref.RowsSpec{Meta: cqlref.Metadata{Global: true, ColCount: 1, Columns: []cqlref.Column{{Keyspace: "e", Table: "e", Name: "v", Type: &cqlref.Type{ID: cqlref.TText}}}}, Rows: [][][]byte{{[]byte(payload)}}})
		f, _ := cqlref.BuildFrame(sc.Version, req.Header.Stream, cqlref.OpResult, nil, w, sc.Compressor())
		hs := cqlref.HeaderSize(sc.Version)
		cut := hs + 1 + int(h32(token, 12))%(len(f)-hs-1)
		atomic.AddInt64(&en.splits, 1)
		gap := en.cfg.timeout + en.cfg.timeout/2
		if en.cfg.splitGapX > 0 {
			gap = time.Duration(en.cfg.splitGapX) * en.cfg.timeout
		}
		err = sc.WriteReplySplit(req, f, cut, gap)
		if late && err == nil {
			atomic.AddInt64(&en.lateDelivered, 1)
		}
		return
	}
	if int(h32(token, 2)%100) < en.cfg.pErrFrame {
		err = sc.ReplyError(req, &cqlref.ErrSpec{Code: 0x0000, Message: payload})
	} else {
		err = sc.ReplyRows(req, &cqlref.RowsSpec{Meta: cqlref.Metadata{Global: true, ColCount: 1, Columns: []cqlref.Column{{Keyspace: "e", Table: "e", Name: "v", Type: &cqlref.Type{ID: cqlref.TText}}}}, Rows: [][][]byte{{[]byte(payload)}}})
	}
	if late && err == nil {
		atomic.AddInt64(&en.lateDelivered, 1)
	}
}

func (en *echoNode) handler(sc *fakenode.ServerConn, req *fakenode.Req) {
	if req.Header.Op == cqlref.OpPrepare {
		// "INSERT BAD ..." statements: one bind marker of type int
		ps := &cqlref.PreparedSpec{ID: []byte("bad"), Bind: cqlref.Metadata{Global: true, ColCount: 1, Columns: []cqlref.Column{{Keyspace: "e", Table: "e", Name: "x", Type: &cqlref.Type{ID: cqlref.TInt}}}},
			Result: cqlref.Metadata{Global: true, ColCount: 0}}
		sc.Reply(req, cqlref.OpResult, nil, cqlref.BodyPrepared(sc.Version, ps))
		return
	}
	if req.Header.Op != cqlref.OpQuery || !strings.HasPrefix(req.Statement, "ECHO ") {
		sc.ReplyVoid(req)
		return
	}
	token := strings.TrimPrefix(req.Statement, "ECHO ")
	key := fmt.Sprintf("%s#%d#%d", sc.Node.IP, sc.Index, req.Header.Stream)
	en.mu.Lock()
	en.arrivals[token]++
	if en.arrivals[token] > 1 && len(en.dup) < 20 {
		en.dup = append(en.dup, fmt.Sprintf("token %s arrived %d times (now on %s, first on %s)", token, en.arrivals[token], key, en.where[token]))
	}
	en.where[token] = key
	if _, wasLate := en.late[key]; wasLate {
		// this stream id carried a late answer earlier and is now in use again
		en.lateReused++
		delete(en.late, key)
	}
	en.mu.Unlock()
	x := int(h32(token, 1) % 100)
	c := en.cfg
	if strings.HasPrefix(token, "u") {
		en.answer(sc, req, token, false) // id-reuse phase: answered at once
		return
	}
	switch {
	case x < c.pLate:
		d := c.timeout + c.timeout/4 + time.Duration(h32(token, 5)%uint32(c.timeout/time.Microsecond+1))*time.Microsecond
		atomic.AddInt64(&en.timers, 1)
		time.AfterFunc(d, func() {
			defer atomic.AddInt64(&en.timers, -1)
			en.answer(sc, req, token, true)
		})
	case x < c.pLate+c.pNever:
		en.mu.Lock()
		en.never = append(en.never, req)
		en.mu.Unlock()
	case c.window > 1:
		en.mu.Lock()
		en.window[sc] = append(en.window[sc], req)
		var flush []*fakenode.Req
		if len(en.window[sc]) >= c.window {
			flush = en.window[sc]
			en.window[sc] = nil
		}
		en.mu.Unlock()
		en.flush(sc, flush)
	default:
		en.answer(sc, req, token, false)
	}
}

func (en *echoNode) flush(sc *fakenode.ServerConn, l []*fakenode.Req) {
	if len(l) == 0 {
		return
	}
	if en.cfg.windowMode == "reverse" {
		for i, j := 0, len(l)-1; i < j; i, j = i+1, j-1 {
			l[i], l[j] = l[j], l[i]
		}
	} else {
		r := rand.New(rand.NewSource(int64(h32(l[0].Statement, 9))))
		r.Shuffle(len(l), func(i, j int) { l[i], l[j] = l[j], l[i] })
	}
	for _, rq := range l {
		en.answer(sc, rq, strings.TrimPrefix(rq.Statement, "ECHO "), false)
	}
}

// flushAll answers everything still held in windows (a window may never fill up).
func (en *echoNode) flushWindows() {
	en.mu.Lock()
	w := en.window
	en.window = map[*fakenode.ServerConn][]*fakenode.Req{}
	en.mu.Unlock()
	for sc, l := range w {
		en.flush(sc, l)
	}
}

func (en *echoNode) flushNever() int {
	en.mu.Lock()
	l := en.never
	en.never = nil
	en.mu.Unlock()
	for _, rq := range l {
		en.answer(rq.Conn, rq, strings.TrimPrefix(rq.Statement, "ECHO "), true)
	}
	return len(l)
}

func classifyErr(err error) string {
	if err == nil {
		return "ok"
	}
	var re gocql.RequestError
	switch {
	case errors.As(err, &re):
		return "server-error"
	case errors.Is(err, gocql.ErrTimeoutNoResponse):
		return "timeout"
	case errors.Is(err, context.Canceled):
		return "ctx-canceled"
	case errors.Is(err, context.DeadlineExceeded):
		return "ctx-deadline"
	case errors.Is(err, gocql.ErrConnectionClosed):
		return "conn-closed"
	case errors.Is(err, gocql.ErrNoStreams):
		return "no-streams"
	case errors.Is(err, gocql.ErrNoConnections):
		return "no-connections"
	case errors.Is(err, gocql.ErrSessionClosed):
		return "session-closed"
	}
	s := err.Error()
	switch {
	case strings.Contains(s, "heartbeat failed"), strings.Contains(s, "too many query timeouts"):
		// the driver closed the connection itself after six failed heartbeats; in-flight calls get this text
		return "conn-closed"
	case strings.Contains(s, "EOF"), strings.Contains(s, "closed pipe"), strings.Contains(s, "unable to read frame body"), strings.Contains(s, "injected write failure"), strings.Contains(s, "i/o timeout"), strings.Contains(s, "deadline exceeded"):
		return "conn-closed"
	case strings.Contains(s, "unexpected protocol version in response"):
		return "wrong-version-answer"
	case strings.Contains(s, "no compressor available"):
		// the (late) answer arrived while the caller was still waiting and could not be decoded: the request ended with it
		return "undecodable-answer"
	case strings.Contains(s, "can not marshal"), strings.Contains(s, "cannot marshal"):
		return "marshal-error"
	case strings.Contains(s, "no hosts available"), strings.Contains(s, "no host"):
		return "no-connections"
	}
	return "other:" + clipS(s)
}

type badMarshal struct{}

func (badMarshal) MarshalCQL(info gocql.TypeInfo) ([]byte, error) {
	return nil, errors.New("can not marshal: injected frame build failure")
}

// runEcho runs one scenario and returns what the monitors saw.
func runEcho(c *runner.Ctx, ec *echoCfg) *echoResult {
	res := &echoResult{outcomes: map[string]int{}, streamObs: &streamObs{open: map[*streamCtx]bool{}}, byToken: map[string]string{}, preCancelled: map[string]bool{}}
	cl := fakenode.NewCluster(1)
	res.cluster = cl
	en := &echoNode{cfg: ec, arrivals: map[string]int{}, where: map[string]string{}, window: map[*fakenode.ServerConn][]*fakenode.Req{}, answered: map[*fakenode.ServerConn]int{}, late: map[string]time.Time{}}
	cl.Nodes[0].Handler = en.handler
	if ec.writeCutAt >= 0 || ec.stallAt > 0 {
		cl.FaultsFor = func(n *fakenode.Node, k int) memnet.Faults {
			f := memnet.NoFaults()
			if k == 1 { // the first data connection (index 0 is the control connection)
				f.WriteCutAt = ec.writeCutAt
				if ec.stallAt > 0 {
					f.StallWritesAt = ec.stallAt
					f.StallAtBoundary = ec.stallAtBoundary
					f.StallMore = append([]int64{}, ec.stallMore...)
				}
			}
			return f
		}
	}
	if ec.timeoutLimit > 0 {
		old := gocql.TimeoutLimit
		gocql.TimeoutLimit = ec.timeoutLimit
		defer func() { gocql.TimeoutLimit = old }()
	}
	res.writes = map[string]writeObs{}
	var wmu sync.Mutex
	gocql.VerifSetWriteObserver(func(frame []byte, n int, err error) {
		tok := tokenOf(frame)
		if tok == "" {
			return
		}
		o := writeObs{n: n, size: len(frame)}
		if err != nil {
			o.err = err.Error()
		}
		wmu.Lock()
		res.writes[tok] = o
		wmu.Unlock()
	})
	defer gocql.VerifSetWriteObserver(nil)
	ctl := perturb.Install(ec.seed, ec.intensity, 2*time.Millisecond, &c.Activity)
	defer perturb.Uninstall()
	cfg := newCfg(cl, ec.version)
	cfg.Timeout = ec.timeout
	cfg.ConnectTimeout = 2 * time.Second
	cfg.WriteCoalesceWaitTime = ec.coalesce
	if ec.writeTimeout > 0 {
		cfg.WriteTimeout = ec.writeTimeout
	}
	cfg.NumConns = ec.numConns
	cfg.StreamObserver = res.streamObs
	lg := &bufLogger{}
	cfg.Logger = lg
	defer func() {
		lg.mu.Lock()
		res.logLines = append([]string{}, lg.lines...)
		lg.mu.Unlock()
	}()
	cfg.PageSize = 0
	cfg.DefaultTimestamp = false
	sess, err := cfg.CreateSession()
	if err != nil {
		c.Inconclusive("echo-session", "cannot create session: "+err.Error())
		return nil
	}
	var mu sync.Mutex
	var done int64
	var closeOnce sync.Once
	closeSess := func() {
		closeOnce.Do(func() {
			// how many connections had been closed (by either side) before the session was: a call may
			// only end with a connection-closed class error if some connection really was closed.
			// The driver delivers that error before it closes its end, so wait for the close to show
			// (only when such an outcome exists; bounded, and the bound running out is what gets judged).
			for step := 0; ; step++ {
				res.connsClosedBeforeClose = 0
				for _, sc := range cl.AllConns() {
					if sc.Driver.Closed() || sc.C.Closed() {
						res.connsClosedBeforeClose++
					}
				}
				mu.Lock()
				need := res.outcomes["conn-closed"] > 0
				mu.Unlock()
				if res.connsClosedBeforeClose > 0 || !need || step > 3000 {
					break
				}
				time.Sleep(10 * time.Millisecond)
			}
			c.Guard("Session.Close", sess.Close)
			res.closeReturned = true
		})
	}
	oneCall := func(r *rand.Rand, token string) {
		ctx := context.Background()
		var cancel context.CancelFunc
		x := r.Intn(100)
		if strings.HasPrefix(token, "u") {
			x = 1000 // id-reuse phase: plain calls
		}
		switch {
		case x < ec.pPreCancel:
			ctx, cancel = context.WithCancel(ctx)
			cancel()
		case x < ec.pPreCancel+ec.pCancel:
			ctx, cancel = context.WithCancel(ctx)
			d := time.Duration(r.Int63n(int64(2*ec.timeout) + 1))
			t := time.AfterFunc(d, cancel)
			defer t.Stop()
		case x < ec.pPreCancel+ec.pCancel+ec.pDeadline:
			ctx, cancel = context.WithTimeout(ctx, time.Duration(r.Int63n(int64(2*ec.timeout)+1)))
		}
		if cancel != nil {
			defer cancel()
		}
		if x < ec.pPreCancel {
			mu.Lock()
			res.preCancelled[token] = true
			mu.Unlock()
		}
		var got string
		var err error
		if !strings.HasPrefix(token, "u") && r.Intn(100) < ec.pBadValue {
			c.Guard("Query.Exec", func() {
				if ec.version >= 3 && r.Intn(4) != 0 {
					// fails inside Conn.exec while the frame is being built (named values are refused in batches),
					// i.e. after a stream id was taken and the call registered
					b := sess.NewBatch(gocql.UnloggedBatch).WithContext(ctx)
					b.Query("INSERT BAD /*"+token+"*/ ?", gocql.NamedValue("x", 1))
					err = sess.ExecuteBatch(b)
				} else {
					err = sess.Query("INSERT BAD /*"+token+"*/ ?", badMarshal{}).WithContext(ctx).Exec()
				}
			})
			cls := classifyErr(err)
			if err != nil && strings.Contains(err.Error(), "named query values are not supported in batches") {
				cls = "marshal-error"
			}
			if err == nil {
				cls = "other:frame build failure returned no error"
			}
			mu.Lock()
			res.outcomes[cls]++
			mu.Unlock()
			atomic.AddInt64(&done, 1)
			return
		}
		c.Guard("Query.Iter", func() {
			it := sess.Query("ECHO " + token).WithContext(ctx).Iter()
			if ec.pHoldIter > 0 && r.Intn(100) < ec.pHoldIter {
				// the caller looks at its rows only after other answers have come in on the same connection
				time.Sleep(time.Duration(200+r.Intn(3000)) * time.Microsecond)
				atomic.AddInt64(&res.heldIters, 1)
			}
			it.Scan(&got)
			err = it.Close()
		})
		cls := classifyErr(err)
		bad := ""
		switch cls {
		case "ok":
			p := strings.SplitN(got, "|", 3)
			if len(p) < 2 || p[0] != token {
				bad = fmt.Sprintf("caller of %s received the row %q", token, clipS(got))
			}
		case "server-error":
			msg := err.Error()
			if !strings.Contains(msg, token+"|") {
				bad = fmt.Sprintf("caller of %s received the error frame %q", token, clipS(msg))
			}
		}
		mu.Lock()
		res.outcomes[cls]++
		res.byToken[token] = cls
		if bad != "" && len(res.mismatches) < 20 {
			res.mismatches = append(res.mismatches, bad)
		}
		mu.Unlock()
		n := atomic.AddInt64(&done, 1)
		if ec.closeSessionAfter >= 0 && n == int64(ec.closeSessionAfter) {
			go closeSess()
		}
	}
	var wg sync.WaitGroup
	for g := 0; g < ec.callers; g++ {
		wg.Add(1)
		seed := c.Rng.Int63()
		go func(g int) {
			defer wg.Done()
			r := rand.New(rand.NewSource(seed))
			for k := 0; k < ec.perCaller; k++ {
				tok := fmt.Sprintf("t%d_%d_%d", c.Case, g, k)
				if ec.padTokens && (g+k)%3 == 0 {
					tok += "_" + strings.Repeat("x", 150+r.Intn(200))
				}
				if ec.hugeFrames && (g+k)%4 == 1 {
					// request frames beyond 64 KiB (any chunking of a frame by a writer shows only here)
					tok += "_" + strings.Repeat("y", 66000+r.Intn(140000))
				}
				oneCall(r, tok)
			}
		}(g)
	}
	// windows that never fill would stall until the timeout; flush them periodically
	stopFlush := make(chan struct{})
	go func() {
		t := time.NewTicker(300 * time.Microsecond)
		defer t.Stop()
		for {
			select {
			case <-stopFlush:
				return
			case <-t.C:
				en.flushWindows()
			}
		}
	}()
	wg.Wait()
	close(stopFlush)
	en.flushWindows()
	res.calls = atomic.LoadInt64(&done)
	// deliver the late and never-answered responses, then reuse the ids
	for quiet := 0; quiet < 3; {
		if atomic.LoadInt64(&en.timers) == 0 {
			quiet++
		} else {
			quiet = 0
		}
		time.Sleep(500 * time.Microsecond)
	}
	res.never = int64(en.flushNever())
	if ec.reusePhase > 0 && ec.closeSessionAfter < 0 {
		time.Sleep(2 * time.Millisecond) // let the receive loop consume the late answers
		r := rand.New(rand.NewSource(ec.seed))
		var wg2 sync.WaitGroup
		for g := 0; g < 4; g++ {
			wg2.Add(1)
			go func(g int) {
				defer wg2.Done()
				for k := 0; k < ec.reusePhase/4; k++ {
					oneCall(r2(r, g), fmt.Sprintf("u%d_%d_%d", c.Case, g, k))
				}
			}(g)
		}
		wg2.Wait()
	}
	res.lateDelivered = atomic.LoadInt64(&en.lateDelivered)
	res.splits = atomic.LoadInt64(&en.splits)
	res.hugeSent = atomic.LoadInt64(&en.hugeSent)
	res.wrongVersion = atomic.LoadInt64(&en.wrongVersion)
	res.undecodable = atomic.LoadInt64(&en.undecodable)
	en.mu.Lock()
	res.lateReused = en.lateReused
	res.dupTokens = append(res.dupTokens, en.dup...)
	en.mu.Unlock()
	// quiescent-point checks while the session is still open (C06)
	if ec.closeSessionAfter < 0 {
		res.recvStalls = echoReceiveStall(cl)
		res.conservation = echoConservation(sess, cl)
	}
	for _, sc := range cl.AllConns() {
		if !sc.Control() {
			res.dataConns = append(res.dataConns, sc)
		}
	}
	if ec.closeSessionAfter < 0 {
		mu.Lock()
		wmu.Lock()
		echoWire(res, cl)
		wmu.Unlock()
		mu.Unlock()
	}
	closeSess()
	// after close: every connection closed, further queries fail immediately
	if err := sess.Query("ECHO after-close").Exec(); !errors.Is(err, gocql.ErrSessionClosed) {
		res.afterClose = append(res.afterClose, fmt.Sprintf("query after Close returned %v, want ErrSessionClosed", err))
	}
	deadline := time.Now().Add(3 * time.Second)
	for {
		open := 0
		for _, sc := range cl.AllConns() {
			if !sc.Driver.Closed() {
				open++
			}
		}
		if open == 0 || time.Now().After(deadline) {
			if open != 0 {
				res.afterClose = append(res.afterClose, fmt.Sprintf("%d connections still open 3 s after Session.Close returned", open))
			}
			break
		}
		time.Sleep(2 * time.Millisecond)
	}
	res.streamReuse = append(res.streamReuse, cl.StreamReuse...)
	res.badFrames = append(res.badFrames, cl.BadFrames...)
	res.hits = ctl.Hits()
	res.signature = ctl.Signature()
	return res
}

var r2mu sync.Mutex

// r2 derives a per-goroutine PRNG from a shared one.
func r2(r *rand.Rand, g int) *rand.Rand {
	r2mu.Lock()
	defer r2mu.Unlock()
	return rand.New(rand.NewSource(r.Int63() + int64(g)))
}

// echoReceiveStall: the driver must keep reading what the node sent. A connection whose driver end is open, has
// bytes waiting to be read, and has not read a single byte over 150 consecutive polls (>= 3 s) has a receive
// loop that is stuck (nothing in the driver makes the receive loop wait for a caller that long: every caller is
// either waiting for its response or has said it left). Costs nothing when no bytes are waiting.
func echoReceiveStall(cl *fakenode.Cluster) []string {
	type st struct {
		read  int64
		polls int
	}
	seen := map[*fakenode.ServerConn]*st{}
	for poll := 0; poll < 160; poll++ {
		waiting := false
		for _, sc := range cl.AllConns() {
			if sc.Driver.Closed() || sc.C.Closed() || sc.Driver.Pending() == 0 {
				delete(seen, sc)
				continue
			}
			waiting = true
			rc := sc.Driver.ReadCount()
			x := seen[sc]
			if x == nil || x.read != rc {
				seen[sc] = &st{read: rc}
				continue
			}
			x.polls++
			if x.polls >= 150 {
				return []string{fmt.Sprintf("connection #%d to %s (control=%v): %d bytes from the node have been waiting for >= 150 polls (3 s) while the driver's end is open and its receive loop has not read a byte (%d requests on it are unanswered from the driver's point of view)",
					sc.Index, sc.Node.IP, sc.Control(), sc.Driver.Pending(), sc.Outstanding())}
			}
		}
		if !waiting {
			return nil
		}
		time.Sleep(20 * time.Millisecond)
	}
	return nil
}

// echoConservation: at a stable quiescent point every open data connection has
// AvailableStreams() == capacity - (requests the node received on it and has not answered).
func echoConservation(sess *gocql.Session, cl *fakenode.Cluster) []string {
	var out []string
	inFlight := false
	check := func() []string {
		var bad []string
		inFlight = false
		byAddr := map[string][]*fakenode.ServerConn{}
		for _, sc := range cl.AllConns() {
			if !sc.Driver.Closed() && !sc.C.Closed() {
				byAddr[sc.Driver.LocalAddr().String()] = append(byAddr[sc.Driver.LocalAddr().String()], sc)
			}
		}
		_ = byAddr
		for _, p := range gocql.VerifPoolSnapshot(sess) {
			for _, conn := range p.Conns {
				calls, num, closed := gocql.VerifConnInfo(conn)
				if closed {
					continue
				}
				// find the node-side view of this connection through its outstanding count: match by remote addr + open state
				var match *fakenode.ServerConn
				n := 0
				for _, sc := range cl.AllConns() {
					if !sc.Control() && !sc.Driver.Closed() && !sc.C.Closed() {
						match = sc
						n++
					}
				}
				if n != 1 {
					continue // several open data connections: cannot pair them from outside
				}
				if match.Driver.Pending() > 0 || match.C.Pending() > 0 {
					// bytes still in flight in either direction: not a quiescent point
					inFlight = true
					continue
				}
				avail := conn.AvailableStreams()
				outst := match.Outstanding()
				if avail != num-1-outst {
					bad = append(bad, fmt.Sprintf("connection to %s: AvailableStreams()=%d but capacity %d minus %d requests the node has not answered is %d (driver holds %d calls)", p.Addr, avail, num-1, outst, num-1-outst, calls))
				}
				if avail < 0 || avail > num-1 {
					bad = append(bad, fmt.Sprintf("connection to %s: AvailableStreams()=%d out of range", p.Addr, avail))
				}
			}
		}
		return bad
	}
	// a mismatch counts only if it is stable (in-flight heartbeats and late deliveries settle)
	// The picture must be unchanged over 25 polls (>= 500 ms) with both pipes empty; the driver may need
	// a while to work through a backlog of answers (near-full connections, a loaded machine).
	var last []string
	stable := 0
	for i := 0; i < 1500; i++ {
		cur := check()
		if len(cur) == 0 && !inFlight {
			return nil
		}
		if !inFlight && strings.Join(cur, ";") == strings.Join(last, ";") {
			stable++
			if stable >= 25 {
				out = cur
				break
			}
		} else {
			stable = 0
		}
		last = cur
		time.Sleep(20 * time.Millisecond)
	}
	return out
}

// echoWire checks the byte stream the driver wrote on every connection (C07):
// frame* [partial-frame iff the driver then closed the connection], every token at most once,
// acknowledged writes are whole, cancelled-before-write calls left no bytes, nothing after a
// short write.
func echoWire(res *echoResult, cl *fakenode.Cluster) {
	var streams []wireStream
	for _, sc := range cl.AllConns() {
		written, cut, cutOff, after := sc.Driver.Snapshot()
		streams = append(streams, wireStream{idx: sc.Index, written: written, cut: cut, cutOff: cutOff, after: after, closed: sc.Driver.Closed})
	}
	echoWireStreams(res, streams)
}

// wireStream is everything one connection of the driver wrote, as recorded at the transport.
type wireStream struct {
	idx           int
	written       []byte
	cut           bool  // the transport returned a short write / write error at cutOff
	cutOff, after int64 // bytes the transport accepted after that
	closed        func() bool
}

func echoWireStreams(res *echoResult, streams []wireStream) {
	seen := map[string]int{}
	add := func(key, what string) {
		if len(res.wireProblems) < 30 {
			res.wireProblems = append(res.wireProblems, wireProblem{key, what})
		}
	}
	for _, sc := range streams {
		written, cut, cutOff, after := sc.written, sc.cut, sc.cutOff, sc.after
		res.wireBytes += int64(len(written))
		kind := "direct"
		if cut {
			res.cutsInjected++
		}
		if after > 0 {
			add("C07:bytes-after-short-write", fmt.Sprintf("connection #%d accepted %d more bytes after it had returned a short write at offset %d", sc.idx, after, cutOff))
		}
		b := written
		off := 0
		for len(b) > 0 {
			h, err := cqlref.ParseHeader(b)
			if err != nil || len(b) < cqlref.HeaderSize(h.Version)+h.Length {
				// incomplete tail
				res.partialTails++
				deadline := time.Now().Add(2 * time.Second)
				for !sc.closed() && time.Now().Before(deadline) {
					time.Sleep(time.Millisecond)
				}
				if !sc.closed() {
					add("C07:partial-frame-on-open-connection", fmt.Sprintf("connection #%d: the stream ends in an incomplete frame at offset %d (%d stray bytes) but the driver did not close the connection", sc.idx, off, len(b)))
				}
				break
			}
			if h.Version < 1 || h.Version > 5 || h.Response || h.Length < 0 {
				add("C07:not-a-frame-sequence:"+kind, fmt.Sprintf("connection #%d: bytes at offset %d are not a request frame header: %x", sc.idx, off, clip(b)))
				break
			}
			n := cqlref.HeaderSize(h.Version) + h.Length
			body := b[cqlref.HeaderSize(h.Version):n]
			if h.Flags&cqlref.FlagCompress == 0 {
				rq, derr := cqlref.DecodeRequest(h, body)
				if derr != nil {
					add("C07:not-a-frame-sequence:"+kind, fmt.Sprintf("connection #%d: frame at offset %d does not decode (%v): interleaved or torn bytes", sc.idx, off, derr))
					break
				}
				if rq.Header.Op == cqlref.OpQuery && strings.HasPrefix(rq.Statement, "ECHO ") {
					seen[strings.TrimPrefix(rq.Statement, "ECHO ")]++
				}
			}
			res.wireFrames++
			b = b[n:]
			off += n
		}
	}
	for tok, n := range seen {
		if n > 1 {
			add("C07:frame-twice", fmt.Sprintf("the request %s appears %d times on the wire", tok, n))
		}
		if res.preCancelled[tok] {
			add("C07:bytes-for-cancelled-request", fmt.Sprintf("request %s was submitted with an already cancelled context but its frame is on the wire", tok))
		}
	}
	var all []string
	for _, sc := range streams {
		all = append(all, string(sc.written))
	}
	onWire := func(tok string) bool {
		for _, w := range all {
			if strings.Contains(w, "ECHO "+tok) {
				// make sure it is not a prefix of a longer token
				i := strings.Index(w, "ECHO "+tok)
				j := i + 5 + len(tok)
				if j >= len(w) || !(w[j] == '_' || (w[j] >= '0' && w[j] <= '9') || (w[j] >= 'a' && w[j] <= 'z')) {
					return true
				}
			}
		}
		return false
	}
	for tok, o := range res.writes {
		switch {
		case res.receiverSideRecord:
			// recorded at the receiving end of a socket: a connection that was torn down may have swallowed
			// bytes the kernel had accepted, so "reported written" cannot be held against this record
		case o.err == "" && o.n == o.size && seen[tok] == 0:
			add("C07:write-reported-ok-but-frame-missing", fmt.Sprintf("the writer reported that the %d-byte frame of request %s was written, but no complete frame for it is in the byte stream", o.size, tok))
		case o.err != "" && o.n == 0 && onWire(tok):
			add("C07:bytes-for-unwritten-request", fmt.Sprintf("the writer reported 0 bytes written (%s) for request %s, yet its frame is on the wire", o.err, tok))
		}
	}
	for tok, cls := range res.byToken {
		if res.receiverSideRecord && cls != "ok" {
			continue
		}
		if (cls == "ok" || cls == "server-error" || cls == "timeout") && seen[tok] == 0 {
			add("C07:acknowledged-write-missing", fmt.Sprintf("request %s ended with %q (its write was reported successful) but no complete frame for it is in the byte stream", tok, cls))
		}
	}
}

// echoDesync: signs that the driver lost its place in the response stream or forgot a request the node answered.
// The scripted node only writes well-formed frames in answer to requests, over a FIFO transport, so none of these
// can be the peer's doing.
func echoDesync(res *echoResult) []string {
	var out []string
	for k, n := range res.outcomes {
		for _, sig := range []string{"unsupported protocol response version", "beyond call expected bounds", "received unexpected frame on stream", "incorrect streamID", "unknown result kind", "unknown op in frame header"} {
			if strings.Contains(k, sig) {
				out = append(out, fmt.Sprintf("%d calls ended with %q although the node only sent well-formed answers", n, k))
			}
		}
	}
	for _, l := range res.logLines {
		if strings.Contains(l, "which has no handler") {
			out = append(out, "the driver logged: "+clipS(strings.TrimSpace(l)))
			break
		}
	}
	return out
}
