package props

import (
	"bytes"
	"fmt"
	"math/big"
	"math/rand"
	"net"
	"reflect"
	"sort"
	"strings"
	"time"

	"github.com/gocql/gocql"

	"verifharness/cqlref"
	"verifharness/gen"
	"verifharness/runner"
)

// C04: well-formed server responses are decoded to exactly what the server said.

func init() {
	runner.Register(&runner.Prop{
		ID: "C04", Level: "exploration",
		Technique: "runtime oracle: response frames are built from logical descriptions by an independent encoder of the native protocol (every response kind, error code, metadata flag combination, header flag, protocol version, compression), parsed by the connection's own reader and parser, and the driver's view (error values, metadata, type trees, rows through Scan / Scanner / MapScan / SliceMap into generated destination types) is compared field by field with the description; unread byte counts decide 'consumes the body exactly'; real sessions repeat the comparison through the public API incl. skipped metadata",
		Rule: "frame case = one generated response (kind x protocol 1-5 x {tracing, warnings, payload} x {none, snappy, lz4}); rows results carry 0..6 columns of generated type trees (depth <= 3) and 0..5 rows with null cells and are consumed four times; session case = one session x 12 generated exchanges; " +
			"distinct = hash(kind, version, flags, compression, shape); non-trivial = a body with at least one field",
		Assumptions: []string{
			"harness/cqlref's response encoders (spec sections 4.2, 9) and value codec are the reference (value codec self-tested on vectors)",
			"null cells are compared as 'destination left at its zero value'; nulls nested inside collections are C02/C12's subject and not generated here",
		},
		Phases: func(tier string) []runner.Phase {
			nf, ns := 60000, 1500
			if tier == "thorough" {
				nf, ns = 600000, 12000
			}
			return []runner.Phase{
				{Name: "frames", Variant: "plain", Cases: nf, Run: c04frameCase, CaseTimeout: 120 * time.Second,
					Required: []string{"frames", "kind_error", "kind_rows", "kind_prepared", "kind_event", "kind_schema_change", "kind_supported", "kind_auth", "rows_scanned", "cells_compared", "null_cells", "warnings_and_payload_together", "compressed_frames", "consumer_scan", "consumer_scanner", "consumer_mapscan", "consumer_slicemap", "scanner_rows_failed_then_continued"}},
				{Name: "sessions", Variant: "race", Cases: ns, Run: c04sessionCase, CaseTimeout: 120 * time.Second,
					Required: []string{"sessions", "session_errors_compared", "session_rows_compared", "session_skipmeta", "session_prepared_compared", "session_trace_ids", "session_warnings", "session_payloads", "session_has_more_pages_followed", "session_empty_page_with_more_pages"}},
			}
		},
	})
}

// ---- generators ---------------------------------------------------------------------------------

var c04strings = []string{"", "a", "ks", "Table_1", "naïve-ключ-名", "with space", "x\x00y", strings.Repeat("n", 300)}

func c04str(r *rand.Rand) string {
	if r.Intn(4) == 0 {
		b := make([]byte, r.Intn(12))
		for i := range b {
			b[i] = byte('a' + r.Intn(26))
		}
		return string(b)
	}
	return c04strings[r.Intn(len(c04strings))]
}

func c04bytes(r *rand.Rand, max int) []byte {
	b := make([]byte, r.Intn(max+1))
	r.Read(b)
	return b
}

func c04prefix(r *rand.Rand, version int) *cqlref.Prefix {
	p := &cqlref.Prefix{}
	if r.Intn(3) == 0 {
		p.TraceID = c04bytes(r, 0)
		p.TraceID = make([]byte, 16)
		r.Read(p.TraceID)
	}
	if version >= 4 {
		both := r.Intn(4) == 0
		if both || r.Intn(4) == 0 {
			p.HasWarn = true
			for k := r.Intn(4); k > 0; k-- {
				p.Warnings = append(p.Warnings, c04str(r))
			}
		}
		if both || r.Intn(4) == 0 {
			p.HasPay = true
			p.Payload = map[string][]byte{}
			for k := r.Intn(4); k > 0; k-- {
				var v []byte
				switch r.Intn(3) {
				case 0:
					v = nil // null
				case 1:
					v = []byte{}
				default:
					v = c04bytes(r, 20)
				}
				p.Payload[fmt.Sprintf("k%d%s", k, c04str(r))] = v
			}
		}
	}
	return p
}

var c04customClasses = []struct {
	class string
	as    int
}{
	{"org.apache.cassandra.db.marshal.Int32Type", cqlref.TInt},
	{"org.apache.cassandra.db.marshal.UTF8Type", cqlref.TVarchar},
	{"org.apache.cassandra.db.marshal.LongType", cqlref.TBigint},
	{"org.apache.cassandra.db.marshal.BooleanType", cqlref.TBoolean},
	{"com.example.types.Money", cqlref.TCustom},
	{"org.apache.cassandra.db.marshal.DynamicCompositeType(a=>org.apache.cassandra.db.marshal.BytesType)", cqlref.TCustom},
}

type c04col struct {
	spec   cqlref.Column
	want   *cqlref.Type // type tree the driver should report
	valueT *cqlref.Type // type used to generate / compare values (nil: only null cells)
}

func c04column(r *rand.Rand, version, idx int, ks, tb string, uniqueNames bool) c04col {
	depth := r.Intn(4)
	var t *cqlref.Type
	col := c04col{}
	if r.Intn(12) == 0 {
		cc := c04customClasses[r.Intn(len(c04customClasses))]
		t = &cqlref.Type{ID: cqlref.TCustom, Custom: cc.class}
		col.want = &cqlref.Type{ID: cc.as, Custom: cc.class}
		if cc.as != cqlref.TCustom {
			col.valueT = &cqlref.Type{ID: cc.as}
		}
	} else {
		t = gen.TypeTree(r, depth, version)
		col.want, col.valueT = t, t
	}
	name := c04str(r)
	if uniqueNames || r.Intn(3) != 0 {
		name = fmt.Sprintf("c%d_%s", idx, name)
	}
	col.spec = cqlref.Column{Keyspace: ks, Table: tb, Name: name, Type: t}
	return col
}

func c04metaFlagsOf(m *cqlref.Metadata) int {
	f := 0
	if m.Global {
		f |= cqlref.MetaGlobal
	}
	if m.MorePages {
		f |= cqlref.MetaMorePages
	}
	if m.NoMetadata {
		f |= cqlref.MetaNoMeta
	}
	return f
}

func c04actualCols(cols []c04col) int {
	n := 0
	for _, c := range cols {
		if c.want.ID == cqlref.TTuple {
			n += len(c.want.Elems)
		} else {
			n++
		}
	}
	return n
}

// c04compareColumns checks the driver's column list against the description.
func c04compareColumns(got []gocql.ColumnInfo, cols []c04col) string {
	if len(got) != len(cols) {
		return fmt.Sprintf("%d columns reported, the frame describes %d", len(got), len(cols))
	}
	for i, g := range got {
		w := cols[i]
		if g.Keyspace != w.spec.Keyspace || g.Table != w.spec.Table || g.Name != w.spec.Name {
			return fmt.Sprintf("column %d reported as %q.%q.%q, the frame says %q.%q.%q", i, g.Keyspace, g.Table, g.Name, w.spec.Keyspace, w.spec.Table, w.spec.Name)
		}
		if g.TypeInfo == nil {
			return fmt.Sprintf("column %d has no type", i)
		}
		if gt := typeFromInfo(g.TypeInfo); !gt.Equal(w.want) {
			return fmt.Sprintf("column %d (%s) reported with type %s, the frame says %s", i, g.Name, gt, w.want)
		}
	}
	return ""
}

// c04nullish: what a null cell may look like in a destination: the zero value, an empty
// container, or (null tuple / UDT into a slice, array, struct or map destination, whose
// elements gocql fills one by one) a container of such values.
func c04nullish(got reflect.Value) bool {
	for got.IsValid() && (got.Kind() == reflect.Interface || got.Kind() == reflect.Ptr) && !got.IsNil() {
		got = got.Elem()
	}
	if !got.IsValid() || got.IsZero() {
		return true
	}
	switch got.Kind() {
	case reflect.Slice, reflect.Array:
		for i := 0; i < got.Len(); i++ {
			if !c04nullish(got.Index(i)) {
				return false
			}
		}
		return true
	case reflect.Map:
		for _, k := range got.MapKeys() {
			if !c04nullish(got.MapIndex(k)) {
				return false
			}
		}
		return true
	case reflect.Struct:
		if got.CanInterface() {
			switch x := got.Interface().(type) {
			case big.Int:
				return x.Sign() == 0
			case time.Time:
				return x.IsZero()
			}
		}
		for i := 0; i < got.NumField(); i++ {
			if got.Type().Field(i).PkgPath != "" {
				return false
			}
			if !c04nullish(got.Field(i)) {
				return false
			}
		}
		return true
	}
	return false
}

// c04cell compares one decoded destination with the cell's logical value.
func c04cell(f *gform, t *cqlref.Type, v cqlref.Val, got reflect.Value, proto int) string {
	if v.Null {
		if c04nullish(got) {
			return ""
		}
		if f.kind == "intstring" && got.Kind() == reflect.Ptr && !got.IsNil() {
			got = got.Elem()
		}
		if f.kind == "intstring" && got.Kind() == reflect.String && got.String() == "0" {
			return "" // gocql's documented-by-behaviour rendering of an absent integer in a string destination
		}
		return fmt.Sprintf("a null cell was decoded as %v (destination %s)", clipS(fmt.Sprint(got.Interface())), f)
	}
	if _, can := build(f, v); !can {
		return "" // this destination type cannot hold the value at all (e.g. a signalling NaN through reflect)
	}
	gv, err := readGo(f, got)
	if err != nil {
		return fmt.Sprintf("decoded Go value is not a valid %s: %v", t, err)
	}
	if !cqlref.EqualVal(t, canon(t, blurNil(f, t, gv), proto), canon(t, blurNil(f, t, v), proto)) {
		return fmt.Sprintf("cell decoded as %s, the frame holds %s (destination %s)", clipS(gv.String(t)), clipS(v.String(t)), f)
	}
	return ""
}

type c04rows struct {
	consumed bool // c04consume read the result to its end (it gives up early when a column has no usable destination)
	cols    []c04col
	vals    [][]cqlref.Val // [row][col]
	cells   [][][]byte
	nbytes  int
	meta    cqlref.Metadata
	version int
}

func c04genRows(r *rand.Rand, version int, uniqueNames bool) *c04rows {
	rs := &c04rows{version: version}
	nc := r.Intn(7)
	if r.Intn(25) == 0 {
		nc = 30 + r.Intn(40) // a wide table: dozens of (also nested) type descriptions in one frame
	}
	ks, tb := c04str(r), c04str(r)
	rs.meta.Global = r.Intn(2) == 0
	for i := 0; i < nc; i++ {
		k, t := ks, tb
		if !rs.meta.Global && r.Intn(2) == 0 {
			k, t = c04str(r), c04str(r)
		}
		rs.cols = append(rs.cols, c04column(r, version, i, k, t, uniqueNames))
		rs.meta.Columns = append(rs.meta.Columns, rs.cols[i].spec)
	}
	rs.meta.ColCount = nc
	if version >= 2 && r.Intn(3) == 0 {
		rs.meta.MorePages = true
		rs.meta.PagingState = c04bytes(r, 30)
		if r.Intn(5) == 0 {
			rs.meta.PagingState = []byte{}
		}
	}
	nr := r.Intn(6)
	if nc == 0 {
		// columns_count is "the number of columns selected by the query that produced this result": no query selects
		// none, so rows without columns are not something a server says (the driver refuses them since 3d738c1,
		// because such rows take no bytes and could be announced by the billion); the empty shape stays
		nr = 0
	}
	for i := 0; i < nr; i++ {
		var row []cqlref.Val
		var cells [][]byte
		for _, c := range rs.cols {
			v := cqlref.Val{Null: true}
			if c.valueT != nil && r.Intn(5) != 0 {
				v = gen.Value(r, c.valueT, gen.Opts{Proto: version, MaxElems: 3, MaxBytes: 40, UniqueElems: true})
			}
			var b []byte
			if !v.Null {
				var err error
				b, err = cqlref.EncodeValue(c.valueT, v, version)
				if err != nil {
					v, b = cqlref.Val{Null: true}, nil
				}
			}
			row = append(row, v)
			cells = append(cells, b)
			rs.nbytes += 4 + len(b)
		}
		rs.vals = append(rs.vals, row)
		rs.cells = append(rs.cells, cells)
	}
	return rs
}

// destinations for Scan: one form per scanned position (tuple columns expand)
type c04dest struct {
	col  int
	elem int // -1: whole column
	f    *gform
	t    *cqlref.Type
}

func c04elemVal(v cqlref.Val, k int) cqlref.Val {
	if v.Null || k >= len(v.Elems) {
		return cqlref.Val{Null: true}
	}
	return v.Elems[k]
}

func c04dests(r *rand.Rand, rs *c04rows, natural bool) []c04dest {
	var out []c04dest
	pick := func(t *cqlref.Type, vs []cqlref.Val) *gform {
		if t == nil {
			return &gform{t: &cqlref.Type{ID: cqlref.TBlob}, kind: "basic", rt: rtBytes, dec: true}
		}
		if !natural {
			if f := pickForm(r, t, vs, dirUnmarshal, false, rs.version); f != nil && unmarshalTargetOf(f) {
				ok := true
				for _, v := range vs {
					if v.Null {
						continue
					}
					if _, can := build(f, v); !can {
						ok = false
					}
				}
				if ok {
					if !f.ptr {
						for _, v := range vs {
							if !v.Null {
								continue
							}
							// Which plain destinations take a null is Unmarshal's policy (C02); the documented
							// null-capable destination is a pointer to a pointer, use that where needed.
							if err, pan := safeUnmarshal(typeInfo(t, rs.version), nil, reflect.New(f.goType()).Interface()); err != nil || pan != nil {
								f.ptr = true
							}
							break
						}
					}
					return f
				}
			}
		}
		return naturalForm(t)
	}
	for ci, c := range rs.cols {
		if c.want.ID == cqlref.TTuple {
			for k, et := range c.want.Elems {
				var vs []cqlref.Val
				for _, row := range rs.vals {
					vs = append(vs, c04elemVal(row[ci], k))
				}
				out = append(out, c04dest{col: ci, elem: k, f: pick(et, vs), t: et})
			}
			continue
		}
		var vs []cqlref.Val
		for _, row := range rs.vals {
			vs = append(vs, row[ci])
		}
		out = append(out, c04dest{col: ci, elem: -1, f: pick(c.valueT, vs), t: c.valueT})
	}
	return out
}

func (d c04dest) value(rs *c04rows, row int) cqlref.Val {
	v := rs.vals[row][d.col]
	if d.elem >= 0 {
		return c04elemVal(v, d.elem)
	}
	return v
}

func (d c04dest) name(rs *c04rows) string {
	n := rs.cols[d.col].spec.Name
	if d.elem >= 0 {
		return gocql.TupleColumnName(n, d.elem)
	}
	return n
}

// c04rejecter is a destination that refuses every value.
type c04rejecter struct{}

func (c04rejecter) UnmarshalCQL(info gocql.TypeInfo, data []byte) error {
	return fmt.Errorf("value rejected by the destination")
}

// c04consume reads all rows of it through one consumer and compares every cell.
func c04consume(c *runner.Ctx, r *rand.Rand, it *gocql.Iter, rs *c04rows, consumer string) (problem string) {
	defer func() {
		if rec := recover(); rec != nil {
			problem = fmt.Sprintf("%s panicked on a well-formed rows result: %v", consumer, rec)
		}
	}()
	c.Add("consumer_"+consumer, 1)
	check := func(d c04dest, row int, got reflect.Value) string {
		v := d.value(rs, row)
		if v.Null {
			c.Add("null_cells", 1)
		}
		c.Add("cells_compared", 1)
		if d.t == nil {
			// unknown custom type: only null cells are generated
			d.t = &cqlref.Type{ID: cqlref.TBlob}
		}
		if why := c04cell(d.f, d.t, v, got, rs.version); why != "" {
			return fmt.Sprintf("row %d column %q: %s", row, d.name(rs), why)
		}
		return ""
	}
	switch consumer {
	case "scan", "scanner":
		dests := c04dests(r, rs, r.Intn(4) == 0)
		for _, d := range dests {
			if d.f == nil {
				return "" // a type without a usable destination (not a finding)
			}
		}
		reuse := r.Intn(2) == 0
		mk := func() []interface{} {
			out := make([]interface{}, len(dests))
			for i, d := range dests {
				out[i] = reflect.New(d.f.goType()).Interface()
			}
			return out
		}
		ptrs := mk()
		var sc gocql.Scanner
		if consumer == "scanner" {
			sc = it.Scanner()
		}
		row := 0
		// Scanner only: one row whose Scan fails in a column that is not the last one (a destination that rejects the
		// value); "the row is invalidated until the next call to Next" - the rows after it are still the server's
		failRow, failDest := -1, -1
		if consumer == "scanner" && len(rs.vals) > 1 && r.Intn(3) == 0 {
			var cand []int
			for k, d := range dests {
				if d.elem < 0 && d.t != nil && d.col < len(rs.cols)-1 {
					cand = append(cand, k)
				}
			}
			if len(cand) > 0 {
				failRow, failDest = r.Intn(len(rs.vals)-1), cand[r.Intn(len(cand))]
			}
		}
		for {
			if !reuse {
				ptrs = mk()
			}
			// occasionally skip a plain column with a nil destination
			args := append([]interface{}{}, ptrs...)
			skipped := map[int]bool{}
			if len(dests) > 0 && r.Intn(6) == 0 {
				k := r.Intn(len(dests))
				if dests[k].elem < 0 {
					args[k] = nil
					skipped[k] = true
				}
			}
			for k, d := range dests {
				if d.t == nil {
					// a custom type unknown to the driver can only be skipped (or read by a caller-supplied Unmarshaler)
					args[k] = nil
					skipped[k] = true
				}
			}
			if consumer == "scan" {
				if !it.Scan(args...) {
					break
				}
			} else {
				if !sc.Next() {
					break
				}
				if row == failRow {
					args[failDest] = c04rejecter{}
					if err := sc.Scan(args...); err == nil {
						return fmt.Sprintf("Scanner.Scan of row %d returned nil although the destination of column %q rejected the value", row, dests[failDest].name(rs))
					}
					c.Add("scanner_rows_failed_then_continued", 1)
					row++
					continue
				}
				if err := sc.Scan(args...); err != nil {
					return fmt.Sprintf("Scanner.Scan failed on row %d: %v", row, err)
				}
			}
			if row >= len(rs.vals) {
				return fmt.Sprintf("%s delivered more than the %d rows of the frame", consumer, len(rs.vals))
			}
			for k, d := range dests {
				if skipped[k] {
					continue
				}
				if why := check(d, row, reflect.ValueOf(ptrs[k]).Elem()); why != "" {
					return why
				}
			}
			row++
			c.Add("rows_scanned", 1)
		}
		var err error
		if consumer == "scan" {
			err = it.Close()
		} else {
			err = sc.Err()
		}
		if err != nil {
			return fmt.Sprintf("%s ended with error %v after %d of %d rows", consumer, err, row, len(rs.vals))
		}
		if row != len(rs.vals) {
			return fmt.Sprintf("%s delivered %d rows, the frame holds %d", consumer, row, len(rs.vals))
		}
	case "mapscan", "slicemap":
		dests := c04dests(r, rs, true)
		for _, d := range dests {
			if d.f == nil {
				return ""
			}
		}
		var maps []map[string]interface{}
		if consumer == "mapscan" {
			for {
				m := map[string]interface{}{}
				if !it.MapScan(m) {
					break
				}
				maps = append(maps, m)
			}
			if err := it.Close(); err != nil {
				return fmt.Sprintf("MapScan ended with error %v after %d of %d rows", err, len(maps), len(rs.vals))
			}
		} else {
			var err error
			maps, err = it.SliceMap()
			if err != nil {
				return fmt.Sprintf("SliceMap failed: %v", err)
			}
		}
		if len(maps) != len(rs.vals) {
			return fmt.Sprintf("%s delivered %d rows, the frame holds %d", consumer, len(maps), len(rs.vals))
		}
		for row, m := range maps {
			if len(m) != len(dests) {
				return fmt.Sprintf("row %d: map has %d entries, the row has %d scannable columns", row, len(m), len(dests))
			}
			for _, d := range dests {
				val, ok := m[d.name(rs)]
				if !ok {
					return fmt.Sprintf("row %d: no map entry for column %q", row, d.name(rs))
				}
				rv := reflect.ValueOf(val)
				if !rv.IsValid() {
					rv = reflect.Zero(d.f.goType())
				}
				if why := check(d, row, rv); why != "" {
					return why
				}
			}
			c.Add("rows_scanned", 1)
		}
	}
	if n := gocql.VerifIterUnread(it); n != 0 {
		return fmt.Sprintf("after all %d rows were read through %s, %d bytes of the body are unread", len(rs.vals), consumer, n)
	}
	rs.consumed = true
	return ""
}

// ---- frames phase -------------------------------------------------------------------------------

func c04compressor(k int) (string, func([]byte) []byte, gocql.Compressor) {
	switch k {
	case 1:
		return "snappy", cqlref.SnappyEncodeLiteral, compressorByName("snappy")
	case 2:
		return "lz4", cqlref.CassandraLZ4EncodeLiteral, compressorByName("lz4")
	}
	return "none", nil, nil
}

func c04errSpec(r *rand.Rand, version int) *cqlref.ErrSpec {
	codes := []int32{0x0000, 0x000A, 0x0100, 0x1000, 0x1001, 0x1002, 0x1003, 0x1100, 0x1200, 0x2000, 0x2100, 0x2200, 0x2300, 0x2400, 0x2500}
	if version >= 4 {
		codes = append(codes, 0x1300, 0x1400, 0x1500)
	}
	if version >= 5 {
		codes = append(codes, 0x1600, 0x1700)
	}
	e := &cqlref.ErrSpec{Code: codes[r.Intn(len(codes))], Message: c04str(r)}
	e.Consistency = []int{0, 1, 2, 3, 4, 5, 6, 7, 8, 9, 10}[r.Intn(11)]
	i32 := func() int32 {
		return []int32{0, 1, 2, 3, 127, 128, 255, 256, 65535, 65536, 1 << 30, -1}[r.Intn(12)]
	}
	e.Required, e.Alive, e.Received, e.BlockFor, e.NumFailures = i32(), i32(), i32(), i32(), i32()
	e.WriteType = []string{"SIMPLE", "BATCH", "UNLOGGED_BATCH", "COUNTER", "BATCH_LOG", "CAS", "VIEW", "CDC", ""}[r.Intn(9)]
	e.DataPresent = byte(r.Intn(3))
	e.Keyspace, e.Table, e.Function = c04str(r), c04str(r), c04str(r)
	for k := r.Intn(4); k > 0; k-- {
		e.ArgTypes = append(e.ArgTypes, c04str(r))
	}
	e.UnpreparedID = c04bytes(r, 20)
	for k := r.Intn(4); k > 0; k-- {
		ip := make([]byte, []int{4, 16}[r.Intn(2)])
		r.Read(ip)
		ip[0] = byte(k) // distinct
		e.FailureIPs = append(e.FailureIPs, ip)
		e.FailureCode = append(e.FailureCode, uint16(r.Intn(65536)))
	}
	return e
}

// c04compareError returns a description of the first difference between the driver's error value and the spec.
func c04compareError(err error, e *cqlref.ErrSpec, version int) string {
	re, ok := err.(gocql.RequestError)
	if !ok {
		return fmt.Sprintf("error value %T (%v) is not a RequestError", err, err)
	}
	if re.Code() != int(e.Code) || re.Message() != e.Message {
		return fmt.Sprintf("code/message %#x %q, the frame says %#x %q", re.Code(), clipS(re.Message()), e.Code, clipS(e.Message))
	}
	if !strings.Contains(re.Error(), e.Message) {
		return "Error() does not contain the server's message"
	}
	diff := func(name string, got, want interface{}) string {
		if !reflect.DeepEqual(got, want) {
			return fmt.Sprintf("%s = %v, the frame says %v", name, got, want)
		}
		return ""
	}
	first := func(ds ...string) string {
		for _, d := range ds {
			if d != "" {
				return d
			}
		}
		return ""
	}
	wantMap := gocql.ErrorMap{}
	for i, ip := range e.FailureIPs {
		wantMap[net.IP(ip).String()] = e.FailureCode[i]
	}
	wantFailures := int(e.NumFailures)
	var wantErrMap gocql.ErrorMap
	if version >= 5 {
		wantFailures = len(e.FailureIPs)
		wantErrMap = wantMap
	}
	mapDiff := func(got gocql.ErrorMap) string {
		if version < 5 {
			if len(got) != 0 {
				return fmt.Sprintf("ErrorMap = %v on protocol %d", got, version)
			}
			return ""
		}
		if len(got) != len(wantErrMap) {
			return fmt.Sprintf("ErrorMap = %v, the frame says %v", got, wantErrMap)
		}
		for k, v := range wantErrMap {
			if got[k] != v {
				return fmt.Sprintf("ErrorMap = %v, the frame says %v", got, wantErrMap)
			}
		}
		return ""
	}
	typ := func(want string) string {
		if g := fmt.Sprintf("%T", err); g != want {
			return fmt.Sprintf("error type %s, want %s for code %#x", g, want, e.Code)
		}
		return ""
	}
	switch e.Code {
	case 0x1000:
		x, ok := err.(*gocql.RequestErrUnavailable)
		if !ok {
			return typ("*gocql.RequestErrUnavailable")
		}
		return first(diff("Consistency", int(x.Consistency), e.Consistency), diff("Required", x.Required, int(e.Required)), diff("Alive", x.Alive, int(e.Alive)))
	case 0x1100:
		x, ok := err.(*gocql.RequestErrWriteTimeout)
		if !ok {
			return typ("*gocql.RequestErrWriteTimeout")
		}
		return first(diff("Consistency", int(x.Consistency), e.Consistency), diff("Received", x.Received, int(e.Received)), diff("BlockFor", x.BlockFor, int(e.BlockFor)), diff("WriteType", x.WriteType, e.WriteType))
	case 0x1200:
		x, ok := err.(*gocql.RequestErrReadTimeout)
		if !ok {
			return typ("*gocql.RequestErrReadTimeout")
		}
		return first(diff("Consistency", int(x.Consistency), e.Consistency), diff("Received", x.Received, int(e.Received)), diff("BlockFor", x.BlockFor, int(e.BlockFor)), diff("DataPresent", x.DataPresent, e.DataPresent))
	case 0x1300:
		x, ok := err.(*gocql.RequestErrReadFailure)
		if !ok {
			return typ("*gocql.RequestErrReadFailure")
		}
		return first(diff("Consistency", int(x.Consistency), e.Consistency), diff("Received", x.Received, int(e.Received)), diff("BlockFor", x.BlockFor, int(e.BlockFor)), diff("NumFailures", x.NumFailures, wantFailures), diff("DataPresent", x.DataPresent, e.DataPresent != 0), mapDiff(x.ErrorMap))
	case 0x1400:
		x, ok := err.(*gocql.RequestErrFunctionFailure)
		if !ok {
			return typ("*gocql.RequestErrFunctionFailure")
		}
		if len(x.ArgTypes) != len(e.ArgTypes) {
			return fmt.Sprintf("ArgTypes = %q, the frame says %q", x.ArgTypes, e.ArgTypes)
		}
		for i := range x.ArgTypes {
			if x.ArgTypes[i] != e.ArgTypes[i] {
				return fmt.Sprintf("ArgTypes = %q, the frame says %q", x.ArgTypes, e.ArgTypes)
			}
		}
		return first(diff("Keyspace", x.Keyspace, e.Keyspace), diff("Function", x.Function, e.Function))
	case 0x1500:
		x, ok := err.(*gocql.RequestErrWriteFailure)
		if !ok {
			return typ("*gocql.RequestErrWriteFailure")
		}
		return first(diff("Consistency", int(x.Consistency), e.Consistency), diff("Received", x.Received, int(e.Received)), diff("BlockFor", x.BlockFor, int(e.BlockFor)), diff("NumFailures", x.NumFailures, wantFailures), diff("WriteType", x.WriteType, e.WriteType), mapDiff(x.ErrorMap))
	case 0x1600:
		if _, ok := err.(*gocql.RequestErrCDCWriteFailure); !ok {
			return typ("*gocql.RequestErrCDCWriteFailure")
		}
	case 0x1700:
		x, ok := err.(*gocql.RequestErrCASWriteUnknown)
		if !ok {
			return typ("*gocql.RequestErrCASWriteUnknown")
		}
		return first(diff("Consistency", int(x.Consistency), e.Consistency), diff("Received", x.Received, int(e.Received)), diff("BlockFor", x.BlockFor, int(e.BlockFor)))
	case 0x2400:
		x, ok := err.(*gocql.RequestErrAlreadyExists)
		if !ok {
			return typ("*gocql.RequestErrAlreadyExists")
		}
		return first(diff("Keyspace", x.Keyspace, e.Keyspace), diff("Table", x.Table, e.Table))
	case 0x2500:
		x, ok := err.(*gocql.RequestErrUnprepared)
		if !ok {
			return typ("*gocql.RequestErrUnprepared")
		}
		if !bytes.Equal(x.StatementId, e.UnpreparedID) {
			return fmt.Sprintf("StatementId = %x, the frame says %x", x.StatementId, e.UnpreparedID)
		}
	}
	return ""
}

func c04safeParse(version int, frame []byte, comp gocql.Compressor) (p *gocql.VerifParsed, err error, pan interface{}) {
	defer func() {
		if r := recover(); r != nil {
			pan = r
		}
	}()
	p, err = gocql.VerifParseFrame(byte(version), frame, comp)
	return
}

func c04frameCase(c *runner.Ctx, i int) {
	r := c.Rng
	version := 1 + r.Intn(5)
	if r.Intn(3) == 0 {
		version = 4
	}
	kind := i % 14
	prefix := c04prefix(r, version)
	compName, cf, comp := c04compressor(r.Intn(3))
	if r.Intn(2) == 0 {
		compName, cf, comp = c04compressor(0)
	}
	if cf != nil {
		c.Add("compressed_frames", 1)
	}
	if prefix.HasWarn && prefix.HasPay {
		c.Add("warnings_and_payload_together", 1)
	}
	stream := r.Intn(128)
	if version >= 3 && r.Intn(2) == 0 {
		stream = r.Intn(32768)
	}
	var op byte
	var body *cqlref.W
	var verify func(p *gocql.VerifParsed) string
	kindName := ""
	shape := ""
	wantKind := func(p *gocql.VerifParsed, k string) string {
		if p.Kind != k {
			return fmt.Sprintf("parsed as %s, want %s", p.Kind, k)
		}
		return ""
	}
	var rows *c04rows
	switch kind {
	case 0:
		kindName, op, body = "ready", cqlref.OpReady, cqlref.BodyEmpty()
		verify = func(p *gocql.VerifParsed) string { return wantKind(p, "*gocql.readyFrame") }
		c.Add("kind_auth", 1)
	case 1:
		class := c04str(r)
		kindName, op, body = "authenticate", cqlref.OpAuthenticate, cqlref.BodyString(class)
		verify = func(p *gocql.VerifParsed) string {
			if p.Class != class {
				return fmt.Sprintf("class %q, the frame says %q", p.Class, class)
			}
			return wantKind(p, "*gocql.authenticateFrame")
		}
		c.Add("kind_auth", 1)
	case 2, 3:
		var data []byte
		null := false
		switch r.Intn(3) {
		case 0:
			null = true
		case 1:
			data = []byte{}
		default:
			data = c04bytes(r, 64)
		}
		op = cqlref.OpAuthChallenge
		kindName = "auth_challenge"
		wk := "*gocql.authChallengeFrame"
		if kind == 3 {
			op, kindName, wk = cqlref.OpAuthSuccess, "auth_success", "*gocql.authSuccessFrame"
		}
		if null {
			body = cqlref.BodyBytes(nil)
		} else {
			body = cqlref.BodyBytes(data)
		}
		verify = func(p *gocql.VerifParsed) string {
			if !bytes.Equal(p.Data, data) || (null && p.Data != nil) {
				return fmt.Sprintf("token %x (nil=%v), the frame says %x (null=%v)", p.Data, p.Data == nil, data, null)
			}
			return wantKind(p, wk)
		}
		c.Add("kind_auth", 1)
	case 4:
		m := map[string][]string{}
		for k := r.Intn(5); k > 0; k-- {
			var vs []string
			for j := r.Intn(4); j > 0; j-- {
				vs = append(vs, c04str(r))
			}
			m[fmt.Sprintf("K%d%s", k, c04str(r))] = vs
		}
		kindName, op, body = "supported", cqlref.OpSupported, cqlref.BodySupported(m)
		verify = func(p *gocql.VerifParsed) string {
			if len(p.Supported) != len(m) {
				return fmt.Sprintf("%d option keys, the frame has %d", len(p.Supported), len(m))
			}
			for k, vs := range m {
				g, ok := p.Supported[k]
				if !ok || len(g) != len(vs) {
					return fmt.Sprintf("option %q = %q, the frame says %q", k, g, vs)
				}
				for j := range vs {
					if g[j] != vs[j] {
						return fmt.Sprintf("option %q = %q, the frame says %q", k, g, vs)
					}
				}
			}
			return wantKind(p, "*gocql.supportedFrame")
		}
		c.Add("kind_supported", 1)
	case 5, 6:
		e := c04errSpec(r, version)
		kindName, op, body = fmt.Sprintf("error-%#x", e.Code), cqlref.OpError, cqlref.BodyError(version, e)
		verify = func(p *gocql.VerifParsed) string {
			if p.Error == nil {
				return "no error value for an ERROR frame (parsed as " + p.Kind + ")"
			}
			return c04compareError(p.Error, e, version)
		}
		c.Add("kind_error", 1)
	case 7:
		if r.Intn(2) == 0 {
			kindName, op, body = "void", cqlref.OpResult, cqlref.BodyVoid()
			verify = func(p *gocql.VerifParsed) string { return wantKind(p, "*gocql.resultVoidFrame") }
		} else {
			ks := c04str(r)
			kindName, op, body = "set_keyspace", cqlref.OpResult, cqlref.BodySetKeyspace(ks)
			verify = func(p *gocql.VerifParsed) string {
				if p.Keyspace != ks {
					return fmt.Sprintf("keyspace %q, the frame says %q", p.Keyspace, ks)
				}
				return wantKind(p, "*gocql.resultKeyspaceFrame")
			}
		}
	case 8, 9:
		targets := []string{"KEYSPACE", "TABLE"}
		if version >= 3 {
			targets = append(targets, "TYPE")
		}
		if version >= 4 {
			targets = append(targets, "FUNCTION", "AGGREGATE")
		}
		sc := &cqlref.SchemaChange{Change: []string{"CREATED", "UPDATED", "DROPPED"}[r.Intn(3)], Target: targets[r.Intn(len(targets))], Keyspace: "ks" + c04str(r), Name: "n" + c04str(r)}
		for k := r.Intn(4); k > 0; k-- {
			sc.Args = append(sc.Args, c04str(r))
		}
		if kind == 8 {
			kindName, op, body = "schema_change-"+sc.Target, cqlref.OpResult, cqlref.BodySchemaChange(version, sc)
			c.Add("kind_schema_change", 1)
		} else {
			stream = -1
			kindName, op, body = "event-schema-"+sc.Target, cqlref.OpEvent, cqlref.BodyEvent(version, &cqlref.EventSpec{Kind: "SCHEMA_CHANGE", Schema: sc})
			c.Add("kind_event", 1)
		}
		verify = func(p *gocql.VerifParsed) string {
			wk := map[string]string{"KEYSPACE": "*gocql.schemaChangeKeyspace", "TABLE": "*gocql.schemaChangeTable", "TYPE": "*gocql.schemaChangeType", "FUNCTION": "*gocql.schemaChangeFunction", "AGGREGATE": "*gocql.schemaChangeAggregate"}[sc.Target]
			if p.Change != sc.Change || p.Keyspace != sc.Keyspace {
				return fmt.Sprintf("change %q keyspace %q, the frame says %q %q", p.Change, p.Keyspace, sc.Change, sc.Keyspace)
			}
			if sc.Target != "KEYSPACE" && p.Object != sc.Name {
				return fmt.Sprintf("object %q, the frame says %q", p.Object, sc.Name)
			}
			if sc.Target == "FUNCTION" || sc.Target == "AGGREGATE" {
				if len(p.Args) != len(sc.Args) {
					return fmt.Sprintf("arguments %q, the frame says %q", p.Args, sc.Args)
				}
				for j := range sc.Args {
					if p.Args[j] != sc.Args[j] {
						return fmt.Sprintf("arguments %q, the frame says %q", p.Args, sc.Args)
					}
				}
			}
			return wantKind(p, wk)
		}
	case 10:
		ev := &cqlref.EventSpec{Kind: []string{"TOPOLOGY_CHANGE", "STATUS_CHANGE"}[r.Intn(2)], Port: int32(r.Intn(65536))}
		if ev.Kind == "TOPOLOGY_CHANGE" {
			ev.Change = []string{"NEW_NODE", "REMOVED_NODE", "MOVED_NODE"}[r.Intn(3)]
		} else {
			ev.Change = []string{"UP", "DOWN"}[r.Intn(2)]
		}
		ev.IP = make([]byte, []int{4, 16}[r.Intn(2)])
		r.Read(ev.IP)
		stream = -1
		kindName, op, body = "event-"+ev.Kind, cqlref.OpEvent, cqlref.BodyEvent(version, ev)
		verify = func(p *gocql.VerifParsed) string {
			if p.Change != ev.Change || !p.Host.Equal(net.IP(ev.IP)) || p.Port != int(ev.Port) {
				return fmt.Sprintf("%s %v:%d, the frame says %s %v:%d", p.Change, p.Host, p.Port, ev.Change, net.IP(ev.IP), ev.Port)
			}
			if ev.Kind == "TOPOLOGY_CHANGE" {
				return wantKind(p, "*gocql.topologyChangeEventFrame")
			}
			return wantKind(p, "*gocql.statusChangeEventFrame")
		}
		c.Add("kind_event", 1)
	case 11:
		// PREPARED
		id := c04bytes(r, 40)
		bindRows := c04genRows(r, version, false)
		bind := bindRows.meta
		bind.MorePages, bind.PagingState = false, nil
		if version >= 4 {
			for k := r.Intn(4); k > 0 && len(bindRows.cols) > 0; k-- {
				bind.PKIndexes = append(bind.PKIndexes, r.Intn(len(bindRows.cols)))
			}
		}
		resRows := c04genRows(r, version, false)
		res := resRows.meta
		res.MorePages, res.PagingState = false, nil
		if r.Intn(4) == 0 {
			// e.g. an INSERT: nothing comes back
			res = cqlref.Metadata{NoMetadata: true}
			resRows.cols = nil
		}
		kindName, op, body = "prepared", cqlref.OpResult, cqlref.BodyPrepared(version, &cqlref.PreparedSpec{ID: id, Bind: bind, Result: res})
		shape = fmt.Sprint(len(bindRows.cols), len(bind.PKIndexes), len(resRows.cols), bind.Global, res.NoMetadata)
		verify = func(p *gocql.VerifParsed) string {
			if !bytes.Equal(p.PreparedID, id) {
				return fmt.Sprintf("prepared id %x, the frame says %x", p.PreparedID, id)
			}
			if p.Request == nil || p.Response == nil {
				return "prepared metadata missing (parsed as " + p.Kind + ")"
			}
			if p.Request.Flags != c04metaFlagsOf(&bind) || p.Request.ColCount != bind.ColCount {
				return fmt.Sprintf("bind metadata flags %#x count %d, the frame says %#x %d", p.Request.Flags, p.Request.ColCount, c04metaFlagsOf(&bind), bind.ColCount)
			}
			if why := c04compareColumns(p.Request.Columns, bindRows.cols); why != "" {
				return "bind " + why
			}
			if version >= 4 {
				if len(p.Request.PKeys) != len(bind.PKIndexes) {
					return fmt.Sprintf("partition key indexes %v, the frame says %v", p.Request.PKeys, bind.PKIndexes)
				}
				for j := range bind.PKIndexes {
					if p.Request.PKeys[j] != bind.PKIndexes[j] {
						return fmt.Sprintf("partition key indexes %v, the frame says %v", p.Request.PKeys, bind.PKIndexes)
					}
				}
			}
			if version >= 2 {
				if p.Response.Flags != c04metaFlagsOf(&res) || p.Response.ColCount != res.ColCount {
					return fmt.Sprintf("result metadata flags %#x count %d, the frame says %#x %d", p.Response.Flags, p.Response.ColCount, c04metaFlagsOf(&res), res.ColCount)
				}
				if !res.NoMetadata {
					if why := c04compareColumns(p.Response.Columns, resRows.cols); why != "" {
						return "result " + why
					}
				}
			}
			return wantKind(p, "*gocql.resultPreparedFrame")
		}
		c.Add("kind_prepared", 1)
	default:
		rows = c04genRows(r, version, true)
		if version >= 2 && r.Intn(8) == 0 {
			// the server was asked to skip the metadata
			rows.meta.NoMetadata = true
		}
		kindName, op = "rows", cqlref.OpResult
		body = cqlref.BodyRows(version, &cqlref.RowsSpec{Meta: rows.meta, Rows: rows.cells})
		shape = fmt.Sprint(len(rows.cols), len(rows.vals), rows.meta.Global, rows.meta.MorePages, rows.meta.NoMetadata)
		verify = func(p *gocql.VerifParsed) string {
			if p.Rows == nil {
				return "no rows metadata (parsed as " + p.Kind + ")"
			}
			if p.Rows.Flags != c04metaFlagsOf(&rows.meta) || p.Rows.ColCount != rows.meta.ColCount {
				return fmt.Sprintf("metadata flags %#x column count %d, the frame says %#x %d", p.Rows.Flags, p.Rows.ColCount, c04metaFlagsOf(&rows.meta), rows.meta.ColCount)
			}
			if p.NumRows != len(rows.vals) {
				return fmt.Sprintf("row count %d, the frame says %d", p.NumRows, len(rows.vals))
			}
			if rows.meta.MorePages && !bytes.Equal(p.Rows.PagingState, rows.meta.PagingState) {
				return fmt.Sprintf("paging state %x, the frame says %x", p.Rows.PagingState, rows.meta.PagingState)
			}
			if !rows.meta.MorePages && len(p.Rows.PagingState) != 0 {
				return fmt.Sprintf("paging state %x although the frame has none", p.Rows.PagingState)
			}
			if p.Unread != rows.nbytes {
				return fmt.Sprintf("%d bytes left for the rows, the rows take %d", p.Unread, rows.nbytes)
			}
			if rows.meta.NoMetadata {
				return ""
			}
			if p.Rows.ActualColCount != c04actualCols(rows.cols) {
				return fmt.Sprintf("scannable column count %d, want %d", p.Rows.ActualColCount, c04actualCols(rows.cols))
			}
			return c04compareColumns(p.Rows.Columns, rows.cols)
		}
		c.Add("kind_rows", 1)
	}
	frame, _ := cqlref.BuildFrame(version, stream, op, prefix, body, cf)
	c.Add("frames", 1)
	c.Eval(runner.H("c04frame", kindName, version, prefix.Flags(version), compName, shape), len(body.B) > 0)
	key := fmt.Sprintf("%s v%d flags=%#x compression=%s", kindName, version, prefix.Flags(version), compName)
	wit := func() map[string]interface{} {
		return map[string]interface{}{"case": key, "frame": clipHex(frame), "frame_len": len(frame), "shape": shape}
	}
	fail := func(class, why string) {
		k := kindName
		if strings.HasPrefix(k, "error-") && class != "fields" {
			k = "error"
		}
		c.Violation(fmt.Sprintf("C04:%s:%s", k, class), fmt.Sprintf("%s (%s)", why, key), wit())
	}
	p, err, pan := c04safeParse(version, frame, comp)
	if pan != nil {
		fail("parse-panics", fmt.Sprintf("parsing a well-formed frame panicked: %v", pan))
		return
	}
	if err != nil {
		fail("parse-error", fmt.Sprintf("a well-formed frame was rejected: %v", err))
		return
	}
	hs := cqlref.HeaderSize(version)
	if int(p.Version&0x7f) != version || p.Stream != stream || p.Op != op || p.Length != len(frame)-hs {
		fail("header", fmt.Sprintf("header read as version %d stream %d op %#x length %d, the frame says %d %d %#x %d", p.Version&0x7f, p.Stream, p.Op, p.Length, version, stream, op, len(frame)-hs))
	}
	if prefix.TraceID != nil && !bytes.Equal(p.TraceID, prefix.TraceID) || prefix.TraceID == nil && len(p.TraceID) != 0 {
		fail("trace-id", fmt.Sprintf("trace id %x, the frame says %x", p.TraceID, prefix.TraceID))
	}
	if version >= 4 {
		if len(p.Warnings) != len(prefix.Warnings) || (!prefix.HasWarn && len(p.Warnings) > 0) {
			fail("warnings", fmt.Sprintf("warnings %q, the frame says %q", p.Warnings, prefix.Warnings))
		} else {
			for j := range prefix.Warnings {
				if p.Warnings[j] != prefix.Warnings[j] {
					fail("warnings", fmt.Sprintf("warnings %q, the frame says %q", p.Warnings, prefix.Warnings))
					break
				}
			}
		}
		bad := len(p.Payload) != len(prefix.Payload)
		for k, v := range prefix.Payload {
			g, ok := p.Payload[k]
			if !ok || !bytes.Equal(g, v) || (v == nil) != (g == nil) {
				bad = true
			}
		}
		if bad {
			fail("custom-payload", fmt.Sprintf("custom payload %q, the frame says %q", p.Payload, prefix.Payload))
		}
	}
	if why := verify(p); why != "" {
		fail("fields", why)
		return
	}
	if rows == nil {
		if p.Unread != 0 {
			fail("body-not-consumed", fmt.Sprintf("%d bytes of the body were left unread", p.Unread))
		}
	} else if !rows.meta.NoMetadata {
		consumers := []string{"scan", "scanner", "mapscan", "slicemap"}
		for _, cl := range rows.cols {
			if cl.valueT == nil {
				// the map-based consumers cannot allocate a destination for an unknown custom type
				consumers = consumers[:2]
			}
		}
		for _, cons := range consumers {
			pc, err, pan := c04safeParse(version, frame, comp)
			if err != nil || pan != nil || pc.Iter == nil {
				fail("parse-error", fmt.Sprintf("second parse of the same frame failed: %v %v", err, pan))
				return
			}
			if why := c04consume(c, r, pc.Iter, rows, cons); why != "" {
				class := "cells"
				switch {
				case strings.Contains(why, "panicked"):
					class = "panics"
				case strings.Contains(why, "unread"):
					class = "body-not-consumed"
				case strings.Contains(why, "delivered"):
					class = "row-count"
				}
				var types []string
				for _, cl := range rows.cols {
					types = append(types, cl.want.String())
				}
				w := wit()
				w["column_types"] = types
				c.Violation(fmt.Sprintf("C04:rows:%s:%s", cons, class), fmt.Sprintf("%s (%s)", why, key), w)
				break
			}
		}
	}
	if c.WantSample() {
		c.Sample(map[string]interface{}{"case": key, "frame_len": len(frame), "parsed_as": p.Kind, "shape": shape})
	}
	_ = sort.Strings
}
