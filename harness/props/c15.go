package props

import (
	"encoding/binary"
	"fmt"
	"math/rand"
	"strings"
	"sync"
	"time"

	"github.com/gocql/gocql"

	"verifharness/cqlref"
	"verifharness/fakenode"
	"verifharness/runner"
)

// C15: paged iteration yields every row exactly once, in order, and then stops.

func init() {
	runner.Register(&runner.Prop{
		ID: "C15", Level: "exploration",
		Technique: "runtime monitor on both sides of real paged queries against a scripted node: the row-id sequence the consumer receives is compared with the concatenation of the scripted pages, and the node checks every page request (paging state, statement, values, page size, consistency, count); prefetch races the consumer under the race detector",
		Rule: "case = one session running a handful of generated result sets (0..40 pages x 0..50 rows, empty pages incl. an empty last page, fetch error at page k) through a consumer in {Scan, Scanner, MapScan, SliceMap} with seeded pauses, prefetch in {0,0.25,0.5,1,-1,2}, prepared or unprepared, metadata skipped or not, automatic or manual paging; " +
			"distinct = hash(page shape, consumer, prefetch, prepared, skip-metadata, error position); non-trivial = more than one page",
		Assumptions: []string{"no retry or speculative policy is configured, so every request the node sees for a result set is a page fetch"},
		RaceOwner: func(fns []string) bool {
			for _, f := range fns {
				if strings.Contains(f, "nextIter") || strings.Contains(f, "(*Iter)") || strings.Contains(f, "executeQuery") {
					return true
				}
			}
			return false
		},
		Phases: func(tier string) []runner.Phase {
			n := 3000
			if tier == "thorough" {
				n = 120000
			}
			return []runner.Phase{
				{Name: "iterations", Variant: "race", Cases: n, Run: c15case, CaseTimeout: 120 * time.Second,
					Required: []string{"multi_page_iterations", "empty_pages", "fetch_errors", "manual_paging", "manual_paging_from_empty_state", "with_speculative_policy", "concurrent_manual_pagers", "manual_paging_without_page_size", "query_object_changed_while_iterating", "results_with_constant_paging_state", "consistency_via_SetConsistency", "manual_paging_value_bound_after_page_state", "queries_released_to_the_pool", "consumer_scan", "consumer_scanner", "consumer_mapscan", "consumer_slicemap", "prepared", "unprepared", "skipmeta"}},
			}
		},
	})
}

type c15set struct {
	id         string
	pages      [][]int32
	errAt      int // page index whose fetch fails (-1 = none)
	prepared   bool
	constState bool // the node hands out the same paging state with every page (an opaque cursor handle); it knows the position itself
	mu         sync.Mutex
	requests   []c15req
	problems   []string
}

type c15req struct {
	page     int
	pageSize int32
	cons     int
	value    string
	state    string
	skipMeta bool
}

type c15node struct {
	mu   sync.Mutex
	sets map[string]*c15set
}

func c15state(id string, page int) []byte { return []byte(fmt.Sprintf("ST/%s/%d/\x00\xff", id, page)) }

func (cn *c15node) handler(sc *fakenode.ServerConn, req *fakenode.Req) {
	idOf := func(stmt string) string {
		f := strings.Fields(stmt)
		if len(f) >= 3 && f[1] == "PAGED" {
			return f[2]
		}
		return ""
	}
	intT := &cqlref.Type{ID: cqlref.TInt}
	cols := []cqlref.Column{{Keyspace: "ks", Table: "paged", Name: "id", Type: intT}, {Keyspace: "ks", Table: "paged", Name: "pad", Type: &cqlref.Type{ID: cqlref.TText}}}
	switch req.Header.Op {
	case cqlref.OpPrepare:
		id := idOf(req.Statement)
		ps := &cqlref.PreparedSpec{ID: []byte("P:" + id),
			Bind:   cqlref.Metadata{Global: true, ColCount: 1, Columns: []cqlref.Column{{Keyspace: "ks", Table: "paged", Name: "k", Type: &cqlref.Type{ID: cqlref.TText}}}},
			Result: cqlref.Metadata{Global: true, ColCount: 2, Columns: cols}}
		sc.Reply(req, cqlref.OpResult, nil, cqlref.BodyPrepared(sc.Version, ps))
		return
	case cqlref.OpQuery, cqlref.OpExecute:
	default:
		sc.ReplyVoid(req)
		return
	}
	id := idOf(req.Statement)
	if req.Header.Op == cqlref.OpExecute {
		id = strings.TrimPrefix(string(req.PreparedID), "P:")
	}
	cn.mu.Lock()
	set := cn.sets[id]
	cn.mu.Unlock()
	if set == nil {
		sc.ReplyVoid(req)
		return
	}
	p := req.Params
	page := 0
	if set.constState {
		set.mu.Lock()
		page = len(set.requests)
		set.mu.Unlock()
		if (page > 0) != p.HasPagingState || (p.HasPagingState && string(p.PagingState) != string(c15state(id, 0))) {
			page = -1
		}
	} else if p.HasPagingState {
		page = -1
		for k := range set.pages {
			if string(c15state(id, k)) == string(p.PagingState) {
				page = k
			}
		}
	}
	rq := c15req{page: page, pageSize: p.PageSize, cons: p.Consistency, state: string(p.PagingState), skipMeta: p.SkipMeta}
	if len(p.Values) > 0 {
		rq.value = string(p.Values[0].Bytes)
	}
	set.mu.Lock()
	set.requests = append(set.requests, rq)
	set.mu.Unlock()
	if page < 0 || page >= len(set.pages) {
		set.mu.Lock()
		set.problems = append(set.problems, fmt.Sprintf("request with a paging state the node never issued: %q", p.PagingState))
		set.mu.Unlock()
		sc.ReplyError(req, &cqlref.ErrSpec{Code: 0x2200, Message: "bad paging state"})
		return
	}
	if page == set.errAt {
		sc.ReplyError(req, &cqlref.ErrSpec{Code: 0x1001, Message: "overloaded while fetching page " + fmt.Sprint(page) + " of " + id})
		return
	}
	meta := cqlref.Metadata{Global: true, ColCount: 2, Columns: cols}
	if p.SkipMeta {
		meta.NoMetadata = true
		meta.Columns = nil
	}
	if page < len(set.pages)-1 {
		meta.MorePages = true
		meta.PagingState = c15state(id, page+1)
		if set.constState {
			meta.PagingState = c15state(id, 0)
		}
	}
	var rows [][][]byte
	for _, rid := range set.pages[page] {
		var b [4]byte
		binary.BigEndian.PutUint32(b[:], uint32(rid))
		var pad []byte
		if rid%3 == 0 {
			pad = []byte(strings.Repeat("x", int(rid%50)))
		}
		rows = append(rows, [][]byte{b[:], pad})
	}
	sc.ReplyRows(req, &cqlref.RowsSpec{Meta: meta, Rows: rows})
}

// c15concurrentPagers: several goroutines page through the same prepared statement by hand at the same time, each
// from its own position: every one of them must see the rows of its page and the next state the node sent for
// *its* request.
func c15concurrentPagers(c *runner.Ctx, sess *gocql.Session, cn *c15node, i int, version int) {
	r := c.Rng
	set := &c15set{id: fmt.Sprintf("cp%d", i), errAt: -1, prepared: true}
	np := 6 + r.Intn(10)
	rid := int32(1)
	for p := 0; p < np; p++ {
		var rows []int32
		for x := 0; x < 1+r.Intn(4); x++ {
			rows = append(rows, rid)
			rid++
		}
		set.pages = append(set.pages, rows)
	}
	cn.mu.Lock()
	cn.sets[set.id] = set
	cn.mu.Unlock()
	stmt := "SELECT PAGED " + set.id + " FROM ks.paged WHERE k = ?"
	// prepared once beforehand, so that every pager below finds the cached entry
	if err := sess.Query(stmt, "warm").PageState(c15state(set.id, np-1)).Exec(); err != nil {
		c.Inconclusive("c15-concurrent-warmup", err.Error())
		return
	}
	pagers := 2 + r.Intn(7)
	var wg sync.WaitGroup
	var mu sync.Mutex
	var bad []string
	for g := 0; g < pagers; g++ {
		wg.Add(1)
		start := r.Intn(np)
		go func(g, start int) {
			defer wg.Done()
			for round := 0; round < 40; round++ {
				page := (start + round) % np
				q := sess.Query(stmt, fmt.Sprintf("pager%d", g))
				if page == 0 {
					q.PageState([]byte{})
				} else {
					q.PageState(c15state(set.id, page))
				}
				it := q.Iter()
				var id int32
				var pad string
				var got []int32
				for it.Scan(&id, &pad) {
					got = append(got, id)
				}
				next := it.PageState()
				err := it.Close()
				var wantNext []byte
				if page < np-1 {
					wantNext = c15state(set.id, page+1)
				}
				switch {
				case err != nil:
					mu.Lock()
					bad = append(bad, fmt.Sprintf("pager %d page %d: %v", g, page, err))
					mu.Unlock()
					return
				case !eqI32(got, set.pages[page]):
					mu.Lock()
					bad = append(bad, fmt.Sprintf("pager %d asked for page %d and got rows %v, want %v", g, page, clipI(got), clipI(set.pages[page])))
					mu.Unlock()
					return
				case string(next) != string(wantNext):
					mu.Lock()
					bad = append(bad, fmt.Sprintf("pager %d: Iter.PageState() = %q after page %d, the node sent %q for that request", g, next, page, wantNext))
					mu.Unlock()
					return
				}
			}
		}(g, start)
	}
	wg.Wait()
	c.Add("concurrent_manual_pagers", int64(pagers))
	c.Eval(runner.H("c15concurrent", version, pagers, np), true)
	if len(bad) > 0 {
		c.Violation("C15:manual:concurrent:wrong-page-or-state", bad[0], map[string]interface{}{"pagers": pagers, "pages": np, "all": bad})
	}
}

func c15case(c *runner.Ctx, i int) {
	r := c.Rng
	version := 2 + i%4
	cl := fakenode.NewCluster(1)
	cn := &c15node{sets: map[string]*c15set{}}
	cl.Nodes[0].Handler = cn.handler
	cfg := newCfg(cl, version)
	cfg.Timeout = 5 * time.Second
	cfg.PageSize = []int{1, 10, 100, 5000}[r.Intn(4)]
	cfg.DisableSkipMetadata = r.Intn(3) == 0
	sess, err := cfg.CreateSession()
	if err != nil {
		c.Inconclusive("c15-session", err.Error())
		return
	}
	defer sess.Close()
	if i%3 == 0 {
		defer c15concurrentPagers(c, sess, cn, i, version)
	}
	nsets := 3 + r.Intn(4)
	for k := 0; k < nsets; k++ {
		set := &c15set{id: fmt.Sprintf("q%d_%d", i, k), errAt: -1, prepared: r.Intn(2) == 0}
		np := r.Intn(8)
		if r.Intn(6) == 0 {
			np = 8 + r.Intn(33)
		}
		if np == 0 {
			np = 1
		}
		rid := int32(1)
		empties := 0
		for p := 0; p < np; p++ {
			nr := r.Intn(51)
			if r.Intn(5) == 0 {
				nr = 0
			}
			if p == np-1 && r.Intn(3) == 0 {
				nr = 0
			}
			if nr == 0 {
				empties++
			}
			var rows []int32
			for x := 0; x < nr; x++ {
				rows = append(rows, rid)
				rid++
			}
			set.pages = append(set.pages, rows)
		}
		if r.Intn(5) == 0 {
			set.errAt = r.Intn(np)
			c.Add("fetch_errors", 1)
		}
		cn.mu.Lock()
		cn.sets[set.id] = set
		cn.mu.Unlock()
		if np > 1 {
			c.Add("multi_page_iterations", 1)
		}
		if empties > 0 {
			c.Add("empty_pages", int64(empties))
		}
		manual := r.Intn(7) == 0 && np > 1
		if !manual && set.errAt < 0 && np > 2 && r.Intn(5) == 0 {
			// the paging state is opaque: this result's pages all carry the same bytes
			set.constState = true
			c.Add("results_with_constant_paging_state", 1)
		}
		consumer := []string{"scan", "scanner", "mapscan", "slicemap"}[r.Intn(4)]
		prefetch := []float64{0, 0.25, 0.5, 1, -1, 2, 0.9}[r.Intn(7)]
		pageSize := []int{0, 1, 7, 50, 1000}[r.Intn(5)]
		cons := c03cons[1+r.Intn(6)]
		c.Add("consumer_"+consumer, 1)
		var q *gocql.Query
		val := fmt.Sprintf("v-%s", set.id)
		// the value is bound after the other options were set (for a walk by hand: after the - empty - page state)
		lateBind := set.prepared && r.Intn(3) == 0
		if lateBind {
			q = sess.Query("SELECT PAGED " + set.id + " FROM ks.paged WHERE k = ?")
			c.Add("prepared", 1)
		} else if set.prepared {
			q = sess.Query("SELECT PAGED "+set.id+" FROM ks.paged WHERE k = ?", val)
			c.Add("prepared", 1)
		} else {
			q = sess.Query("LIST PAGED " + set.id)
			c.Add("unprepared", 1)
		}
		if r.Intn(3) == 0 {
			// the consistency is chosen with the setter that returns nothing (after an earlier, different choice)
			q.Prefetch(prefetch).Consistency(gocql.One)
			q.SetConsistency(cons)
			c.Add("consistency_via_SetConsistency", 1)
		} else {
			q.Prefetch(prefetch).Consistency(cons)
		}
		wantPageSize := cfg.PageSize
		if pageSize > 0 {
			q.PageSize(pageSize)
			wantPageSize = pageSize
		}
		noSkip := r.Intn(4) == 0
		if noSkip {
			q.NoSkipMetadata()
		}
		if r.Intn(4) == 0 {
			// an idempotent query with a speculative execution policy whose delay never elapses here: paging
			// works as without it (every page is still asked for exactly once)
			q.Idempotent(true).SetSpeculativeExecutionPolicy(&gocql.SimpleSpeculativeExecution{NumAttempts: 1 + r.Intn(2), TimeoutDelay: time.Minute})
			c.Add("with_speculative_policy", 1)
		}
		wantSkip := set.prepared && !cfg.DisableSkipMetadata && !noSkip
		if wantSkip {
			c.Add("skipmeta", 1)
		}
		key := fmt.Sprintf("v%d pages=%d empties=%d err=%d %s prefetch=%v prepared=%v skip=%v manual=%v", version, np, empties, set.errAt, consumer, prefetch, set.prepared, wantSkip, manual)
		c.Eval(runner.H("c15", np, empties > 0, set.errAt >= 0, consumer, prefetch, set.prepared, wantSkip, manual, pageSize), np > 1)
		wit := map[string]interface{}{"case": key}
		fail := func(k, what string) {
			set.mu.Lock()
			w := map[string]interface{}{"case": key, "requests_seen_by_node": fmt.Sprintf("%+v", set.requests)}
			set.mu.Unlock()
			c.Violation("C15:"+k, what, w)
		}
		_ = wit
		if manual {
			c.Add("manual_paging", 1)
			start := 1 + r.Intn(np-1)
			if r.Intn(4) == 0 || lateBind {
				// a walk through the pages by hand starts with an empty state (e.g. decoded from an empty request
				// parameter): that is the first page, asked for without any paging state
				start = 0
				c.Add("manual_paging_from_empty_state", 1)
			}
			if set.errAt == start {
				set.errAt = -1
			}
			if start == 0 {
				q.PageState([]byte{})
			} else {
				q.PageState(c15state(set.id, start))
			}
			if lateBind {
				// (Bind starts the statement over - it forgets a page state - but not the caller's choice to page by hand)
				q.Bind(val)
				c.Add("manual_paging_value_bound_after_page_state", 1)
			}
			if r.Intn(3) == 0 {
				// "the rest from here on": a state to resume from, and no page size
				q.PageSize(0)
				c.Add("manual_paging_without_page_size", 1)
			}
			it := q.Iter()
			var id int32
			var pad string
			var got []int32
			for it.Scan(&id, &pad) {
				got = append(got, id)
			}
			nextState := it.PageState()
			err := it.Close()
			want := set.pages[start]
			if err != nil {
				fail("manual:error", fmt.Sprintf("manual paging of page %d failed: %v", start, err))
				continue
			}
			if !eqI32(got, want) {
				fail("manual:rows", fmt.Sprintf("manual paging of page %d returned rows %v, want %v", start, clipI(got), clipI(want)))
			}
			var wantNext []byte
			if start < np-1 {
				wantNext = c15state(set.id, start+1)
			}
			if string(nextState) != string(wantNext) {
				fail("manual:next-state", fmt.Sprintf("Iter.PageState() = %q after page %d, the node sent %q", nextState, start, wantNext))
			}
			set.mu.Lock()
			nreq := len(set.requests)
			set.mu.Unlock()
			if nreq != 1 {
				fail("manual:request-count", fmt.Sprintf("a query with a caller-supplied page state caused %d requests, want exactly 1", nreq))
			}
			if r.Intn(2) == 0 {
				// back to the pool: whoever gets this object next pages automatically again
				q.Release()
				c.Add("queries_released_to_the_pool", 1)
			}
			continue
		}
		if lateBind {
			q.Bind(val)
		}
		it := q.Iter()
		if r.Intn(4) == 0 {
			// the caller prepares its Query object for the next execution while this iterator is still being read:
			// the pages of this iteration are fetched with what the query was when it was executed
			q.Bind("v-other-partition")
			q.PageSize(wantPageSize + 7).Consistency(gocql.Three)
			c.Add("query_object_changed_while_iterating", 1)
		}
		got, err := c15consume(r, it, consumer)
		// expected rows: all pages before the failing one
		var want []int32
		last := np
		if set.errAt >= 0 {
			last = set.errAt
		}
		for p := 0; p < last; p++ {
			want = append(want, set.pages[p]...)
		}
		if consumer == "slicemap" && set.errAt >= 0 {
			// SliceMap returns (nil, err) as a whole when any page fails
			want = nil
			if len(got) != 0 {
				want = got
			}
		}
		if !eqI32(got, want) {
			cls := "rows"
			switch {
			case len(got) < len(want):
				cls = "rows-missing"
			case len(got) > len(want):
				cls = "rows-extra"
			}
			fail(cls+":"+consumer, fmt.Sprintf("consumer %s received %d rows %v, the node served %d rows %v (in order)", consumer, len(got), clipI(got), len(want), clipI(want)))
		}
		if set.errAt >= 0 {
			if err == nil || !strings.Contains(err.Error(), "overloaded while fetching page") {
				fail("fetch-error-lost:"+consumer, fmt.Sprintf("the fetch of page %d failed at the node but the iteration ended with error %v", set.errAt, err))
			}
		} else if err != nil {
			fail("unexpected-error:"+consumer, fmt.Sprintf("iteration failed: %v", err))
		}
		// node side: page requests 0..last exactly once, in order, with the right state and unchanged options
		set.mu.Lock()
		reqs := append([]c15req{}, set.requests...)
		probs := append([]string{}, set.problems...)
		set.mu.Unlock()
		for _, p := range probs {
			fail("bad-paging-state", p)
		}
		wantReq := last
		if set.errAt >= 0 {
			wantReq = set.errAt + 1
		}
		if len(reqs) != wantReq {
			var pg []int
			for _, rq := range reqs {
				pg = append(pg, rq.page)
			}
			cls := "request-count"
			if len(reqs) > wantReq {
				cls = "page-requested-twice-or-after-last"
			} else {
				cls = "page-not-requested"
			}
			fail(cls, fmt.Sprintf("the node received page requests %v, want pages 0..%d once each", pg, wantReq-1))
		}
		for x, rq := range reqs {
			if x < wantReq && rq.page != x {
				fail("page-order", fmt.Sprintf("request %d asked for page %d", x, rq.page))
				break
			}
			if int(rq.pageSize) != wantPageSize {
				fail("page-size-changed", fmt.Sprintf("request for page %d carries page size %d, want %d", rq.page, rq.pageSize, wantPageSize))
				break
			}
			if rq.cons != int(cons) {
				fail("consistency-changed", fmt.Sprintf("request for page %d carries consistency %#x, want %#x", rq.page, rq.cons, int(cons)))
				break
			}
			if set.prepared && rq.value != val {
				fail("values-changed", fmt.Sprintf("request for page %d carries value %q, want %q", rq.page, rq.value, val))
				break
			}
			if rq.skipMeta != wantSkip {
				fail("skip-metadata-changed", fmt.Sprintf("request for page %d has skip-metadata=%v, want %v", rq.page, rq.skipMeta, wantSkip))
				break
			}
		}
		if c.WantSample() {
			c.Sample(map[string]interface{}{"case": key, "rows_delivered": len(got), "page_requests": len(reqs)})
		}
	}
	for _, b := range cl.BadFrames {
		c.Violation("C15:malformed-request", clipS(b), nil)
	}
}

func eqI32(a, b []int32) bool {
	if len(a) != len(b) {
		return false
	}
	for i := range a {
		if a[i] != b[i] {
			return false
		}
	}
	return true
}

func clipI(a []int32) string {
	if len(a) > 24 {
		return fmt.Sprintf("%v..(%d)..%v", a[:10], len(a), a[len(a)-6:])
	}
	return fmt.Sprint(a)
}

func c15consume(r *rand.Rand, it *gocql.Iter, consumer string) ([]int32, error) {
	var got []int32
	pause := func() {
		switch r.Intn(12) {
		case 0:
			time.Sleep(time.Duration(r.Intn(300)) * time.Microsecond)
		case 1:
			time.Sleep(time.Duration(r.Intn(20)) * time.Microsecond)
		}
	}
	switch consumer {
	case "scan":
		var id int32
		var pad string
		for it.Scan(&id, &pad) {
			got = append(got, id)
			pause()
		}
	case "scanner":
		sc := it.Scanner()
		for sc.Next() {
			var id int32
			var pad string
			if err := sc.Scan(&id, &pad); err != nil {
				break
			}
			got = append(got, id)
			pause()
		}
		// the scanner owns the iterator from now on: its Err() closes it and reports the error
		return got, sc.Err()
	case "mapscan":
		for {
			m := map[string]interface{}{}
			if !it.MapScan(m) {
				break
			}
			if v, ok := m["id"].(int); ok {
				got = append(got, int32(v))
			}
			pause()
		}
	case "slicemap":
		rows, err := it.SliceMap()
		if err == nil {
			for _, m := range rows {
				if v, ok := m["id"].(int); ok {
					got = append(got, int32(v))
				}
			}
		}
	}
	return got, it.Close()
}
