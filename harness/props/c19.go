package props

import (
	"encoding/json"
	"fmt"
	"math/rand"
	"strings"
	"sync"
	"time"

	"github.com/gocql/gocql"

	"verifharness/runner"
)

// C19: UUIDs parse, print and carry time faithfully; generated time-UUIDs are unique.

func init() {
	runner.Register(&runner.Prop{
		ID: "C19", Level: "exploration",
		Technique: "runtime oracle over generated UUID values, strings and instants (independent string/field model, Cassandra's TimeUUID comparator re-implemented); uniqueness monitor over concurrent generators under the race detector",
		Rule: "case = one of: random/boundary 128-bit value (print/parse/text/JSON round trip); string derived from a valid UUID string by insert/delete/substitute/hyphen moves, or random (parser acceptance); instant in 1582..5236 in some zone (time round trip, version, variant, min/max bounds vs generated v1 UUIDs); batch of concurrent TimeUUID() calls; " +
			"distinct = hash of the input; non-trivial = mutated strings, boundary instants (first/last representable tick, pre-1970, sub-100ns parts) and concurrent batches",
		Assumptions: []string{"Cassandra's TimeUUIDType order: 60-bit timestamp first, then the 8 low bytes compared as signed bytes"},
		RaceOwner: func(fns []string) bool {
			for _, f := range fns {
				if strings.Contains(f, "UUID") || strings.Contains(f, "getTimestamp") {
					return true
				}
			}
			return false
		},
		Phases: func(tier string) []runner.Phase {
			n, nc := 200000, 64
			if tier == "thorough" {
				n, nc = 8000000, 1600
			}
			return []runner.Phase{
				{Name: "values", Variant: "plain", Cases: n, Run: c19values, Required: []string{"parse_rejections", "parse_accepts", "time_roundtrips", "minmax_bounds"}},
				{Name: "concurrent-unique", Variant: "race", Cases: nc, Shards: 4, Run: c19unique, CaseTimeout: 10 * time.Minute, Required: []string{"uuids_generated"}},
			}
		},
	})
}

const hexd = "0123456789abcdef"

func canonical(u [16]byte) string {
	var b strings.Builder
	for i, x := range u {
		if i == 4 || i == 6 || i == 8 || i == 10 {
			b.WriteByte('-')
		}
		b.WriteByte(hexd[x>>4])
		b.WriteByte(hexd[x&15])
	}
	return b.String()
}

// refParse: exactly 32 hex digits plus hyphens, nothing else.
func refParse(s string) (u [16]byte, ok bool) {
	n := 0
	for _, r := range s {
		var v byte
		switch {
		case r == '-':
			continue
		case r >= '0' && r <= '9':
			v = byte(r - '0')
		case r >= 'a' && r <= 'f':
			v = byte(r-'a') + 10
		case r >= 'A' && r <= 'F':
			v = byte(r-'A') + 10
		default:
			return u, false
		}
		if n >= 32 {
			return u, false
		}
		if n%2 == 0 {
			u[n/2] = v << 4
		} else {
			u[n/2] |= v
		}
		n++
	}
	return u, n == 32
}

func cassCompare(a, b gocql.UUID) int {
	ts := func(u gocql.UUID) uint64 {
		return uint64(u[6]&0x0f)<<56 | uint64(u[7])<<48 | uint64(u[4])<<40 | uint64(u[5])<<32 | uint64(u[0])<<24 | uint64(u[1])<<16 | uint64(u[2])<<8 | uint64(u[3])
	}
	if ts(a) != ts(b) {
		if ts(a) < ts(b) {
			return -1
		}
		return 1
	}
	for i := 8; i < 16; i++ {
		x, y := int8(a[i]), int8(b[i])
		if x != y {
			if x < y {
				return -1
			}
			return 1
		}
	}
	return 0
}

var uuidEpoch = time.Date(1582, time.October, 15, 0, 0, 0, 0, time.UTC)

func c19values(c *runner.Ctx, i int) {
	r := c.Rng
	// --- value round trips
	var u gocql.UUID
	switch r.Intn(6) {
	case 0:
		for k := range u {
			u[k] = 0xff
		}
	case 1:
	default:
		r.Read(u[:])
	}
	s := u.String()
	c.Eval(runner.H("val", u[:]), false)
	if s != canonical(u) {
		c.Violation("C19:print:not-canonical", fmt.Sprintf("String() = %q, canonical form is %q", s, canonical(u)), nil)
	}
	if p, err := gocql.ParseUUID(s); err != nil || p != u {
		c.Violation("C19:parse:roundtrip", fmt.Sprintf("ParseUUID(String()) = %v, %v for %x", p, err, u[:]), nil)
	}
	if p, err := gocql.ParseUUID(strings.ToUpper(strings.ReplaceAll(s, "-", ""))); err != nil || p != u {
		c.Violation("C19:parse:uppercase-nohyphen", fmt.Sprintf("ParseUUID of 32 upper-case digits = %v, %v for %x", p, err, u[:]), nil)
	}
	if t, err := u.MarshalText(); err != nil || string(t) != s {
		c.Violation("C19:text:marshal", fmt.Sprintf("MarshalText = %q, %v", t, err), nil)
	} else {
		var v gocql.UUID
		if err := v.UnmarshalText(t); err != nil || v != u {
			c.Violation("C19:text:roundtrip", fmt.Sprintf("UnmarshalText(MarshalText) = %v, %v", v, err), nil)
		}
		// into a variable that already holds another UUID (a record variable reused while decoding a stream)
		var w gocql.UUID
		r.Read(w[:])
		prev := w
		if err := w.UnmarshalText(t); err != nil || w != u {
			c.Violation("C19:text:roundtrip:reused-destination", fmt.Sprintf("UnmarshalText(%s) into a variable that held %v = %v, %v", t, prev, w, err), nil)
		}
	}
	if j, err := json.Marshal(u); err != nil || string(j) != `"`+s+`"` {
		c.Violation("C19:json:marshal", fmt.Sprintf("json.Marshal = %s, %v", j, err), nil)
	} else {
		var v gocql.UUID
		if err := json.Unmarshal(j, &v); err != nil || v != u {
			c.Violation("C19:json:roundtrip", fmt.Sprintf("json round trip = %v, %v", v, err), nil)
		}
		var w gocql.UUID
		r.Read(w[:])
		prev := w
		if err := json.Unmarshal(j, &w); err != nil || w != u {
			c.Violation("C19:json:roundtrip:reused-destination", fmt.Sprintf("json.Unmarshal(%s) into a variable that held %v = %v, %v", j, prev, w, err), nil)
		}
	}
	if b, err := gocql.UUIDFromBytes(u[:]); err != nil || b != u {
		c.Violation("C19:bytes:roundtrip", fmt.Sprintf("UUIDFromBytes = %v %v", b, err), nil)
	}
	// --- parser acceptance on hostile strings
	for k := 0; k < 6; k++ {
		in := c19mutate(r, s)
		want, ok := refParse(in)
		got, err := gocql.ParseUUID(in)
		c.Eval(runner.H("str", in), true)
		if err == nil {
			c.Add("parse_accepts", 1)
			if !ok {
				c.Violation("C19:parse:accepts-invalid", fmt.Sprintf("ParseUUID accepted %q, which is not 32 hex digits plus hyphens (as %v)", in, got), map[string]interface{}{"input": in})
			} else if [16]byte(got) != want {
				c.Violation("C19:parse:wrong-value", fmt.Sprintf("ParseUUID(%q) = %v, digits say %x", in, got, want), map[string]interface{}{"input": in})
			}
		} else {
			c.Add("parse_rejections", 1)
			if ok && c19canonicalHyphens(in) {
				c.Violation("C19:parse:rejects-valid", fmt.Sprintf("ParseUUID rejected %q: %v", in, err), map[string]interface{}{"input": in})
			}
		}
		if c.WantSample() && !ok {
			c.Sample(map[string]interface{}{"parse_input": in, "accepted": err == nil})
		}
	}
	// --- time based
	t := c19time(r)
	tu := gocql.UUIDFromTime(t)
	c.Eval(runner.H("time", t.UnixNano(), t.Unix()), true)
	c.Add("time_roundtrips", 1)
	want := t.UTC().Truncate(100 * time.Nanosecond)
	// Truncate works on absolute time since year 1, which is aligned to 100ns with the Unix epoch
	if tu.Version() != 1 || tu.Variant() != gocql.VariantIETF {
		c.Violation("C19:timeuuid:version-variant", fmt.Sprintf("UUIDFromTime gives version %d variant %d", tu.Version(), tu.Variant()), map[string]interface{}{"time": t.String()})
	}
	if got := tu.Time(); !got.Equal(want) {
		c.Violation("C19:timeuuid:time-roundtrip", fmt.Sprintf("UUIDFromTime(%v).Time() = %v, want %v", t, got, want), map[string]interface{}{"time": t.String()})
	}
	ticks := int64(want.Sub(uuidEpoch.Add(0)) / 100) // may overflow Duration for far dates: compute by parts instead
	secs := want.Unix() - uuidEpoch.Unix()
	ticks = secs*10000000 + int64(want.Nanosecond()/100)
	if tu.Timestamp() != ticks {
		c.Violation("C19:timeuuid:timestamp-field", fmt.Sprintf("Timestamp() = %d, want %d", tu.Timestamp(), ticks), map[string]interface{}{"time": t.String()})
	}
	// raw field layout per RFC 4122: time_low, time_mid, time_hi_and_version
	exp := [8]byte{byte(ticks >> 24), byte(ticks >> 16), byte(ticks >> 8), byte(ticks), byte(ticks >> 40), byte(ticks >> 32), byte(ticks>>56)&0x0f | 0x10, byte(ticks >> 48)}
	for k := 0; k < 8; k++ {
		if tu[k] != exp[k] {
			c.Violation("C19:timeuuid:field-layout", fmt.Sprintf("timestamp bytes %x, RFC 4122 layout %x", tu[:8], exp[:]), map[string]interface{}{"time": t.String()})
			break
		}
	}
	// TimeUUIDWith: clock/node boundaries
	clock := []uint32{0, 1, 0x3fff, 0x2000, 0x1fff, uint32(r.Intn(0x4000)), 0x7f7f, 0x8080, 0xffff}[r.Intn(9)]
	node := make([]byte, 6)
	r.Read(node)
	if r.Intn(4) == 0 {
		for k := range node {
			node[k] = []byte{0x00, 0x7f, 0x80, 0xff}[r.Intn(4)]
		}
	}
	w := gocql.TimeUUIDWith(ticks, clock, node)
	if w.Version() != 1 || w.Variant() != gocql.VariantIETF || w.Timestamp() != ticks || w.Clock() != clock&0x3fff || string(w.Node()) != string(node) {
		c.Violation("C19:timeuuidwith:fields", fmt.Sprintf("TimeUUIDWith(%d,%#x,%x) -> version %d variant %d ts %d clock %#x node %x", ticks, clock, node, w.Version(), w.Variant(), w.Timestamp(), w.Clock(), w.Node()), nil)
	}
	// min / max bound every RFC 4122 v1 UUID of that instant under Cassandra's ordering
	lo, hi := gocql.MinTimeUUID(t), gocql.MaxTimeUUID(t)
	c.Add("minmax_bounds", 1)
	if lo.Timestamp() != ticks || hi.Timestamp() != ticks || lo.Version() != 1 || hi.Version() != 1 {
		c.Violation("C19:minmax:timestamp", fmt.Sprintf("Min/MaxTimeUUID carry timestamps %d / %d, want %d", lo.Timestamp(), hi.Timestamp(), ticks), map[string]interface{}{"time": t.String()})
	}
	for _, x := range []gocql.UUID{w, tu, gocql.TimeUUIDWith(ticks, 0, []byte{0x80, 0x80, 0x80, 0x80, 0x80, 0x80}), gocql.TimeUUIDWith(ticks, 0x3fff, []byte{0x7f, 0x7f, 0x7f, 0x7f, 0x7f, 0x7f}), gocql.TimeUUIDWith(ticks, 0x3f7f, []byte{0x7f, 0x7f, 0x7f, 0x7f, 0x7f, 0x7f}), gocql.TimeUUIDWith(ticks, 0x0080, []byte{0x80, 0, 0, 0, 0, 0})} {
		if cassCompare(lo, x) > 0 {
			c.Violation("C19:minmax:min-not-lower-bound", fmt.Sprintf("MinTimeUUID %v sorts after %v in Cassandra's order", lo, x), map[string]interface{}{"time": t.String()})
			break
		}
		if cassCompare(hi, x) < 0 {
			c.Violation("C19:minmax:max-not-upper-bound", fmt.Sprintf("MaxTimeUUID %v sorts before %v in Cassandra's order", hi, x), map[string]interface{}{"time": t.String()})
			break
		}
	}
	// random UUIDs
	if ru, err := gocql.RandomUUID(); err != nil || ru.Version() != 4 || ru.Variant() != gocql.VariantIETF {
		c.Violation("C19:random:version-variant", fmt.Sprintf("RandomUUID: %v version %d variant %d", err, ru.Version(), ru.Variant()), nil)
	}
}

// hyphens only between whole bytes (even number of hex digits before each hyphen)
func c19canonicalHyphens(s string) bool {
	n := 0
	for _, r := range s {
		if r == '-' {
			if n%2 != 0 {
				return false
			}
			continue
		}
		n++
	}
	return true
}

func c19mutate(r *rand.Rand, s string) string {
	rs := []rune(s)
	alphabet := []rune("0123456789abcdefABCDEFgG-_ :{}zZ/\x00İıĹšсĭ０–é")
	pick := func() rune {
		if r.Intn(4) == 0 {
			return rune(r.Intn(0x3000))
		}
		return alphabet[r.Intn(len(alphabet))]
	}
	switch r.Intn(8) {
	case 0: // substitute
		for k := 0; k <= r.Intn(3); k++ {
			rs[r.Intn(len(rs))] = pick()
		}
	case 1: // insert
		for k := 0; k <= r.Intn(2); k++ {
			p := r.Intn(len(rs) + 1)
			rs = append(rs[:p], append([]rune{pick()}, rs[p:]...)...)
		}
	case 2: // delete
		for k := 0; k <= r.Intn(2) && len(rs) > 0; k++ {
			p := r.Intn(len(rs))
			rs = append(rs[:p], rs[p+1:]...)
		}
	case 3: // move / add hyphens
		t := []rune(strings.ReplaceAll(string(rs), "-", ""))
		for k := 0; k < r.Intn(6); k++ {
			p := r.Intn(len(t) + 1)
			t = append(t[:p], append([]rune{'-'}, t[p:]...)...)
		}
		rs = t
	case 4: // random string
		n := r.Intn(48)
		rs = rs[:0]
		for k := 0; k < n; k++ {
			rs = append(rs, pick())
		}
	case 5: // append / prepend digits
		if r.Intn(2) == 0 {
			rs = append(rs, rune(hexd[r.Intn(16)]))
		} else {
			rs = append([]rune{rune(hexd[r.Intn(16)])}, rs...)
		}
	case 6: // truncate
		rs = rs[:r.Intn(len(rs)+1)]
	default: // wrap
		rs = append(append([]rune{'{'}, rs...), '}')
	}
	return string(rs)
}

func c19time(r *rand.Rand) time.Time {
	zones := []*time.Location{time.UTC, time.FixedZone("a", 19800), time.FixedZone("b", -39600), time.Local}
	var t time.Time
	switch r.Intn(8) {
	case 0:
		t = uuidEpoch.Add(time.Duration(r.Intn(1000)) * 100)
	case 1:
		// last representable tick: 2^60-1 ticks after the epoch (year 5236)
		secs := int64((1<<60 - 1) / 10000000)
		t = time.Unix(uuidEpoch.Unix()+secs-1-int64(r.Intn(100)), int64(r.Intn(1e9)))
	case 2:
		t = time.Unix(int64(r.Intn(2000)-1000), int64(r.Intn(1e9)))
	case 3:
		t = time.Unix(-int64(r.Int63n(12219292800)), int64(r.Intn(1e9)))
	default:
		span := int64((1<<60 - 1) / 10000000)
		t = time.Unix(uuidEpoch.Unix()+r.Int63n(span), int64(r.Intn(1e9)))
	}
	return t.In(zones[r.Intn(len(zones))])
}

func c19unique(c *runner.Ctx, i int) {
	r := c.Rng
	ng := []int{2, 4, 8, 16, 32, 64}[r.Intn(6)]
	per := 400000 / ng
	if c.Tier == "thorough" {
		per = 2000000 / ng
	}
	out := make([][]gocql.UUID, ng)
	var wg sync.WaitGroup
	start := make(chan struct{})
	for g := 0; g < ng; g++ {
		wg.Add(1)
		go func(g int) {
			defer wg.Done()
			l := make([]gocql.UUID, per)
			<-start
			for k := range l {
				l[k] = gocql.TimeUUID()
			}
			out[g] = l
		}(g)
	}
	close(start)
	wg.Wait()
	seen := make(map[gocql.UUID]int32, ng*per)
	for g, l := range out {
		for _, u := range l {
			if og, dup := seen[u]; dup {
				c.Violation("C19:timeuuid:duplicate-concurrent", fmt.Sprintf("TimeUUID() returned %v twice (goroutines %d and %d of %d)", u, og, g, ng), map[string]interface{}{"goroutines": ng, "per_goroutine": per})
				c.Add("uuids_generated", int64(ng*per))
				return
			}
			seen[u] = int32(g)
			if u.Version() != 1 || u.Variant() != gocql.VariantIETF {
				c.Violation("C19:timeuuid:version-variant", fmt.Sprintf("TimeUUID() %v has version %d variant %d", u, u.Version(), u.Variant()), nil)
				return
			}
		}
	}
	c.Add("uuids_generated", int64(ng*per))
	c.Eval(runner.H("uniq", i, ng), true)
	if c.WantSample() {
		c.Sample(map[string]interface{}{"goroutines": ng, "uuids": ng * per, "all_distinct": true})
	}
}
