package props

import (
	"errors"
	"fmt"
	"sort"
	"strings"
	"sync"
	"sync/atomic"
	"time"

	"github.com/gocql/gocql"

	"verifharness/cqlref"
	"verifharness/fakenode"
	"verifharness/perturb"
	"verifharness/runner"
)

// Close at the moment a debouncer wakes up (shared by C06 and C17).
//
// The event debouncers and the ring-refresh debouncer fire one second after the event that
// armed them, so "Session.Close while a debouncer's flusher has just woken up" is a window
// a stress run practically never hits. This scenario makes it deterministic with the
// existing hook points: the flusher is parked at its wake-up point ("ed.woke" / "rd.woke"),
// Session.Close is started and observed to have reached that debouncer's stop
// ("ed.stop" / "rd.stop.marked"), then the flusher is let go. Close must return, and
// nothing the driver started may stay behind.

func closeAtWake(c *runner.Ctx, i int) {
	r := c.Rng
	prop := c.Prop
	mode := i % 3 // 0: node-event debouncer, 1: schema-event debouncer, 2: ring-refresh debouncer
	name := []string{"node-events", "schema-events", "ring-refresh"}[mode]
	cl := fakenode.NewCluster(1 + r.Intn(2))
	ctl := perturb.Install(c.Seed*29+int64(i), []int{0, 20}[r.Intn(2)], time.Millisecond, &c.Activity)
	defer perturb.Uninstall()
	wakePoint, stopPoint := "ed.woke", "ed.stop"
	stopHitsNeeded := int64(1 + mode) // Close stops the node-event debouncer first, then the schema one
	if mode == 2 {
		wakePoint, stopPoint, stopHitsNeeded = "rd.woke", "rd.stop.marked", 1
	}
	woke := make(chan struct{}, 1)
	release := make(chan struct{})
	var once sync.Once
	ctl.SetOnHit(wakePoint, func() {
		parked := false
		once.Do(func() { parked = true })
		if !parked {
			return
		}
		woke <- struct{}{}
		select {
		case <-release:
		case <-time.After(20 * time.Second):
		}
	})
	stopHit := make(chan struct{}, 8)
	ctl.SetOnHit(stopPoint, func() {
		select {
		case stopHit <- struct{}{}:
		default:
		}
	})
	cfg := newCfg(cl, 3+i%3)
	cfg.Timeout = 150 * time.Millisecond
	cfg.ConnectTimeout = 150 * time.Millisecond
	var sess *gocql.Session
	var err error
	c.Guard("CreateSession", func() { sess, err = cfg.CreateSession() })
	if err != nil {
		close(release)
		c.Inconclusive("closewake-session", err.Error())
		return
	}
	sc := cl.ControlConn()
	if sc == nil {
		close(release)
		sess.Close()
		c.Inconclusive("closewake-control", "no control connection registered for events")
		return
	}
	switch mode {
	case 0:
		ip := cl.Nodes[len(cl.Nodes)-1].IP.To4()
		sc.PushEvent(&cqlref.EventSpec{Kind: "STATUS_CHANGE", Change: []string{"UP", "DOWN"}[r.Intn(2)], IP: ip, Port: 9042})
	case 1:
		sc.PushEvent(&cqlref.EventSpec{Kind: "SCHEMA_CHANGE", Schema: &cqlref.SchemaChange{Change: "UPDATED", Target: "KEYSPACE", Keyspace: "ks"}})
	default:
		// an unknown node joins: after the node-event debounce the driver asks for a ring refresh,
		// which is debounced for another second
		sc.PushEvent(&cqlref.EventSpec{Kind: "TOPOLOGY_CHANGE", Change: "NEW_NODE", IP: []byte{10, 9, 8, byte(7 + r.Intn(100))}, Port: 9042})
	}
	select {
	case <-woke:
	case <-time.After(15 * time.Second):
		close(release)
		c.Guard("Session.Close", sess.Close)
		c.Inconclusive("closewake-no-wake", name+": the debouncer's flusher did not wake within 15 s of the event (hits: "+fmt.Sprint(ctl.Hits())+")")
		return
	}
	c.Add("flusher_parked_at_wake:"+name, 1)
	closed := make(chan struct{})
	go func() {
		c.Guard("Session.Close", sess.Close)
		close(closed)
	}()
	// wait until Close has reached the stop of the debouncer whose flusher is parked
	reached := true
	for k := int64(0); k < stopHitsNeeded && reached; k++ {
		select {
		case <-stopHit:
		case <-closed:
			reached = false
		case <-time.After(10 * time.Second):
			reached = false
		}
	}
	if reached {
		c.Add("close_reached_stop_while_parked", 1)
		time.Sleep(time.Duration(200+r.Intn(2000)) * time.Microsecond)
	}
	close(release)
	<-closed // the hang detector owns the verdict if this never returns
	c.Add("closes_checked", 1)
	c.Add("close_at_wake_cases", 1)
	c.Eval(runner.H("closewake", prop, mode, reached, cfg.ProtoVersion, len(cl.Nodes)), true)
	wit := map[string]interface{}{"debouncer": name, "close_reached_stop_while_flusher_parked": reached}
	if !sess.Closed() {
		c.Violation(prop+":close-did-not-close", "Session.Closed() is false after Close returned", wit)
	}
	if err := sess.Query("LIST after").Exec(); !errors.Is(err, gocql.ErrSessionClosed) {
		c.Violation(prop+":query-after-close", fmt.Sprintf("a query after Close returned %v, want ErrSessionClosed", err), wit)
	}
	openL, leaked := c17awaitClosed(c, cl)
	if len(openL) > 0 {
		wit["open_connections"] = openL
		c.Violation(prop+":connection-open-after-close", fmt.Sprintf("%d connections the driver dialled are still open after Session.Close returned (close while the %s flusher was waking up)", len(openL), name), wit)
	}
	if len(leaked) > 0 {
		tops := map[string]int{}
		for _, b := range leaked {
			tops[topFrameOf(b)]++
		}
		var ks []string
		for k := range tops {
			ks = append(ks, k)
		}
		sort.Strings(ks)
		c.Violation(prop+":goroutine-leak:"+strings.Join(ks, "+"), fmt.Sprintf("%d goroutines are still running driver code after Session.Close returned (%v)", len(leaked), tops), map[string]interface{}{"debouncer": name, "goroutines": leaked[:minInt(len(leaked), 4)]})
	}
}

// closeParked (C17): Session.Close while one of the driver's own background activities is held at a point where it
// waits for something outside the driver - the replacement control connection waiting for the answer to its
// system.local query, the pool refill that has failed and is asking the (application-supplied) ConvictionPolicy for
// its verdict. Close is started while the activity is held, the activity is then let go; Close must return and
// nothing may stay behind.

type c17parkPolicy struct {
	arrived chan struct{}
	release chan struct{}
	once    sync.Once
}

func (p *c17parkPolicy) AddFailure(err error, host *gocql.HostInfo) bool {
	parked := false
	p.once.Do(func() { parked = true })
	if parked {
		p.arrived <- struct{}{}
		select {
		case <-p.release:
		case <-time.After(20 * time.Second):
		}
	}
	return true
}
func (p *c17parkPolicy) Reset(host *gocql.HostInfo) {}

func closeParked(c *runner.Ctx, i int) {
	r := c.Rng
	mode := i % 3
	name := []string{"control-reconnect-waiting-for-system.local", "refill-failed-waiting-for-conviction", "control-heartbeat-unanswered"}[mode]
	cl := fakenode.NewCluster(2)
	ctl := perturb.Install(c.Seed*31+int64(i), []int{0, 20}[r.Intn(2)], time.Millisecond, &c.Activity)
	defer perturb.Uninstall()
	_ = ctl
	cfg := newCfg(cl, 3+i%3)
	cfg.Timeout = 500 * time.Millisecond
	cfg.ConnectTimeout = 500 * time.Millisecond
	cfg.NumConns = 1 + r.Intn(3)
	arrived := make(chan struct{}, 4)
	release := make(chan struct{})
	var relOnce sync.Once
	letGo := func() { relOnce.Do(func() { close(release) }) }
	defer letGo()
	var armed int32
	var hbMu sync.Mutex
	var hbConn *fakenode.ServerConn
	if mode == 0 {
		// without events no REGISTER follows the system.local query, so nothing else of the set-up can fail
		cfg.Events.DisableNodeStatusEvents, cfg.Events.DisableTopologyEvents, cfg.Events.DisableSchemaEvents = true, true, true
		cl.LocalView = func(n *fakenode.Node) *fakenode.PeerRow {
			if atomic.CompareAndSwapInt32(&armed, 1, 2) {
				arrived <- struct{}{}
				select {
				case <-release:
				case <-time.After(20 * time.Second):
				}
			}
			return nil
		}
	} else if mode == 1 {
		cfg.ConvictionPolicy = &c17parkPolicy{arrived: arrived, release: release}
	} else {
		// the node stops answering the control connection's heartbeat (OPTIONS, one second after the connection was
		// set up): the request is in flight when Close is called and then fails - by its timeout, or because the
		// connection breaks under it
		for _, n := range cl.Nodes {
			n.OnHandshake = func(sc *fakenode.ServerConn, op byte) bool {
				if op != cqlref.OpOptions || !sc.Ready() || !sc.Control() {
					return false
				}
				hbMu.Lock()
				hbConn = sc
				hbMu.Unlock()
				select {
				case arrived <- struct{}{}:
				default:
				}
				return true
			}
		}
	}
	var sess *gocql.Session
	var err error
	c.Guard("CreateSession", func() { sess, err = cfg.CreateSession() })
	if err != nil {
		c.Inconclusive("closeparked-session", err.Error())
		return
	}
	// let the pools fill
	for w := 0; w < 300; w++ {
		full := true
		for _, n := range cl.Nodes {
			if n.DataConnsOpen() < 1 {
				full = false
			}
		}
		if full {
			break
		}
		time.Sleep(5 * time.Millisecond)
	}
	if mode == 0 {
		conns := cl.AllConns()
		if len(conns) == 0 {
			sess.Close()
			return
		}
		atomic.StoreInt32(&armed, 1)
		conns[0].Close() // the first connection dialled is the control connection
	} else if mode == 1 {
		n := cl.Nodes[1]
		n.SetDown(true)
		for _, sc := range n.OpenConns() {
			sc.Close()
		}
	}
	select {
	case <-arrived:
	case <-time.After(10 * time.Second):
		letGo()
		c.Guard("Session.Close", sess.Close)
		c.Inconclusive("closeparked-not-reached", name+": the activity did not reach its waiting point within 10 s")
		return
	}
	c.Add("activity_parked:"+name, 1)
	closed := make(chan struct{})
	go func() {
		c.Guard("Session.Close", sess.Close)
		close(closed)
	}()
	// Close runs into (or past) the parked activity; then the activity goes on
	select {
	case <-closed:
	case <-time.After(time.Duration(5+r.Intn(40)) * time.Millisecond):
	}
	letGo()
	if mode == 2 && i%2 == 0 {
		// the connection breaks under the unanswered heartbeat (otherwise it ends by its timeout)
		hbMu.Lock()
		sc := hbConn
		hbMu.Unlock()
		if sc != nil {
			sc.Close()
		}
	}
	<-closed // the hang detector owns the verdict if this never returns
	c.Add("close_parked_cases", 1)
	c.Add("closes_checked", 1)
	c.Eval(runner.H("closeparked", mode, cfg.ProtoVersion, cfg.NumConns), true)
	wit := map[string]interface{}{"held_activity": name}
	if err := sess.Query("LIST after").Exec(); !errors.Is(err, gocql.ErrSessionClosed) {
		c.Violation("C17:query-after-close", fmt.Sprintf("a query after Close returned %v, want ErrSessionClosed", err), wit)
	}
	openL, leaked := c17awaitClosed(c, cl)
	if len(openL) > 0 {
		wit["open_connections"] = openL
		c.Violation("C17:connection-open-after-close", fmt.Sprintf("%d connections the driver dialled are still open after Session.Close returned (Close ran while: %s)", len(openL), name), wit)
	}
	if len(leaked) > 0 {
		tops := map[string]int{}
		for _, b := range leaked {
			tops[topFrameOf(b)]++
		}
		var ks []string
		for k := range tops {
			ks = append(ks, k)
		}
		sort.Strings(ks)
		c.Violation("C17:goroutine-leak:"+strings.Join(ks, "+"), fmt.Sprintf("%d goroutines are still running driver code after Session.Close returned (%v)", len(leaked), tops), map[string]interface{}{"held_activity": name, "goroutines": leaked[:minInt(len(leaked), 4)]})
	}
}
