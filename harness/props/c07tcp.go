package props

import (
	"context"
	"fmt"
	"math/rand"
	"net"
	"strings"
	"sync"
	"sync/atomic"
	"time"

	"github.com/gocql/gocql"

	"verifharness/fakenode"
	"verifharness/memnet"
	"verifharness/perturb"
	"verifharness/runner"
)

// C07 over a real TCP socket. The in-memory transport never takes the path real deployments
// take: net.Buffers.WriteTo on a *net.TCPConn is writev(2), with the kernel accepting part of
// a batch, the Go runtime looping over the rest, and a write deadline that can expire in the
// middle of it. Here the driver dials 127.0.0.1; a recording proxy forwards the bytes to the
// scripted in-memory node and can read slowly through small socket buffers, so that writes
// really block in the kernel and really time out half way through a frame.

type c07proxied struct {
	idx    int
	mu     sync.Mutex
	rec    []byte
	closed int32 // the driver's end is gone (read returned EOF / error)
}

func (p *c07proxied) isClosed() bool { return atomic.LoadInt32(&p.closed) == 1 }

type c07proxy struct {
	ln    net.Listener
	cl    *fakenode.Cluster
	mu    sync.Mutex
	conns []*c07proxied
	// slow reader: read at most chunk bytes, then pause
	chunk int
	pause time.Duration
	wg    sync.WaitGroup
}

func newC07proxy(cl *fakenode.Cluster, chunk int, pause time.Duration) (*c07proxy, error) {
	ln, err := net.Listen("tcp", "127.0.0.1:0")
	if err != nil {
		return nil, err
	}
	p := &c07proxy{ln: ln, cl: cl, chunk: chunk, pause: pause}
	go p.accept()
	return p, nil
}

func (p *c07proxy) accept() {
	for {
		tc, err := p.ln.Accept()
		if err != nil {
			return
		}
		nd := p.cl.Nodes[0]
		inner, err := fakenode.Dialer{C: p.cl}.DialContext(context.Background(), "tcp", net.JoinHostPort(nd.IP.String(), fmt.Sprint(nd.Port)))
		if err != nil {
			tc.Close()
			continue
		}
		p.mu.Lock()
		pc := &c07proxied{idx: len(p.conns)}
		p.conns = append(p.conns, pc)
		p.mu.Unlock()
		if p.chunk > 0 {
			if t, ok := tc.(*net.TCPConn); ok {
				t.SetReadBuffer(4096)
			}
		}
		p.wg.Add(2)
		go func() { // driver -> node, recorded
			defer p.wg.Done()
			size := 64 << 10
			if p.chunk > 0 {
				size = p.chunk
			}
			buf := make([]byte, size)
			for {
				n, err := tc.Read(buf)
				if n > 0 {
					pc.mu.Lock()
					pc.rec = append(pc.rec, buf[:n]...)
					pc.mu.Unlock()
					if _, werr := inner.Write(buf[:n]); werr != nil {
						break
					}
				}
				if err != nil {
					break
				}
				if p.pause > 0 {
					time.Sleep(p.pause)
				}
			}
			atomic.StoreInt32(&pc.closed, 1)
			inner.Close()
			tc.Close()
		}()
		go func() { // node -> driver
			defer p.wg.Done()
			buf := make([]byte, 64<<10)
			for {
				n, err := inner.Read(buf)
				if n > 0 {
					if _, werr := tc.Write(buf[:n]); werr != nil {
						break
					}
				}
				if err != nil {
					break
				}
			}
			tc.Close()
			inner.Close()
		}()
	}
}

type c07tcpDialer struct {
	addr   string
	sndbuf int
	dials  int64
}

func (d *c07tcpDialer) DialContext(ctx context.Context, network, addr string) (net.Conn, error) {
	atomic.AddInt64(&d.dials, 1)
	var nd net.Dialer
	conn, err := nd.DialContext(ctx, "tcp", d.addr)
	if err != nil {
		return nil, err
	}
	if d.sndbuf > 0 {
		if t, ok := conn.(*net.TCPConn); ok {
			t.SetWriteBuffer(d.sndbuf)
		}
	}
	return conn, nil // a *net.TCPConn: the driver's net.Buffers.WriteTo is writev(2)
}

func c07tcp(c *runner.Ctx, i int) {
	r := c.Rng
	version := 1 + i%5
	slow := i%2 == 1
	cl := fakenode.NewCluster(1)
	cl.Nodes[0].Handler = func(sc *fakenode.ServerConn, req *fakenode.Req) { sc.ReplyVoid(req) }
	chunk, pause := 0, time.Duration(0)
	if slow {
		chunk = []int{256, 1024, 4096}[r.Intn(3)]
		pause = time.Duration(200+r.Intn(3000)) * time.Microsecond
	}
	px, err := newC07proxy(cl, chunk, pause)
	if err != nil {
		c.Inconclusive("c07tcp-listen", err.Error())
		return
	}
	defer px.ln.Close()
	dl := &c07tcpDialer{addr: px.ln.Addr().String()}
	if slow {
		dl.sndbuf = 4096
	}
	res := &echoResult{outcomes: map[string]int{}, byToken: map[string]string{}, preCancelled: map[string]bool{}, writes: map[string]writeObs{}, receiverSideRecord: true}
	var wmu sync.Mutex
	gocql.VerifSetWriteObserver(func(frame []byte, n int, err error) {
		tok := tokenOf(frame)
		if tok == "" {
			return
		}
		o := writeObs{n: n, size: len(frame)}
		if err != nil {
			o.err = err.Error()
		}
		wmu.Lock()
		res.writes[tok] = o
		wmu.Unlock()
	})
	defer gocql.VerifSetWriteObserver(nil)
	cfg := newCfg(cl, version)
	cfg.Dialer = dl
	cfg.NumConns = 1 + r.Intn(2)
	cfg.WriteCoalesceWaitTime = []time.Duration{0, 200 * time.Microsecond, 2 * time.Millisecond}[r.Intn(3)]
	cfg.Timeout = 300 * time.Millisecond
	cfg.ConnectTimeout = 2 * time.Second
	if slow {
		cfg.WriteTimeout = time.Duration(3+r.Intn(25)) * time.Millisecond
	}
	cfg.PageSize = 0
	cfg.DefaultTimestamp = false
	var sess *gocql.Session
	c.Guard("CreateSession", func() { sess, err = cfg.CreateSession() })
	if err != nil {
		c.Inconclusive("c07tcp-session", err.Error())
		return
	}
	writers := []int{2, 8, 32}[r.Intn(3)]
	per := 240 / writers
	maxPad := []int{0, 200, 20000, 60000, 250000}[r.Intn(5)]
	var mu sync.Mutex
	var wg sync.WaitGroup
	for w := 0; w < writers; w++ {
		wg.Add(1)
		rr := rand.New(rand.NewSource(r.Int63()))
		go func(w int) {
			defer wg.Done()
			for k := 0; k < per; k++ {
				pad := 0
				if maxPad > 0 {
					pad = rr.Intn(maxPad)
				}
				// the padding is part of the token: the statement is exactly "ECHO <token>", as the wire monitor expects
				tok := fmt.Sprintf("t%d_%d_%d_%s", i, w, k, strings.Repeat("p", pad))
				var qerr error
				c.Guard("Query.Exec", func() { qerr = sess.Query("ECHO " + tok).Exec() })
				cls := classifyErr(qerr)
				mu.Lock()
				res.outcomes[cls]++
				res.byToken[tok] = cls
				mu.Unlock()
			}
		}(w)
	}
	wg.Wait()
	// let the proxy drain what is still in the socket buffers before the session goes away, then close
	time.Sleep(20 * time.Millisecond)
	c.Guard("Session.Close", sess.Close)
	deadline := 0
	for ; deadline < 500; deadline++ {
		all := true
		px.mu.Lock()
		for _, pc := range px.conns {
			if !pc.isClosed() {
				all = false
			}
		}
		px.mu.Unlock()
		if all {
			break
		}
		time.Sleep(10 * time.Millisecond)
	}
	px.ln.Close()
	var streams []wireStream
	px.mu.Lock()
	for _, pc := range px.conns {
		pc.mu.Lock()
		streams = append(streams, wireStream{idx: pc.idx, written: append([]byte{}, pc.rec...), closed: pc.isClosed})
		pc.mu.Unlock()
	}
	px.mu.Unlock()
	wmu.Lock()
	mu.Lock()
	echoWireStreams(res, streams)
	mu.Unlock()
	wmu.Unlock()
	failedWrites := 0
	for _, o := range res.writes {
		if o.err != "" {
			failedWrites++
		}
	}
	c.Add("tcp_scenarios", 1)
	if slow {
		c.Add("tcp_slow_reader_scenarios", 1)
	}
	c.Add("tcp_connections", int64(len(streams)))
	c.Add("tcp_frames_checked", res.wireFrames)
	c.Add("tcp_bytes_checked", res.wireBytes)
	c.Add("tcp_failed_writes", int64(failedWrites))
	c.Add("tcp_partial_tails_seen", int64(res.partialTails))
	for k := range res.outcomes {
		c.SetAdd("tcp_outcomes", k)
	}
	key := fmt.Sprintf("tcp v%d writers=%d coalesce=%v maxpad=%d slow=%v(chunk %d, pause %v, write timeout %v)", version, writers, cfg.WriteCoalesceWaitTime, maxPad, slow, chunk, pause, cfg.WriteTimeout)
	c.Eval(runner.H("c07tcp", version, writers, cfg.WriteCoalesceWaitTime, maxPad, slow, failedWrites > 0), true)
	wit := map[string]interface{}{"scenario": key, "outcomes": res.outcomes, "connections": len(streams), "failed_writes": failedWrites}
	kind := "direct"
	if cfg.WriteCoalesceWaitTime > 0 {
		kind = "coalesced"
	}
	for _, p := range res.wireProblems {
		k := p.key
		if !strings.HasSuffix(k, ":direct") && !strings.HasSuffix(k, ":coalesced") {
			k += ":tcp:" + kind
		} else {
			k = strings.TrimSuffix(strings.TrimSuffix(k, ":direct"), ":coalesced") + ":tcp:" + kind
		}
		c.Violation(k, p.what, wit)
	}
	if c.WantSample() {
		c.Sample(wit)
	}
}

// c07queuedCancel: requests that are queued behind a write in progress and whose contexts end while they wait. The
// write in progress is slow, not failing (the transport takes 400 ms to accept it), so whatever is allowed to proceed
// afterwards really reaches the wire. The waiting requests are known to have reached the writer (hook point just in
// front of it) before they are cancelled; none of their bytes may ever appear.
func c07queuedCancel(c *runner.Ctx, i int) {
	r := c.Rng
	version := 3 + i%3
	coalesced := i%2 == 1
	cl := fakenode.NewCluster(1)
	cl.Nodes[0].Handler = func(sc *fakenode.ServerConn, req *fakenode.Req) { sc.ReplyVoid(req) }
	var slow int32
	cl.FaultsFor = func(n *fakenode.Node, k int) memnet.Faults {
		f := memnet.NoFaults()
		if k == 1 {
			f.WriteDelayFn = func() time.Duration {
				if atomic.LoadInt32(&slow) == 1 {
					return 400 * time.Millisecond
				}
				return 0
			}
		}
		return f
	}
	ctl := perturb.Install(c.Seed*71+int64(i), 0, 0, &c.Activity)
	defer perturb.Uninstall()
	var built int64
	ctl.SetOnHit("exec.built", func() { atomic.AddInt64(&built, 1) })
	cfg := newCfg(cl, version)
	cfg.NumConns = 1
	cfg.Timeout = 5 * time.Second
	cfg.ConnectTimeout = 5 * time.Second
	cfg.WriteTimeout = 5 * time.Second
	if coalesced {
		cfg.WriteCoalesceWaitTime = 200 * time.Microsecond
	}
	cfg.PageSize = 0
	cfg.DefaultTimestamp = false
	var sess *gocql.Session
	var err error
	c.Guard("CreateSession", func() { sess, err = cfg.CreateSession() })
	if err != nil {
		c.Inconclusive("c07queued-session", err.Error())
		return
	}
	defer func() { c.Guard("Session.Close", sess.Close) }()
	// let the pool settle (its connection does its handshake at full speed), then make writes slow
	if err := sess.Query("ECHO warm" + fmt.Sprint(i)).Exec(); err != nil {
		c.Inconclusive("c07queued-warmup", err.Error())
		return
	}
	atomic.StoreInt32(&slow, 1)
	b0 := atomic.LoadInt64(&built)
	var wg sync.WaitGroup
	tokA := fmt.Sprintf("qa%d", i)
	wg.Add(1)
	go func() {
		defer wg.Done()
		c.Guard("Query.Exec", func() { sess.Query("ECHO " + tokA).Exec() })
	}()
	// A has reached the writer; give it a moment to be inside the slow write (coalesced: inside the flush)
	for w := 0; w < 2000 && atomic.LoadInt64(&built) < b0+1; w++ {
		time.Sleep(time.Millisecond)
	}
	time.Sleep(20 * time.Millisecond)
	nb := 2 + r.Intn(5)
	type waiter struct {
		tok    string
		cancel context.CancelFunc
		err    error
		done   chan struct{}
	}
	var ws []*waiter
	for k := 0; k < nb; k++ {
		ctx, cancel := context.WithCancel(context.Background())
		if k%2 == 1 {
			ctx, cancel = context.WithTimeout(context.Background(), 60*time.Millisecond)
		}
		w := &waiter{tok: fmt.Sprintf("qb%d_%d", i, k), cancel: cancel, done: make(chan struct{})}
		ws = append(ws, w)
		wg.Add(1)
		go func() {
			defer wg.Done()
			defer close(w.done)
			c.Guard("Query.Exec", func() { w.err = sess.Query("ECHO " + w.tok).WithContext(ctx).Exec() })
		}()
	}
	for w := 0; w < 2000 && atomic.LoadInt64(&built) < b0+1+int64(nb); w++ {
		time.Sleep(time.Millisecond)
	}
	reached := atomic.LoadInt64(&built) >= b0+1+int64(nb)
	time.Sleep(30 * time.Millisecond)
	for _, w := range ws {
		w.cancel()
	}
	wg.Wait()
	atomic.StoreInt32(&slow, 0)
	c.Add("queued_cancel_cases", 1)
	if !reached {
		c.Inconclusive("c07queued-not-reached", "the waiting requests did not all reach the writer")
		return
	}
	c.Add("requests_cancelled_while_queued", int64(nb))
	c.Eval(runner.H("c07queued", version, coalesced, nb), true)
	// a later request proves that everything written before it has reached the record
	sess.Query("ECHO tail" + fmt.Sprint(i)).Exec()
	var all []string
	for _, sc := range cl.AllConns() {
		wr, _, _, _ := sc.Driver.Snapshot()
		all = append(all, string(wr))
	}
	kind := "direct"
	if coalesced {
		kind = "coalesced"
	}
	for _, w := range ws {
		if w.err == nil {
			continue // it got through before it was cancelled (cannot happen while A holds the writer, but then it is a sent request)
		}
		for _, s := range all {
			if strings.Contains(s, "ECHO "+w.tok) {
				c.Violation("C07:bytes-for-request-cancelled-while-queued:"+kind, fmt.Sprintf("request %s waited behind a write in progress, its context ended there (%v), and its frame was written afterwards", w.tok, w.err),
					map[string]interface{}{"version": version, "writer": kind, "waiters": nb})
				return
			}
		}
	}
}
