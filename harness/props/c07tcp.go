package props

import (
	"context"
	"fmt"
	"math/rand"
	"net"
	"strings"
	"sync"
	"sync/atomic"
	"time"

	"github.com/gocql/gocql"

	"verifharness/fakenode"
	"verifharness/runner"
)

// C07 over a real TCP socket. The in-memory transport never takes the path real deployments
// take: net.Buffers.WriteTo on a *net.TCPConn is writev(2), with the kernel accepting part of
// a batch, the Go runtime looping over the rest, and a write deadline that can expire in the
// middle of it. Here the driver dials 127.0.0.1; a recording proxy forwards the bytes to the
// scripted in-memory node and can read slowly through small socket buffers, so that writes
// really block in the kernel and really time out half way through a frame.

type c07proxied struct {
	idx    int
	mu     sync.Mutex
	rec    []byte
	closed int32 // the driver's end is gone (read returned EOF / error)
}

func (p *c07proxied) isClosed() bool { return atomic.LoadInt32(&p.closed) == 1 }

type c07proxy struct {
	ln    net.Listener
	cl    *fakenode.Cluster
	mu    sync.Mutex
	conns []*c07proxied
	// slow reader: read at most chunk bytes, then pause
	chunk int
	pause time.Duration
	wg    sync.WaitGroup
}

func newC07proxy(cl *fakenode.Cluster, chunk int, pause time.Duration) (*c07proxy, error) {
	ln, err := net.Listen("tcp", "127.0.0.1:0")
	if err != nil {
		return nil, err
	}
	p := &c07proxy{ln: ln, cl: cl, chunk: chunk, pause: pause}
	go p.accept()
	return p, nil
}

func (p *c07proxy) accept() {
	for {
		tc, err := p.ln.Accept()
		if err != nil {
			return
		}
		nd := p.cl.Nodes[0]
		inner, err := fakenode.Dialer{C: p.cl}.DialContext(context.Background(), "tcp", net.JoinHostPort(nd.IP.String(), fmt.Sprint(nd.Port)))
		if err != nil {
			tc.Close()
			continue
		}
		p.mu.Lock()
		pc := &c07proxied{idx: len(p.conns)}
		p.conns = append(p.conns, pc)
		p.mu.Unlock()
		if p.chunk > 0 {
			if t, ok := tc.(*net.TCPConn); ok {
				t.SetReadBuffer(4096)
			}
		}
		p.wg.Add(2)
		go func() { // driver -> node, recorded
			defer p.wg.Done()
			size := 64 << 10
			if p.chunk > 0 {
				size = p.chunk
			}
			buf := make([]byte, size)
			for {
				n, err := tc.Read(buf)
				if n > 0 {
					pc.mu.Lock()
					pc.rec = append(pc.rec, buf[:n]...)
					pc.mu.Unlock()
					if _, werr := inner.Write(buf[:n]); werr != nil {
						break
					}
				}
				if err != nil {
					break
				}
				if p.pause > 0 {
					time.Sleep(p.pause)
				}
			}
			atomic.StoreInt32(&pc.closed, 1)
			inner.Close()
			tc.Close()
		}()
		go func() { // node -> driver
			defer p.wg.Done()
			buf := make([]byte, 64<<10)
			for {
				n, err := inner.Read(buf)
				if n > 0 {
					if _, werr := tc.Write(buf[:n]); werr != nil {
						break
					}
				}
				if err != nil {
					break
				}
			}
			tc.Close()
			inner.Close()
		}()
	}
}

type c07tcpDialer struct {
	addr   string
	sndbuf int
	dials  int64
}

func (d *c07tcpDialer) DialContext(ctx context.Context, network, addr string) (net.Conn, error) {
	atomic.AddInt64(&d.dials, 1)
	var nd net.Dialer
	conn, err := nd.DialContext(ctx, "tcp", d.addr)
	if err != nil {
		return nil, err
	}
	if d.sndbuf > 0 {
		if t, ok := conn.(*net.TCPConn); ok {
			t.SetWriteBuffer(d.sndbuf)
		}
	}
	return conn, nil // a *net.TCPConn: the driver's net.Buffers.WriteTo is writev(2)
}

func c07tcp(c *runner.Ctx, i int) {
	r := c.Rng
	version := 1 + i%5
	slow := i%2 == 1
	cl := fakenode.NewCluster(1)
	cl.Nodes[0].Handler = func(sc *fakenode.ServerConn, req *fakenode.Req) { sc.ReplyVoid(req) }
	chunk, pause := 0, time.Duration(0)
	if slow {
		chunk = []int{256, 1024, 4096}[r.Intn(3)]
		pause = time.Duration(200+r.Intn(3000)) * time.Microsecond
	}
	px, err := newC07proxy(cl, chunk, pause)
	if err != nil {
		c.Inconclusive("c07tcp-listen", err.Error())
		return
	}
	defer px.ln.Close()
	dl := &c07tcpDialer{addr: px.ln.Addr().String()}
	if slow {
		dl.sndbuf = 4096
	}
	res := &echoResult{outcomes: map[string]int{}, byToken: map[string]string{}, preCancelled: map[string]bool{}, writes: map[string]writeObs{}, receiverSideRecord: true}
	var wmu sync.Mutex
	gocql.VerifSetWriteObserver(func(frame []byte, n int, err error) {
		tok := tokenOf(frame)
		if tok == "" {
			return
		}
		o := writeObs{n: n, size: len(frame)}
		if err != nil {
			o.err = err.Error()
		}
		wmu.Lock()
		res.writes[tok] = o
		wmu.Unlock()
	})
	defer gocql.VerifSetWriteObserver(nil)
	cfg := newCfg(cl, version)
	cfg.Dialer = dl
	cfg.NumConns = 1 + r.Intn(2)
	cfg.WriteCoalesceWaitTime = []time.Duration{0, 200 * time.Microsecond, 2 * time.Millisecond}[r.Intn(3)]
	cfg.Timeout = 300 * time.Millisecond
	cfg.ConnectTimeout = 2 * time.Second
	if slow {
		cfg.WriteTimeout = time.Duration(3+r.Intn(25)) * time.Millisecond
	}
	cfg.PageSize = 0
	cfg.DefaultTimestamp = false
	var sess *gocql.Session
	c.Guard("CreateSession", func() { sess, err = cfg.CreateSession() })
	if err != nil {
		c.Inconclusive("c07tcp-session", err.Error())
		return
	}
	writers := []int{2, 8, 32}[r.Intn(3)]
	per := 240 / writers
	maxPad := []int{0, 200, 20000, 60000, 250000}[r.Intn(5)]
	var mu sync.Mutex
	var wg sync.WaitGroup
	for w := 0; w < writers; w++ {
		wg.Add(1)
		rr := rand.New(rand.NewSource(r.Int63()))
		go func(w int) {
			defer wg.Done()
			for k := 0; k < per; k++ {
				pad := 0
				if maxPad > 0 {
					pad = rr.Intn(maxPad)
				}
				// the padding is part of the token: the statement is exactly "ECHO <token>", as the wire monitor expects
				tok := fmt.Sprintf("t%d_%d_%d_%s", i, w, k, strings.Repeat("p", pad))
				var qerr error
				c.Guard("Query.Exec", func() { qerr = sess.Query("ECHO " + tok).Exec() })
				cls := classifyErr(qerr)
				mu.Lock()
				res.outcomes[cls]++
				res.byToken[tok] = cls
				mu.Unlock()
			}
		}(w)
	}
	wg.Wait()
	// let the proxy drain what is still in the socket buffers before the session goes away, then close
	time.Sleep(20 * time.Millisecond)
	c.Guard("Session.Close", sess.Close)
	deadline := 0
	for ; deadline < 500; deadline++ {
		all := true
		px.mu.Lock()
		for _, pc := range px.conns {
			if !pc.isClosed() {
				all = false
			}
		}
		px.mu.Unlock()
		if all {
			break
		}
		time.Sleep(10 * time.Millisecond)
	}
	px.ln.Close()
	var streams []wireStream
	px.mu.Lock()
	for _, pc := range px.conns {
		pc.mu.Lock()
		streams = append(streams, wireStream{idx: pc.idx, written: append([]byte{}, pc.rec...), closed: pc.isClosed})
		pc.mu.Unlock()
	}
	px.mu.Unlock()
	wmu.Lock()
	mu.Lock()
	echoWireStreams(res, streams)
	mu.Unlock()
	wmu.Unlock()
	failedWrites := 0
	for _, o := range res.writes {
		if o.err != "" {
			failedWrites++
		}
	}
	c.Add("tcp_scenarios", 1)
	if slow {
		c.Add("tcp_slow_reader_scenarios", 1)
	}
	c.Add("tcp_connections", int64(len(streams)))
	c.Add("tcp_frames_checked", res.wireFrames)
	c.Add("tcp_bytes_checked", res.wireBytes)
	c.Add("tcp_failed_writes", int64(failedWrites))
	c.Add("tcp_partial_tails_seen", int64(res.partialTails))
	for k := range res.outcomes {
		c.SetAdd("tcp_outcomes", k)
	}
	key := fmt.Sprintf("tcp v%d writers=%d coalesce=%v maxpad=%d slow=%v(chunk %d, pause %v, write timeout %v)", version, writers, cfg.WriteCoalesceWaitTime, maxPad, slow, chunk, pause, cfg.WriteTimeout)
	c.Eval(runner.H("c07tcp", version, writers, cfg.WriteCoalesceWaitTime, maxPad, slow, failedWrites > 0), true)
	wit := map[string]interface{}{"scenario": key, "outcomes": res.outcomes, "connections": len(streams), "failed_writes": failedWrites}
	kind := "direct"
	if cfg.WriteCoalesceWaitTime > 0 {
		kind = "coalesced"
	}
	for _, p := range res.wireProblems {
		k := p.key
		if !strings.HasSuffix(k, ":direct") && !strings.HasSuffix(k, ":coalesced") {
			k += ":tcp:" + kind
		} else {
			k = strings.TrimSuffix(strings.TrimSuffix(k, ":direct"), ":coalesced") + ":tcp:" + kind
		}
		c.Violation(k, p.what, wit)
	}
	if c.WantSample() {
		c.Sample(wit)
	}
}
