package props

import (
	"context"
	"encoding/binary"
	"errors"
	"fmt"
	"math/rand"
	"strings"
	"sync"
	"sync/atomic"
	"time"

	"github.com/gocql/gocql"

	"verifharness/cqlref"
	"verifharness/fakenode"
	"verifharness/perturb"
	"verifharness/runner"
)

// C14: prepared statements: prepared once, failures not cached, re-prepared when lost.

func init() {
	runner.Register(&runner.Prop{
		ID: "C14", Level: "exploration",
		Technique: "runtime monitor at scripted nodes: prepared ids encode (node, keyspace, statement, generation) and each statement's first bound value names the statement, so the node can check every EXECUTE / BATCH entry against the id it issued; PREPARE counts, failure and UNPREPARED scripts; cache-size probe; perturbation and race detector",
		Rule: "case = one session (1..3 nodes, 1..6 statements, keyspace none/set, MaxPreparedStmts in {1,2,3,1000}, 1..2 connections per host) with 1..64 concurrent executors per statement, queries and batches, and a script of PREPARE delays / errors / connection drops and of nodes forgetting ids (UNPREPARED); " +
			"distinct = hash(parameters, schedule signature); non-trivial = more than one concurrent executor of some statement, or a failure / UNPREPARED script",
		Assumptions: []string{
			"'exactly one PREPARE' is asserted only for (node, statement) pairs without scripted failure or forgetting and with a cache at least as large as the number of distinct keys",
			"host selection is plain round-robin, so no routing-key PREPARE interferes",
		},
		RaceOwner: func(fns []string) bool {
			for _, f := range fns {
				if strings.Contains(f, "preparedLRU") || strings.Contains(f, "prepareStatement") || strings.Contains(f, "lru.") || strings.Contains(f, "inflightPrepare") {
					return true
				}
			}
			return false
		},
		Phases: func(tier string) []runner.Phase {
			n := 1500
			if tier == "thorough" {
				n = 40000
			}
			return []runner.Phase{
				{Name: "scenarios", Variant: "race", Cases: n, Run: c14case, CaseTimeout: 120 * time.Second,
					Required: []string{"executes_checked", "batch_entries_checked", "concurrent_first_use", "prepare_failures_scripted", "unprepared_scripted", "wrong_arity_calls", "small_cache_scenarios", "deadline_scenarios", "callers_ended_by_their_own_deadline", "reused_query_scenarios", "result_rows_checked_against_their_prepare", "result_rows_of_a_later_generation_checked", "prepares_abandoned_by_every_waiter"}},
			}
		},
	})
}

type c14node struct {
	st              *c14state
	idx             int
	mu              sync.Mutex
	gen             map[int]int    // statement -> current generation
	prepN           map[string]int // "ks|stmt" -> PREPARE count
	failN           map[int]int    // statement -> remaining PREPAREs to fail
	dropN           map[int]int    // statement -> remaining PREPAREs answered by dropping the connection
	execN           map[int]int
	forgetEvery     map[int]int // statement -> forget it again after every this many EXECUTEs it served
	servedN         map[int]int
	failAfterForget bool
	forgetAfter     map[int]int // statement -> forget the id after this many EXECUTEs (once)
	delay           time.Duration
	scripted        map[int]bool
	hasDrop         bool
}

type c14state struct {
	mu          sync.Mutex
	problems    [][2]string
	execs       int64
	entries     int64
	unprep      int64
	newGenExec  int64
	ownDeadline int64
	// result rows read back and compared with the result metadata of the generation that served them
	rowsChecked       int64
	rowsCheckedNewGen int64
}

func (st *c14state) problem(key, what string) {
	st.mu.Lock()
	if len(st.problems) < 40 {
		st.problems = append(st.problems, [2]string{key, what})
	}
	st.mu.Unlock()
}

// Statements 2k and 2k+1 are different statements that differ only in the white space inside a string literal
// (one blank or two): a cache key must tell them apart.
func c14stmt(j int) string {
	return fmt.Sprintf("INSERT INTO t%d (tag, v) VALUES (?, ?) IF note != 'a%sb'", j/2, strings.Repeat(" ", 1+j%2))
}

func c14stmtIdx(s string) int {
	var k int
	if _, err := fmt.Sscanf(s, "INSERT INTO t%d ", &k); err != nil {
		return -1
	}
	switch {
	case strings.HasSuffix(s, "IF note != 'a b'"):
		return 2 * k
	case strings.HasSuffix(s, "IF note != 'a  b'"):
		return 2*k + 1
	}
	return -1
}

func (n *c14node) id(ks string, j, gen int) []byte {
	return []byte(fmt.Sprintf("ID|n%d|%s|s%d|g%d", n.idx, ks, j, gen))
}

// checkID validates an id presented in EXECUTE / BATCH on this node; returns statement and generation.
func (n *c14node) checkID(sc *fakenode.ServerConn, id []byte, vals []cqlref.BoundValue, where string) (int, int, bool) {
	var nn, j, g int
	var ks string
	parts := strings.Split(string(id), "|")
	if len(parts) != 5 || parts[0] != "ID" {
		n.st.problem("C14:unknown-id", fmt.Sprintf("%s on node %d carries id %q which no node issued", where, n.idx, id))
		return 0, 0, false
	}
	fmt.Sscanf(parts[1], "n%d", &nn)
	ks = parts[2]
	fmt.Sscanf(parts[3], "s%d", &j)
	fmt.Sscanf(parts[4], "g%d", &g)
	if nn != n.idx {
		n.st.problem("C14:id-from-other-host", fmt.Sprintf("%s on node %d carries id %q issued by node %d", where, n.idx, id, nn))
		return j, g, false
	}
	if ks != sc.Keyspace {
		n.st.problem("C14:id-from-other-keyspace", fmt.Sprintf("%s on a connection using keyspace %q carries id %q prepared in keyspace %q", where, sc.Keyspace, id, ks))
		return j, g, false
	}
	if len(vals) != 2 {
		n.st.problem("C14:wrong-arity-sent", fmt.Sprintf("%s for statement %d was sent with %d values, the statement has 2 bind markers", where, j, len(vals)))
		return j, g, false
	}
	if tag := string(vals[0].Bytes); tag != fmt.Sprintf("tag%d", j) {
		n.st.problem("C14:id-of-other-statement", fmt.Sprintf("%s carries the id of statement %d but the values of %q", where, j, tag))
		return j, g, false
	}
	return j, g, true
}

func (n *c14node) handler(sc *fakenode.ServerConn, req *fakenode.Req) {
	switch req.Header.Op {
	case cqlref.OpPrepare:
		j := c14stmtIdx(req.Statement)
		if j < 0 {
			sc.ReplyVoid(req)
			return
		}
		n.mu.Lock()
		n.prepN[fmt.Sprintf("%s|%d", sc.Keyspace, j)]++
		fail := n.failN[j] > 0
		if fail {
			n.failN[j]--
		}
		drop := !fail && n.dropN[j] > 0
		if drop {
			n.dropN[j]--
		}
		gen := n.gen[j]
		d := n.delay
		n.mu.Unlock()
		if d > 0 {
			time.Sleep(d)
		}
		switch {
		case fail:
			sc.ReplyError(req, &cqlref.ErrSpec{Code: 0x2200, Message: fmt.Sprintf("scripted PREPARE failure for statement %d", j)})
		case drop:
			sc.Close()
		default:
			ps := &cqlref.PreparedSpec{ID: n.id(sc.Keyspace, j, gen),
				Bind:   cqlref.Metadata{Global: true, ColCount: 2, Columns: []cqlref.Column{{Keyspace: "k", Table: fmt.Sprintf("t%d", j), Name: "tag", Type: &cqlref.Type{ID: cqlref.TText}}, {Keyspace: "k", Table: fmt.Sprintf("t%d", j), Name: "v", Type: &cqlref.Type{ID: cqlref.TInt}}}},
				Result: c14resultMeta(j, gen)}
			sc.Reply(req, cqlref.OpResult, nil, cqlref.BodyPrepared(sc.Version, ps))
		}
	case cqlref.OpExecute:
		j, g, ok := n.checkID(sc, req.PreparedID, req.Params.Values, "EXECUTE")
		atomic.AddInt64(&n.st.execs, 1)
		if !ok {
			sc.ReplyVoid(req)
			return
		}
		n.mu.Lock()
		n.execN[j]++
		if fa, has := n.forgetAfter[j]; has && n.execN[j] > fa {
			n.gen[j]++
			delete(n.forgetAfter, j)
		}
		cur := n.gen[j]
		if fe := n.forgetEvery[j]; fe > 0 && g >= cur {
			// a node that keeps losing its prepared statements: after every fe-th execution it served (counting
			// served ones only keeps the work bounded when many executors chase the current id)
			n.servedN[j]++
			if n.servedN[j]%fe == 0 {
				n.gen[j]++
				if n.failAfterForget {
					n.failN[j]++ // ... and refuses the next PREPARE of the statement it has just lost (e.g. its table is gone for a moment)
				}
			}
		}
		n.mu.Unlock()
		if g < cur {
			atomic.AddInt64(&n.st.unprep, 1)
			sc.ReplyError(req, &cqlref.ErrSpec{Code: 0x2500, Message: "unprepared", UnpreparedID: req.PreparedID})
			return
		}
		if g > 0 {
			atomic.AddInt64(&n.st.newGenExec, 1)
		}
		// the answer is one row laid out the way *this* generation of the statement was described in its PREPARED
		// response (a statement prepared again after a schema change can have other result columns)
		meta := c14resultMeta(j, g)
		row := [][]byte{req.PreparedID}
		for k := 1; k < meta.ColCount; k++ {
			var b [4]byte
			binary.BigEndian.PutUint32(b[:], uint32(g*10+k))
			row = append(row, b[:])
		}
		if req.Params.SkipMeta {
			meta.NoMetadata, meta.Columns = true, nil
		}
		sc.ReplyRows(req, &cqlref.RowsSpec{Meta: meta, Rows: [][][]byte{row}})
	case cqlref.OpBatch:
		stale := []byte(nil)
		for _, e := range req.BatchStmts {
			if e.Kind != 1 {
				continue
			}
			atomic.AddInt64(&n.st.entries, 1)
			j, g, ok := n.checkID(sc, e.ID, e.Values, "BATCH entry")
			if !ok {
				continue
			}
			n.mu.Lock()
			cur := n.gen[j]
			n.mu.Unlock()
			if g < cur && stale == nil {
				stale = e.ID
			}
		}
		if stale != nil {
			atomic.AddInt64(&n.st.unprep, 1)
			sc.ReplyError(req, &cqlref.ErrSpec{Code: 0x2500, Message: "unprepared", UnpreparedID: stale})
			return
		}
		sc.ReplyVoid(req)
	default:
		sc.ReplyVoid(req)
	}
}

// c14resultMeta: the result columns of generation gen of statement j: the id, then gen%3 int columns.
func c14resultMeta(j, gen int) cqlref.Metadata {
	m := cqlref.Metadata{Global: true, Columns: []cqlref.Column{{Keyspace: "k", Table: fmt.Sprintf("t%d", j), Name: "id", Type: &cqlref.Type{ID: cqlref.TText}}}}
	for k := 1; k <= gen%3; k++ {
		m.Columns = append(m.Columns, cqlref.Column{Keyspace: "k", Table: fmt.Sprintf("t%d", j), Name: fmt.Sprintf("x%d", k), Type: &cqlref.Type{ID: cqlref.TInt}})
	}
	m.ColCount = len(m.Columns)
	return m
}

// c14exec executes q and reads its one row: the row must be decoded with the result metadata of the PREPARE that
// issued the id the execution ended with.
func c14exec(st *c14state, q *gocql.Query) error {
	it := q.Iter()
	m := map[string]interface{}{}
	got := it.MapScan(m)
	cols := len(it.Columns())
	if err := it.Close(); err != nil {
		return err
	}
	atomic.AddInt64(&st.rowsChecked, 1)
	id, _ := m["id"].(string)
	var g int
	parts := strings.Split(id, "|")
	if !got || len(parts) != 5 {
		st.problem("C14:result-row-wrong", fmt.Sprintf("an execution that ended without error delivered row %v (got=%v) instead of the row the node sent", m, got))
		return nil
	}
	fmt.Sscanf(parts[4], "g%d", &g)
	want := 1 + g%3
	ok := cols == want && len(m) == want
	for k := 1; ok && k < want; k++ {
		if v, _ := m[fmt.Sprintf("x%d", k)].(int); v != g*10+k {
			ok = false
		}
	}
	if !ok {
		st.problem("C14:result-metadata-of-other-prepare", fmt.Sprintf("the execution ended with id %q, whose PREPARED response describes %d result columns; the row was decoded as %d columns: %v", id, want, cols, m))
	}
	if g > 0 {
		atomic.AddInt64(&st.rowsCheckedNewGen, 1)
	}
	return nil
}

func c14case(c *runner.Ctx, i int) {
	r := c.Rng
	version := 2 + i%4
	nn := 1 + r.Intn(3)
	ns := 1 + r.Intn(6)
	cl := fakenode.NewCluster(nn)
	st := &c14state{}
	var nodes []*c14node
	scriptFail, scriptForget := false, false
	for k, nd := range cl.Nodes {
		n := &c14node{st: st, idx: k, gen: map[int]int{}, prepN: map[string]int{}, failN: map[int]int{}, dropN: map[int]int{}, execN: map[int]int{}, forgetAfter: map[int]int{}, forgetEvery: map[int]int{}, servedN: map[int]int{}, scripted: map[int]bool{}}
		n.delay = []time.Duration{0, 0, 300 * time.Microsecond, 3 * time.Millisecond}[r.Intn(4)]
		for j := 0; j < ns; j++ {
			switch r.Intn(10) {
			case 0:
				n.failN[j] = 1 + r.Intn(2)
				n.scripted[j] = true
				scriptFail = true
			case 1:
				n.dropN[j] = 1
				n.scripted[j] = true
				n.hasDrop = true
				scriptFail = true
			case 2, 3:
				n.forgetAfter[j] = r.Intn(20)
				n.scripted[j] = true
				scriptForget = true
			}
		}
		nd.Handler = n.handler
		nodes = append(nodes, n)
	}
	if scriptFail {
		c.Add("prepare_failures_scripted", 1)
	}
	if scriptForget {
		c.Add("unprepared_scripted", 1)
	}
	cfg := newCfg(cl, version)
	cfg.Timeout = 3 * time.Second
	cfg.NumConns = 1 + r.Intn(2)
	cfg.MaxPreparedStmts = []int{1, 2, 3, 1000, 1000}[r.Intn(5)]
	if cfg.MaxPreparedStmts < nn*ns {
		c.Add("small_cache_scenarios", 1)
	}
	ks := []string{"", "ks1"}[r.Intn(2)]
	cfg.Keyspace = ks
	cfg.PoolConfig.HostSelectionPolicy = gocql.RoundRobinHostPolicy()
	ctl := perturb.Install(c.Seed*31+int64(i), []int{0, 20, 50}[r.Intn(3)], time.Millisecond, &c.Activity)
	defer perturb.Uninstall()
	sess, err := cfg.CreateSession()
	if err != nil {
		c.Inconclusive("c14-session", err.Error())
		return
	}
	executors := []int{1, 2, 8, 32, 64}[r.Intn(5)]
	if executors > 1 {
		c.Add("concurrent_first_use", 1)
	}
	// executors that keep one Query object and bind it again for every round (the documented way to reuse a query),
	// against nodes that lose their prepared statements again and again: every loss is recovered from
	reuseQuery := r.Intn(3) == 0 && executors <= 8
	if reuseQuery {
		c.Add("reused_query_scenarios", 1)
		for _, n := range nodes {
			n.mu.Lock()
			for j := 0; j < ns; j++ {
				if r.Intn(2) == 0 {
					n.forgetEvery[j] = 3 + r.Intn(6)
					n.scripted[j] = true
				}
				n.failAfterForget = i%2 == 0
			}
			n.mu.Unlock()
		}
	}
	// some executors run under a context deadline that is shorter than the node's PREPARE latency: whoever of them
	// starts the PREPARE gives up, which must not take the executors waiting on the same PREPARE down with it
	// (only with a cache that holds every statement: with evictions every execution prepares again, and the
	// scripted latency, which the node applies one request at a time, would add up to the driver's own timeout)
	deadlineCallers := executors > 1 && r.Intn(3) == 0 && cfg.MaxPreparedStmts >= nn*ns+1
	if deadlineCallers {
		c.Add("deadline_scenarios", 1)
		for _, n := range nodes {
			n.mu.Lock()
			n.delay = time.Duration(12+r.Intn(20)) * time.Millisecond
			n.mu.Unlock()
		}
	}
	rounds := 1 + r.Intn(4)
	if reuseQuery {
		rounds = 6 + r.Intn(8)
	}
	var wg sync.WaitGroup
	var emu sync.Mutex
	errs := map[string]int{}
	start := make(chan struct{})
	for j := 0; j < ns; j++ {
		for e := 0; e < executors; e++ {
			wg.Add(1)
			seed := r.Int63()
			go func(j, e int) {
				defer wg.Done()
				rr := rand.New(rand.NewSource(seed))
				<-start
				var kept *gocql.Query
				for k := 0; k < rounds; k++ {
					var err error
					ctx := context.Background()
					hasDeadline := deadlineCallers && e%3 == 0
					if hasDeadline {
						var cancel context.CancelFunc
						ctx, cancel = context.WithTimeout(ctx, time.Duration(1+rr.Intn(6))*time.Millisecond)
						defer cancel()
						if k == 0 && e%6 == 0 {
							cancel() // this executor has given up before it even starts (it may still be the first to ask for the statement)
						}
					}
					if version >= 2 && rr.Intn(5) == 0 {
						b := sess.NewBatch(gocql.UnloggedBatch).WithContext(ctx)
						b.Query(c14stmt(j), fmt.Sprintf("tag%d", j), k)
						j2 := rr.Intn(ns)
						b.Query(c14stmt(j2), fmt.Sprintf("tag%d", j2), k)
						c.Guard("ExecuteBatch", func() { err = sess.ExecuteBatch(b) })
					} else {
						q := kept
						if q == nil {
							q = sess.Query(c14stmt(j))
							if reuseQuery {
								kept = q
							}
						}
						q.Bind(fmt.Sprintf("tag%d", j), k)
						if hasDeadline {
							c.Guard("Query.Exec", func() { err = c14exec(st, q.WithContext(ctx)) }) // (WithContext works on a copy)
						} else {
							c.Guard("Query.Exec", func() { err = c14exec(st, q) })
						}
					}
					if hasDeadline && err != nil && (errors.Is(err, context.DeadlineExceeded) || errors.Is(err, context.Canceled) || strings.Contains(err.Error(), "deadline exceeded") || strings.Contains(err.Error(), "context canceled")) {
						// this caller's own deadline
						atomic.AddInt64(&st.ownDeadline, 1)
						continue
					}
					if err != nil {
						emu.Lock()
						errs[clipS(err.Error())]++
						emu.Unlock()
					}
				}
			}(j, e)
		}
	}
	close(start)
	wg.Wait()
	// wrong number of bound values: must be refused locally
	arityErrs := 0
	for j := 0; j < ns; j++ {
		before := atomic.LoadInt64(&st.execs)
		err := sess.Query(c14stmt(j), fmt.Sprintf("tag%d", j)).Exec()
		c.Add("wrong_arity_calls", 1)
		if err == nil {
			st.problem("C14:wrong-arity-accepted", fmt.Sprintf("statement %d executed with 1 value instead of 2 returned no error", j))
		} else if strings.Contains(err.Error(), "expected 2 values") {
			arityErrs++
		}
		_ = before
		// three values, and none at all (a binding callback that comes back empty-handed): refused, not sent
		if err := sess.Query(c14stmt(j), fmt.Sprintf("tag%d", j), 1, 2).Exec(); err == nil {
			st.problem("C14:wrong-arity-accepted", fmt.Sprintf("statement %d executed with 3 values instead of 2 returned no error", j))
		}
		if err := sess.Bind(c14stmt(j), func(*gocql.QueryInfo) ([]interface{}, error) { return nil, nil }).Exec(); err == nil {
			st.problem("C14:wrong-arity-accepted", fmt.Sprintf("statement %d executed with no values (empty binding) instead of 2 returned no error", j))
		}
		if version >= 2 {
			b := sess.NewBatch(gocql.UnloggedBatch)
			b.Query(c14stmt(j), fmt.Sprintf("tag%d", j), 7)
			b.Bind(c14stmt((j+1)%ns), func(*gocql.QueryInfo) ([]interface{}, error) { return []interface{}{}, nil })
			if err := sess.ExecuteBatch(b); err == nil {
				st.problem("C14:wrong-arity-accepted", fmt.Sprintf("a batch whose second entry binds no values to statement %d (2 markers) returned no error", (j+1)%ns))
			}
		}
		c.Add("wrong_arity_calls", 3)
	}
	// after scripted failures are used up, every statement must work on every node again (failures are not cached)
	for round := 0; round < 2*nn; round++ {
		for j := 0; j < ns; j++ {
			var err error
			left := 0
			for _, n := range nodes {
				n.mu.Lock()
				left += n.failN[j] + n.dropN[j]
				n.mu.Unlock()
			}
			c.Guard("Query.Exec", func() { err = sess.Query(c14stmt(j), fmt.Sprintf("tag%d", j), 99).Exec() })
			if err != nil {
				dropped := false
				for _, n := range nodes {
					n.mu.Lock()
					dropped = dropped || n.hasDrop
					n.mu.Unlock()
				}
				if dropped && strings.Contains(err.Error(), "context canceled") {
					// the request was in flight on a connection that a scripted drop was still tearing down
					continue
				}
				if left == 0 && !strings.Contains(err.Error(), "no connections") && !strings.Contains(err.Error(), "no hosts") && !strings.Contains(err.Error(), "closed") && !strings.Contains(err.Error(), "EOF") {
					st.problem("C14:failure-remembered", fmt.Sprintf("statement %d still fails with %q although every scripted PREPARE failure has been used up", j, clipS(err.Error())))
				}
			}
		}
	}
	// a PREPARE that fails after everybody who waited for it has left (their own deadlines): the failure has no
	// audience, and the next execution must prepare afresh instead of being handed that failure
	if i%3 == 0 {
		jx := ns // a statement nobody has used yet
		for _, n := range nodes {
			n.mu.Lock()
			n.failN[jx] = 1
			n.scripted[jx] = true
			n.delay = 40 * time.Millisecond
			n.mu.Unlock()
		}
		abandoned := 0
		for k := 0; k < nn+1; k++ {
			ctx, cancel := context.WithTimeout(context.Background(), 4*time.Millisecond)
			var err error
			c.Guard("Query.Exec", func() { err = sess.Query(c14stmt(jx), fmt.Sprintf("tag%d", jx), k).WithContext(ctx).Exec() })
			cancel()
			if err != nil && (errors.Is(err, context.DeadlineExceeded) || strings.Contains(err.Error(), "deadline exceeded")) {
				abandoned++
			}
			time.Sleep(90 * time.Millisecond) // the node answers the abandoned PREPARE (with the failure) meanwhile
		}
		for _, n := range nodes {
			n.mu.Lock()
			n.delay = 0
			n.mu.Unlock()
		}
		c.Add("prepares_abandoned_by_every_waiter", int64(abandoned))
		time.Sleep(100 * time.Millisecond)
		// (a caller that still finds the failing PREPARE in flight is legitimately handed its failure: only a failure
		// that keeps coming back is a remembered one)
		stale, lastErr := 0, ""
		for round := 0; round < 5*nn; round++ {
			left := 0
			for _, n := range nodes {
				n.mu.Lock()
				left += n.failN[jx]
				n.mu.Unlock()
			}
			var err error
			c.Guard("Query.Exec", func() { err = sess.Query(c14stmt(jx), fmt.Sprintf("tag%d", jx), 100+round).Exec() })
			if err != nil && left == 0 && strings.Contains(err.Error(), "scripted PREPARE failure") {
				stale++
				lastErr = err.Error()
			}
		}
		if stale >= 3 {
			st.problem("C14:failure-remembered", fmt.Sprintf("statement %d failed %d times with %q after every scripted PREPARE failure had been delivered (to PREPAREs whose callers had all left)", jx, stale, clipS(lastErr)))
		}
	}
	cacheLen := gocql.VerifPreparedCacheLen(sess)
	if cacheLen > cfg.MaxPreparedStmts {
		st.problem("C14:cache-over-capacity", fmt.Sprintf("the prepared-statement cache holds %d entries, MaxPreparedStmts is %d", cacheLen, cfg.MaxPreparedStmts))
	}
	c.Guard("Session.Close", sess.Close)
	// a starved machine: driver timeouts expire although the nodes answer; a PREPARE that timed out is legitimately
	// sent again, and the timeouts themselves are nobody's finding
	starved := false
	for e := range errs {
		if strings.Contains(e, "no response received from cassandra within timeout period") || strings.Contains(e, "i/o timeout") || strings.Contains(e, "no response to connection startup within timeout") {
			starved = true
		}
	}
	if starved {
		c.Inconclusive("c14-timeouts", "executions ended with driver timeouts although the nodes answer every request")
	}
	// PREPARE counts
	bigCache := cfg.MaxPreparedStmts >= nn*ns+1 && !starved
	for k, n := range nodes {
		n.mu.Lock()
		for key, cnt := range n.prepN {
			var j int
			p := strings.Split(key, "|")
			fmt.Sscan(p[1], &j)
			// a dropped connection fails every in-flight PREPARE on that host, which may legitimately be repeated
			if !n.scripted[j] && !n.hasDrop && bigCache && cnt > 1 {
				st.problem("C14:prepared-more-than-once", fmt.Sprintf("node %d received %d PREPAREs for statement %d in keyspace %q (%d concurrent executors, no failure, loss or eviction in play)", k, cnt, j, p[0], executors))
			}
		}
		n.mu.Unlock()
	}
	anyDrop := false
	for _, n := range nodes {
		if n.hasDrop {
			anyDrop = true
		}
	}
	c.Add("callers_ended_by_their_own_deadline", atomic.LoadInt64(&st.ownDeadline))
	c.Add("executes_checked", atomic.LoadInt64(&st.execs))
	c.Add("batch_entries_checked", atomic.LoadInt64(&st.entries))
	c.Add("unprepared_answers", atomic.LoadInt64(&st.unprep))
	c.Add("executes_with_new_generation_id", atomic.LoadInt64(&st.newGenExec))
	c.Add("result_rows_checked_against_their_prepare", atomic.LoadInt64(&st.rowsChecked))
	c.Add("result_rows_of_a_later_generation_checked", atomic.LoadInt64(&st.rowsCheckedNewGen))
	// errors callers saw: only the scripted ones (or consequences of a dropped connection) are acceptable
	for e, cnt := range errs {
		switch {
		case anyDrop && strings.Contains(e, "context canceled"):
			// the PREPARE runs under the connection's context; a dropped connection cancels it
			c.SetAdd("caller_errors", "scripted-or-connection")
		case starved && (strings.Contains(e, "timeout") || strings.Contains(e, "no connections") || strings.Contains(e, "no hosts")):
			c.SetAdd("caller_errors", "driver-timeout")
		case strings.Contains(e, "scripted PREPARE failure"), strings.Contains(e, "closed"), strings.Contains(e, "EOF"), strings.Contains(e, "no connections"), strings.Contains(e, "no hosts"), strings.Contains(e, "closed pipe"), strings.Contains(e, "no streams available"):
			c.SetAdd("caller_errors", "scripted-or-connection")
		default:
			st.problem("C14:unexpected-error", fmt.Sprintf("%d executions failed with %q", cnt, e))
		}
	}
	key := fmt.Sprintf("v%d nodes=%d stmts=%d exec=%d cache=%d ks=%q conns=%d fail=%v forget=%v", version, nn, ns, executors, cfg.MaxPreparedStmts, ks, cfg.NumConns, scriptFail, scriptForget)
	c.Eval(runner.H("c14", key, ctl.Signature()), executors > 1 || scriptFail || scriptForget)
	wit := map[string]interface{}{"scenario": key, "caller_errors": errs}
	st.mu.Lock()
	for _, p := range st.problems {
		c.Violation(p[0], p[1], wit)
	}
	st.mu.Unlock()
	for _, b := range cl.BadFrames {
		c.Violation("C14:malformed-request", clipS(b), wit)
	}
	if c.WantSample() {
		pc := map[string]int{}
		for k, n := range nodes {
			n.mu.Lock()
			for key, cnt := range n.prepN {
				pc[fmt.Sprintf("node%d/%s", k, key)] = cnt
			}
			n.mu.Unlock()
		}
		c.Sample(map[string]interface{}{"scenario": key, "prepare_counts": pc, "executes": st.execs, "unprepared_answers": st.unprep, "cache_len": cacheLen})
	}
}
