package props

import (
	"fmt"
	"strings"
	"sync"
	"time"

	"github.com/gocql/gocql"

	"verifharness/cqlref"
	"verifharness/fakenode"
	"verifharness/runner"
)

// C01: every response reaches the request that caused it, and only that one.

func connRaceOwner(fns []string) bool {
	for _, f := range fns {
		if strings.Contains(f, "(*Conn).exec") || strings.Contains(f, "(*Conn).recv") || strings.Contains(f, "closeWithError") || strings.Contains(f, "releaseStream") ||
			strings.Contains(f, "addCall") || strings.Contains(f, "streams.") || strings.Contains(f, "(*Conn).serve") || strings.Contains(f, "readHeader") || strings.Contains(f, "(*framer)") {
			return true
		}
	}
	return false
}

func init() {
	runner.Register(&runner.Prop{
		ID: "C01", Level: "exploration",
		Technique: "runtime monitors on both sides of a real connection to a scripted in-memory node: token echoed by the node must equal the caller's token; the node flags any request arriving on a stream id whose previous response it has not written; schedule perturbation at hook points; Go race detector",
		Rule: "case = one scenario (protocol version 1-5, 1..200 callers, answer order in {in-order, reversed windows, shuffled windows}, percent late / never answered / error frames, context cancellations and deadlines, write cut or node-side close mid-frame, coalescing on/off, perturbation seed), followed by delivery of the late answers and an id-reuse phase; " +
			"distinct = hash(scenario parameters, schedule signature of the first 256 hook events); non-trivial = at least one late response was delivered after its caller had left AND that stream id was later used again",
		Assumptions: []string{
			"the in-memory pipe is FIFO and the node marks a stream answered before it hands the response bytes to the pipe, so a request seen on an outstanding stream was sent before its predecessor's response could have been read",
			"which outcome (response / timeout / cancellation) a call gets is timing dependent and never asserted; only token equality and stream exclusivity are",
		},
		RaceOwner: connRaceOwner,
		Phases: func(tier string) []runner.Phase {
			n, sweep := 160, 1
			if tier == "thorough" {
				n, sweep = 4000, 10
			}
			return []runner.Phase{
				{Name: "scenarios", Variant: "race", Cases: n, Run: c01case, CaseTimeout: 180 * time.Second, Required: []string{"late_delivered_then_reused", "calls_ok", "calls_server_error", "calls_timeout", "calls_ctx", "window_scenarios", "answers_split_across_the_read_timeout", "answers_longer_than_a_mebibyte", "write_stalls_between_two_frames", "rows_read_after_later_answers_arrived", "answers_split_beyond_the_read_retries"}},
				{Name: "stream-sweep", Variant: "plain", Cases: sweep, Shards: 2, Run: c01sweep, CaseTimeout: 300 * time.Second, Required: []string{"ids_swept"}},
			}
		},
	})
}

func c01cfg(c *runner.Ctx, i int) *echoCfg {
	r := c.Rng
	ec := &echoCfg{version: 1 + i%5, numConns: 1, writeCutAt: -1, nodeCloseAfter: -1, closeSessionAfter: -1, seed: c.Seed*1000003 + int64(i)}
	ec.callers = []int{1, 2, 8, 64, 200}[r.Intn(5)]
	total := 600 + r.Intn(1200)
	ec.perCaller = total/ec.callers + 1
	ec.timeout = time.Duration(20+r.Intn(40)) * time.Millisecond
	if r.Intn(3) == 0 {
		ec.coalesce = []time.Duration{50 * time.Microsecond, 200 * time.Microsecond}[r.Intn(2)]
	}
	switch r.Intn(4) {
	case 0:
	case 1:
		ec.window, ec.windowMode = 2+r.Intn(30), "reverse"
	default:
		ec.window, ec.windowMode = 2+r.Intn(30), "shuffle"
	}
	if ec.window > ec.callers {
		ec.window = ec.callers
	}
	ec.pLate = []int{0, 2, 5, 15}[r.Intn(4)]
	ec.pNever = []int{0, 0, 1, 4}[r.Intn(4)]
	ec.pErrFrame = []int{0, 10, 50}[r.Intn(3)]
	ec.pPreCancel = []int{0, 2}[r.Intn(2)]
	ec.pCancel = []int{0, 3, 10}[r.Intn(3)]
	ec.pDeadline = []int{0, 3}[r.Intn(2)]
	ec.intensity = []int{0, 10, 30, 60}[r.Intn(4)]
	ec.reusePhase = 700
	if ec.version < 3 {
		ec.reusePhase = 200
	}
	switch r.Intn(8) {
	case 0:
		ec.writeCutAt = int64(200 + r.Intn(40000))
		ec.reusePhase = 0
	case 1:
		ec.nodeCloseAfter = 20 + r.Intn(400)
		ec.reusePhase = 0
	}
	ec.bigFrames = r.Intn(4) == 0
	ec.pHoldIter = []int{0, 10, 40}[r.Intn(3)]
	if i%4 == 2 {
		// family: a few answers arrive in two pieces with a gap longer than the driver's read timeout in between
		// (each costs 1.5 x timeout on its connection, so only a handful)
		ec.pSplit = 1 + r.Intn(2)
		ec.callers = []int{2, 8, 64}[r.Intn(3)]
		ec.perCaller = 240/ec.callers + 1
		ec.pLate, ec.pNever = 0, 0
	}
	if i%6 == 5 {
		// family: callers give up while their frame sits in the write coalescer and the node answers late
		ec.coalesce = []time.Duration{500 * time.Microsecond, 2 * time.Millisecond}[r.Intn(2)]
		ec.pCancel, ec.pDeadline, ec.pPreCancel = 30, 10, 0
		ec.pLate, ec.pNever = 30, 5
		ec.timeout = 8 * time.Millisecond
		ec.writeCutAt, ec.nodeCloseAfter = -1, -1
		ec.reusePhase = 700
		if ec.version < 3 {
			ec.reusePhase = 200
		}
	}
	if i%12 == 10 {
		// (within the split family) the gap outlasts every retry of the driver's body read: the driver gives the
		// frame up in the middle - and with it its place in the stream; it must not go on reading "headers" from there
		ec.splitGapX = 6 + r.Intn(3)
		ec.timeout = time.Duration(15+r.Intn(15)) * time.Millisecond
		ec.pSplit = 2
	}
	if i%12 == 3 {
		// family: a few answers are 1..4 MiB long (not a whole number of MiB), with ordinary answers right behind them
		ec.hugeAnswers = true
		ec.callers = []int{4, 16, 64}[r.Intn(3)]
		ec.perCaller = 400/ec.callers + 1
		ec.timeout = 2 * time.Second
		ec.pLate, ec.pNever, ec.pSplit = 0, 0, 0
		ec.writeCutAt, ec.nodeCloseAfter = -1, -1
		ec.reusePhase = 100
	}
	if i%12 == 7 {
		// family: the peer stops reading for one write deadline, exactly between two frames of a coalesced batch
		ec.coalesce = []time.Duration{200 * time.Microsecond, 2 * time.Millisecond}[r.Intn(2)]
		ec.callers = []int{16, 64}[r.Intn(2)]
		ec.perCaller = 600/ec.callers + 1
		ec.stallAt, ec.stallAtBoundary = int64(300+r.Intn(6000)), true
		ec.writeTimeout = time.Duration(5+r.Intn(20)) * time.Millisecond
		ec.writeCutAt, ec.nodeCloseAfter = -1, -1
		ec.pLate, ec.pNever, ec.pSplit = 0, 0, 0
		ec.reusePhase = 700
		if ec.version < 3 {
			ec.reusePhase = 200
		}
	}
	return ec
}

func echoKey(ec *echoCfg) string {
	return fmt.Sprintf("v%d/c%d/w%d%s/l%d/n%d/e%d/pc%d/c%d/d%d/cut%v/ncl%v/co%v/i%d", ec.version, ec.callers, ec.window, ec.windowMode, ec.pLate, ec.pNever, ec.pErrFrame, ec.pPreCancel, ec.pCancel, ec.pDeadline, ec.writeCutAt >= 0, ec.nodeCloseAfter >= 0, ec.coalesce > 0, ec.intensity)
}

func c01case(c *runner.Ctx, i int) {
	ec := c01cfg(c, i)
	res := runEcho(c, ec)
	if res == nil {
		return
	}
	nontrivial := res.lateDelivered > 0 && res.lateReused > 0
	c.Eval(runner.H(echoKey(ec), res.signature), nontrivial)
	if nontrivial {
		c.Add("late_delivered_then_reused", 1)
	}
	if ec.window > 1 {
		c.Add("window_scenarios", 1)
	}
	c.Add("calls_ok", int64(res.outcomes["ok"]))
	c.Add("calls_server_error", int64(res.outcomes["server-error"]))
	c.Add("calls_timeout", int64(res.outcomes["timeout"]))
	c.Add("calls_ctx", int64(res.outcomes["ctx-canceled"]+res.outcomes["ctx-deadline"]))
	c.Add("late_answers_delivered", res.lateDelivered)
	c.Add("late_ids_reused", res.lateReused)
	for k, v := range res.hits {
		c.Add("hook:"+k, v)
	}
	for k := range res.outcomes {
		c.SetAdd("outcomes", k)
	}
	c.SetAdd("scenario_shapes", fmt.Sprintf("v%d callers=%d window=%s", ec.version, ec.callers, ec.windowMode))
	wit := map[string]interface{}{"scenario": echoKey(ec), "outcomes": res.outcomes, "seed": ec.seed}
	for _, m := range res.mismatches {
		c.Violation(fmt.Sprintf("C01:wrong-response:v%d", ec.version), "a caller received a response that belongs to another request: "+m, wit)
	}
	c.Add("answers_split_across_the_read_timeout", res.splits)
	if ec.splitGapX > 0 {
		c.Add("answers_split_beyond_the_read_retries", res.splits)
	}
	c.Add("answers_longer_than_a_mebibyte", res.hugeSent)
	c.Add("rows_read_after_later_answers_arrived", res.heldIters)
	if ec.stallAtBoundary {
		c.Add("write_stalls_between_two_frames", 1)
	}
	for _, d := range res.dupTokens {
		c.Violation("C01:request-sent-twice", "a request frame reached the node twice, so its stream id gets two answers and the second belongs to nobody (or to whoever holds the id by then): "+d, wit)
	}
	for _, s := range echoDesync(res) {
		c.Violation("C01:driver-lost-its-place-in-the-response-stream", s, wit)
	}
	for _, s := range res.recvStalls {
		c.Violation("C01:response-never-delivered", "the responses the node sent never reach the callers that wait for them: "+s, wit)
	}
	for _, s := range res.streamReuse {
		c.Violation(fmt.Sprintf("C01:stream-reused-while-pending:v%d", ec.version), "a request was sent on a stream id whose previous response had not been written yet: "+s, wit)
	}
	if ec.writeCutAt < 0 && (ec.stallAt <= 0 || ec.stallAtBoundary) {
		for _, b := range res.badFrames {
			c.Violation(fmt.Sprintf("C01:garbled-request:v%d", ec.version), "the node could not decode a request (no write fault was injected): "+clipS(b), wit)
		}
	}
	if c.WantSample() {
		c.Sample(map[string]interface{}{"scenario": echoKey(ec), "outcomes": res.outcomes, "late_delivered": res.lateDelivered, "late_ids_reused": res.lateReused, "hook_hits": res.hits})
	}
}

// c01sweep parks requests on every stream id of one connection (all answered at the end, in
// reverse order), so each id value is on the wire once and each response must find its caller.
func c01sweep(c *runner.Ctx, i int) {
	version := []int{4, 2, 3, 5, 1}[i%5]
	capacity := 32767
	if version < 3 {
		capacity = 127
	}
	n := capacity
	if c.Tier == "quick" && capacity > 4000 {
		n = 4000
	}
	cl := fakenode.NewCluster(1)
	var mu sync.Mutex
	var parked []*fakenode.Req
	seenStreams := map[int]bool{}
	cl.Nodes[0].Handler = func(sc *fakenode.ServerConn, req *fakenode.Req) {
		if !strings.HasPrefix(req.Statement, "ECHO ") {
			sc.ReplyVoid(req)
			return
		}
		mu.Lock()
		parked = append(parked, req)
		seenStreams[req.Header.Stream] = true
		mu.Unlock()
	}
	cfg := newCfg(cl, version)
	cfg.Timeout = 120 * time.Second
	cfg.PageSize = 0
	cfg.DefaultTimestamp = false
	sess, err := cfg.CreateSession()
	if err != nil {
		c.Inconclusive("sweep-session", err.Error())
		return
	}
	defer sess.Close()
	type out struct {
		token, got string
		err        error
	}
	results := make(chan out, n+64)
	var wg sync.WaitGroup
	for k := 0; k < n; k++ {
		wg.Add(1)
		go func(k int) {
			defer wg.Done()
			tok := fmt.Sprintf("s%d_%d", i, k)
			var got string
			it := sess.Query("ECHO " + tok).Iter()
			it.Scan(&got)
			results <- out{tok, got, it.Close()}
		}(k)
	}
	// wait until the node holds n requests (or streams ran out)
	deadline := time.Now().Add(60 * time.Second)
	for {
		mu.Lock()
		have := len(parked)
		mu.Unlock()
		if have >= n-2 || time.Now().After(deadline) {
			break
		}
		time.Sleep(5 * time.Millisecond)
	}
	time.Sleep(50 * time.Millisecond)
	mu.Lock()
	l := append([]*fakenode.Req{}, parked...)
	mu.Unlock()
	for k := len(l) - 1; k >= 0; k-- {
		rq := l[k]
		tok := strings.TrimPrefix(rq.Statement, "ECHO ")
		rq.Conn.ReplyRows(rq, &cqlref.RowsSpec{Meta: cqlref.Metadata{Global: true, ColCount: 1, Columns: []cqlref.Column{{Keyspace: "e", Table: "e", Name: "v", Type: &cqlref.Type{ID: cqlref.TText}}}}, Rows: [][][]byte{{[]byte(fmt.Sprintf("%s|%d", tok, rq.Header.Stream))}}})
	}
	c.Guard("sweep callers", wg.Wait)
	close(results)
	okN := 0
	for o := range results {
		if o.err != nil {
			if !(o.err == gocql.ErrNoStreams) {
				c.SetAdd("sweep_errors", classifyErr(o.err))
			}
			continue
		}
		p := strings.SplitN(o.got, "|", 2)
		if p[0] != o.token {
			c.Violation(fmt.Sprintf("C01:wrong-response:sweep:v%d", version), fmt.Sprintf("caller of %s received %q", o.token, clipS(o.got)), map[string]interface{}{"version": version})
		} else {
			okN++
		}
	}
	mu.Lock()
	ids := len(seenStreams)
	lo, hi := 1<<30, 0
	for s := range seenStreams {
		if s < lo {
			lo = s
		}
		if s > hi {
			hi = s
		}
		if s <= 0 || s > capacity {
			c.Violation(fmt.Sprintf("C01:stream-out-of-range:v%d", version), fmt.Sprintf("request on stream %d", s), nil)
		}
	}
	mu.Unlock()
	for _, s := range cl.StreamReuse {
		c.Violation(fmt.Sprintf("C01:stream-reused-while-pending:v%d", version), s, nil)
	}
	for _, b := range cl.BadFrames {
		c.Violation(fmt.Sprintf("C01:garbled-request:v%d", version), clipS(b), nil)
	}
	c.Add("ids_swept", int64(ids))
	c.Add("sweep_ok", int64(okN))
	c.Eval(runner.H("sweep", version, n), true)
	c.Sample(map[string]interface{}{"sweep_version": version, "parked_requests": len(l), "distinct_stream_ids": ids, "lowest": lo, "highest": hi, "answered_correctly": okN})
	if c.Tier == "thorough" && ids < capacity-70 && version >= 3 {
		c.Inconclusive("sweep-incomplete", fmt.Sprintf("only %d of %d ids were on the wire", ids, capacity))
	}
}
