package props

import (
	"bytes"
	"fmt"
	"math/rand"
	"strings"
	"sync"

	"github.com/gocql/gocql"

	"verifharness/cqlref"
	"verifharness/fakenode"
	"verifharness/gen"
	"verifharness/runner"
)

// C09, routing phase: the routing key built from bound values (Query.GetRoutingKey /
// Batch.GetRoutingKey) against the layout Cassandra uses for partition keys. Protocol 4+
// only: there the PREPARED response names the partition-key bind markers; older protocols
// need the schema tables, which the scripted node does not serve.

var c09keyTypes = []int{cqlref.TAscii, cqlref.TBigint, cqlref.TBlob, cqlref.TBoolean, cqlref.TDecimal, cqlref.TDouble, cqlref.TFloat, cqlref.TInt, cqlref.TText, cqlref.TTimestamp, cqlref.TUUID,
	cqlref.TVarchar, cqlref.TVarint, cqlref.TTimeUUID, cqlref.TInet, cqlref.TDate, cqlref.TTime, cqlref.TSmallint, cqlref.TTinyint}

type c09stmt struct {
	cols   []cqlref.Column
	pk     []int // bind-marker index of each partition-key component, in key order
	ks, tb string
}

type c09node struct {
	mu    sync.Mutex
	stmts map[string]*c09stmt
}

func (cn *c09node) handler(sc *fakenode.ServerConn, req *fakenode.Req) {
	if req.Header.Op != cqlref.OpPrepare {
		sc.ReplyVoid(req)
		return
	}
	cn.mu.Lock()
	st := cn.stmts[req.Statement]
	cn.mu.Unlock()
	if st == nil {
		sc.ReplyError(req, &cqlref.ErrSpec{Code: 0x2000, Message: "unknown statement"})
		return
	}
	bind := cqlref.Metadata{Global: true, ColCount: len(st.cols), Columns: st.cols, PKIndexes: st.pk}
	sc.Reply(req, cqlref.OpResult, nil, cqlref.BodyPrepared(sc.Version, &cqlref.PreparedSpec{ID: []byte("P:" + req.Statement), Bind: bind, Result: cqlref.Metadata{NoMetadata: true}}))
}

func c09routing(c *runner.Ctx, i int) {
	r := c.Rng
	// protocol 4+: the PREPARED answer names the partition-key bind markers; protocol 3: the driver reads the table's
	// partition key from the schema tables and finds the markers by column name
	version := 3 + i%3
	cl := fakenode.NewCluster(1)
	cn := &c09node{stmts: map[string]*c09stmt{}}
	cl.Nodes[0].Handler = cn.handler
	cfg := newCfg(cl, version)
	sess, err := cfg.CreateSession()
	if err != nil {
		c.Inconclusive("c09-session", err.Error())
		return
	}
	defer sess.Close()
	// every key GetRoutingKey returned in this case is kept and compared again at the end: the bytes handed
	// to the caller (policies keep them, applications group rows by them) must not change afterwards
	type heldKey struct {
		how, key  string
		got, want []byte
	}
	var held []heldKey
	defer func() {
		for _, h := range held {
			c.Add("held_keys_rechecked", 1)
			if !bytes.Equal(h.got, h.want) {
				c.Violation("C09:routing-key:"+h.how+":changed-after-return", fmt.Sprintf("the key %s returned was right at the time but reads %x after %d later calls, Cassandra's partition key bytes are %x (%s)", h.how, clip(h.got), len(held), clip(h.want), h.key), nil)
				break
			}
		}
	}()
	// a statement whose bind markers do not cover the partition key (token() ranges, a literal key component, IN on
	// the key): the node reports no partition-key indexes, and there is no routing key to build - in particular
	// not an empty non-nil one, which the token-aware policy would hash like any other key
	{
		st := &c09stmt{ks: "ks", tb: fmt.Sprintf("nokey%d", i), cols: []cqlref.Column{
			{Keyspace: "ks", Table: "nokey", Name: "lo", Type: &cqlref.Type{ID: cqlref.TBigint}},
			{Keyspace: "ks", Table: "nokey", Name: "hi", Type: &cqlref.Type{ID: cqlref.TBigint}}}, pk: []int{}}
		stmt := fmt.Sprintf("SELECT v FROM ks.nokey%d WHERE token(pk) > ? AND token(pk) <= ?", i)
		cn.mu.Lock()
		cn.stmts[stmt] = st
		cn.mu.Unlock()
		var got []byte
		c.Guard("Query.GetRoutingKey", func() { got, _ = sess.Query(stmt, int64(1), int64(2)).GetRoutingKey() })
		c.Add("statements_without_bound_partition_key", 1)
		if got != nil {
			c.Violation("C09:routing-key:no-bound-partition-key:key-returned", fmt.Sprintf("GetRoutingKey returned the non-nil key %x for a statement whose PREPARED answer names no partition-key bind marker", got), map[string]interface{}{"statement": stmt, "version": version})
		}
		b := sess.NewBatch(gocql.UnloggedBatch)
		b.Query(stmt, int64(1), int64(2))
		c.Guard("Batch.GetRoutingKey", func() { got, _ = b.GetRoutingKey() })
		if got != nil {
			c.Violation("C09:routing-key:no-bound-partition-key:key-returned", fmt.Sprintf("Batch.GetRoutingKey returned the non-nil key %x for a statement whose PREPARED answer names no partition-key bind marker", got), map[string]interface{}{"statement": stmt, "version": version})
		}
	}
	for k := 0; k < 10; k++ {
		nkey := 1 + r.Intn(4)
		if r.Intn(3) == 0 {
			nkey = 1
		}
		nother := r.Intn(4)
		total := nkey + nother
		// bind markers in a random order
		perm := r.Perm(total)
		st := &c09stmt{ks: "ks", tb: fmt.Sprintf("t%d_%d", i, k), cols: make([]cqlref.Column, total), pk: make([]int, nkey)}
		vals := make([]cqlref.Val, total)
		types := make([]*cqlref.Type, total)
		for j := 0; j < total; j++ {
			pos := perm[j]
			var t *cqlref.Type
			name := fmt.Sprintf("c%d", j)
			if j < nkey {
				t = &cqlref.Type{ID: c09keyTypes[r.Intn(len(c09keyTypes))]}
				if r.Intn(10) == 0 {
					// frozen collections and tuples are legal key components too
					t = gen.TypeTree(r, 1, version)
				}
				st.pk[j] = pos
				name = fmt.Sprintf("pk%d", j)
			} else {
				t = gen.TypeTree(r, r.Intn(2), version)
			}
			types[pos] = t
			st.cols[pos] = cqlref.Column{Keyspace: st.ks, Table: st.tb, Name: name, Type: t}
			vals[pos] = gen.Value(r, t, gen.Opts{Proto: version, MaxElems: 3, MaxBytes: 40, UniqueElems: true})
		}
		if nkey >= 2 && r.Intn(4) == 0 {
			// a component of a composite key that is the empty string / empty blob: a value like any other
			// (two length bytes 00 00, no bytes, the end-of-component byte)
			for j := 0; j < nkey; j++ {
				switch types[st.pk[j]].ID {
				case cqlref.TAscii, cqlref.TBlob, cqlref.TText, cqlref.TVarchar:
					vals[st.pk[j]] = cqlref.Val{B: []byte{}}
					c.Add("composite_keys_with_an_empty_component", 1)
				default:
					continue
				}
				break
			}
		}
		if version < 4 {
			// the schema the driver will look the table up in (a keyspace of its own: keyspace descriptions are cached)
			st.ks = fmt.Sprintf("ks%d_%d", i, k)
			var tcs []fakenode.TableColumn
			for pos := range st.cols {
				st.cols[pos].Keyspace = st.ks
				tc := fakenode.TableColumn{Name: st.cols[pos].Name, Type: types[pos].String(), Kind: "regular", Position: -1}
				for j := 0; j < nkey; j++ {
					if st.pk[j] == pos {
						tc.Kind, tc.Position = "partition_key", j
					}
				}
				tcs = append(tcs, tc)
			}
			// (listed in bind-marker order, which is not the key order)
			cl.SetTable(st.ks, st.tb, tcs)
			c.Add("routing_keys_from_schema_tables", 1)
		}
		var markers []string
		for range st.cols {
			markers = append(markers, "?")
		}
		stmt := fmt.Sprintf("INSERT INTO %s.%s (...) VALUES (%s)", st.ks, st.tb, strings.Join(markers, ", "))
		cn.mu.Lock()
		cn.stmts[stmt] = st
		cn.mu.Unlock()
		args := make([]interface{}, total)
		var forms []string
		usable := true
		for pos := 0; pos < total; pos++ {
			f := pickForm(r, types[pos], []cqlref.Val{vals[pos]}, dirMarshal, false, version)
			if f == nil {
				usable = false
				break
			}
			gv, ok := build(f, vals[pos])
			if !ok {
				usable = false
				break
			}
			args[pos] = gv.Interface()
			forms = append(forms, f.String())
		}
		if !usable {
			continue
		}
		// expected routing key
		var want []byte
		okWant := true
		for j := 0; j < nkey; j++ {
			enc, err := cqlref.EncodeValue(types[st.pk[j]], vals[st.pk[j]], version)
			if err != nil || len(enc) > 65535 {
				okWant = false
				break
			}
			if nkey == 1 {
				want = enc
			} else {
				want = append(want, byte(len(enc)>>8), byte(len(enc)))
				want = append(want, enc...)
				want = append(want, 0)
			}
		}
		// Whether Marshal accepts a documented Go value at all is C02/C12's subject (known finding: unsigned
		// values above the signed maximum for varint); here only the layout built from the encodings counts.
		for j := 0; j < nkey && okWant; j++ {
			if _, err, pan := safeMarshal(typeInfo(types[st.pk[j]], version), args[st.pk[j]]); err != nil || pan != nil {
				okWant = false
				c.Add("key_component_not_marshalable", 1)
			}
		}
		if !okWant {
			continue
		}
		var tnames []string
		for j := 0; j < nkey; j++ {
			tnames = append(tnames, types[st.pk[j]].String())
		}
		key := fmt.Sprintf("v%d key(%s) at bind markers %v of %d", version, strings.Join(tnames, ","), st.pk, total)
		inOrder := true
		for j := range st.pk {
			if st.pk[j] != j {
				inOrder = false
			}
		}
		c.Eval(runner.H("c09routing", version, strings.Join(tnames, ","), fmt.Sprint(st.pk), total), !inOrder || nkey > 1)
		c.Add("routing_keys", 1)
		if nkey > 1 {
			c.Add("composite_keys", 1)
		}
		if !inOrder {
			c.Add("keys_not_at_leading_markers", 1)
		}
		wit := map[string]interface{}{"case": key, "go_values": forms, "want": fmt.Sprintf("%x", clip(want))}
		check := func(how string, got []byte, err error) {
			if err != nil {
				c.Violation("C09:routing-key:"+how+":error", fmt.Sprintf("%s failed: %v (%s)", how, err, key), wit)
				return
			}
			if !bytes.Equal(got, want) {
				cls := "single"
				if nkey > 1 {
					cls = "composite"
				}
				c.Violation("C09:routing-key:"+how+":"+cls, fmt.Sprintf("%s = %x, Cassandra's partition key bytes are %x (%s)", how, clip(got), clip(want), key), wit)
				return
			}
			if len(held) < 64 {
				held = append(held, heldKey{how, key, got, append([]byte{}, want...)})
			}
		}
		var got []byte
		var gerr error
		q := sess.Query(stmt, args...)
		c.Guard("Query.GetRoutingKey", func() { got, gerr = q.GetRoutingKey() })
		check("Query.GetRoutingKey", got, gerr)
		// the same Query object bound to other values (Query.Bind is the documented way to reuse it): the key follows
		if args2, want2, ok2 := c09values(r, st, types, nkey, version); ok2 {
			q.Bind(args2...)
			var got2 []byte
			var gerr2 error
			c.Guard("Query.GetRoutingKey", func() { got2, gerr2 = q.GetRoutingKey() })
			c.Add("rebinds", 1)
			if gerr2 != nil {
				c.Violation("C09:routing-key:after-Bind:error", fmt.Sprintf("GetRoutingKey after Bind failed: %v (%s)", gerr2, key), wit)
			} else if !bytes.Equal(got2, want2) {
				what := "neither the old nor the new values' key"
				if bytes.Equal(got2, want) {
					what = "still the key of the values bound before"
				}
				c.Violation("C09:routing-key:after-Bind:stale", fmt.Sprintf("after Query.Bind with new values GetRoutingKey = %x (%s), Cassandra's partition key bytes are %x (%s)", clip(got2), what, clip(want2), key), wit)
			}
		}
		// the same values given by name, in another order than the bind markers (the server binds them by name): either
		// no routing key at all (the policy then falls back), or the right one - never the bytes of some other column
		if version >= 3 && total >= 2 {
			perm2 := r.Perm(total)
			named := make([]interface{}, total)
			for x, pos := range perm2 {
				named[x] = gocql.NamedValue(st.cols[pos].Name, args[pos])
			}
			var gotN []byte
			var errN error
			c.Guard("Query.GetRoutingKey", func() { gotN, errN = sess.Query(stmt, named...).GetRoutingKey() })
			c.Add("named_values_out_of_marker_order", 1)
			if errN == nil && gotN != nil && !bytes.Equal(gotN, want) {
				c.Violation("C09:routing-key:named-values:wrong-key", fmt.Sprintf("with the values given by name in the order %v, GetRoutingKey = %x; Cassandra's partition key bytes are %x (%s)", perm2, clip(gotN), clip(want), key), wit)
			}
		}
		// a second call (cached routing info) and the batch form
		q2 := sess.Query(stmt, args...)
		got, gerr = q2.GetRoutingKey()
		check("Query.GetRoutingKey", got, gerr)
		b := sess.NewBatch(gocql.UnloggedBatch)
		b.Query(stmt, args...)
		b.Query("INSERT INTO ks.other (a) VALUES (1)")
		c.Guard("Batch.GetRoutingKey", func() { got, gerr = b.GetRoutingKey() })
		check("Batch.GetRoutingKey", got, gerr)
		// fewer values than bind markers: no routing key can be built, but nothing may panic
		short := args[:r.Intn(total)]
		func() {
			defer func() {
				if rec := recover(); rec != nil {
					c.Violation("C09:routing-key:too-few-values:panic", fmt.Sprintf("GetRoutingKey panicked for a query with %d of %d values bound: %v (%s)", len(short), total, rec, key), wit)
				}
			}()
			rk, err := sess.Query(stmt, short...).GetRoutingKey()
			c.Add("too_few_values_calls", 1)
			if err == nil && rk != nil && !bytes.Equal(rk, want) {
				c.Violation("C09:routing-key:too-few-values:wrong-key", fmt.Sprintf("GetRoutingKey returned %x for a query with %d of %d values bound (%s)", clip(rk), len(short), total, key), wit)
			}
		}()
		// an explicit routing key wins
		explicit := []byte{1, 2, 3}
		if rk, _ := sess.Query(stmt, args...).RoutingKey(explicit).GetRoutingKey(); !bytes.Equal(rk, explicit) {
			c.Violation("C09:routing-key:explicit", fmt.Sprintf("GetRoutingKey() = %x after RoutingKey(%x)", rk, explicit), wit)
		}
		if c.WantSample() {
			c.Sample(map[string]interface{}{"case": key, "routing_key": fmt.Sprintf("%x", clip(want))})
		}
	}
}

// c09values draws another set of bind values for the statement and the routing key Cassandra derives from them.
func c09values(r *rand.Rand, st *c09stmt, types []*cqlref.Type, nkey, version int) (args []interface{}, want []byte, ok bool) {
	total := len(types)
	vals := make([]cqlref.Val, total)
	args = make([]interface{}, total)
	for pos := 0; pos < total; pos++ {
		vals[pos] = gen.Value(r, types[pos], gen.Opts{Proto: version, MaxElems: 3, MaxBytes: 40, UniqueElems: true})
		f := pickForm(r, types[pos], []cqlref.Val{vals[pos]}, dirMarshal, false, version)
		if f == nil {
			return nil, nil, false
		}
		gv, okb := build(f, vals[pos])
		if !okb {
			return nil, nil, false
		}
		args[pos] = gv.Interface()
	}
	for j := 0; j < nkey; j++ {
		enc, err := cqlref.EncodeValue(types[st.pk[j]], vals[st.pk[j]], version)
		if err != nil || len(enc) > 65535 {
			return nil, nil, false
		}
		if _, err, pan := safeMarshal(typeInfo(types[st.pk[j]], version), args[st.pk[j]]); err != nil || pan != nil {
			return nil, nil, false
		}
		if nkey == 1 {
			want = enc
		} else {
			want = append(want, byte(len(enc)>>8), byte(len(enc)))
			want = append(want, enc...)
			want = append(want, 0)
		}
	}
	return args, want, true
}
