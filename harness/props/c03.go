package props

import (
	"bytes"
	"fmt"
	"math/rand"
	"sort"
	"strings"
	"sync"
	"sync/atomic"
	"time"

	"github.com/gocql/gocql"

	"verifharness/cqlref"
	"verifharness/fakenode"
	"verifharness/gen"
	"verifharness/runner"
)

// C03: request frames on the wire are exactly what the CQL protocol specifies.

func init() {
	runner.Register(&runner.Prop{
		ID: "C03", Level: "exploration",
		Technique: "runtime monitor at a scripted in-memory node: every request frame a real session writes is decoded by an independent spec decoder and compared with the logical request that was asked for",
		Rule: "case = one session (protocol version 1-5, compression none/snappy/lz4, auth on/off, keyspace, event registration subset, session defaults) issuing ~30 generated requests (QUERY / PREPARE+EXECUTE / BATCH with option combinations, bound values incl. null / unset / named, payload, tracing, paging state, timestamps); " +
			"distinct = hash(version, opcode, flag set, value shape, header flags); non-trivial = any request other than the fixed handshake/system queries",
		Assumptions: []string{
			"cqlref.DecodeRequest implements the request layouts of native protocol v1-v4 and of v5-beta as gocql targets it (legacy framing, 4-byte flags, keyspace field)",
			"bound-value bytes are compared with gocql.Marshal of the same value (value encoding itself is C12's subject)",
			"the implicit default timestamp is checked for flag, width and plausibility (within an hour of now); exact values are checked with WithTimestamp",
		},
		Phases: func(tier string) []runner.Phase {
			n := 6000
			if tier == "thorough" {
				n = 300000
			}
			return []runner.Phase{
				{Name: "sessions", Variant: "plain", Cases: n, Run: c03case, CaseTimeout: 90 * time.Second,
					Required: []string{"op_query", "op_execute", "op_batch", "op_prepare", "op_startup", "op_register", "op_auth_response", "v1", "v2", "v3", "v4", "v5", "compressed_requests", "named_values", "unset_values", "payloads", "objects_executed_again", "queries_released_to_the_pool"}},
				{Name: "inexpressible", Variant: "plain", Cases: n / 20, Run: c03inexpr, CaseTimeout: 60 * time.Second, Required: []string{"inexpressible_requests", "payload_before_v4"}},
				{Name: "compressed-sizes", Variant: "plain", Cases: 36, Shards: 4, Run: c03sizes, CaseTimeout: 5 * time.Minute, Required: []string{"compressed_bodies_of_swept_size"}},
				{Name: "limits", Variant: "plain", Cases: 10, Shards: 5, Run: c03limits, CaseTimeout: 5 * time.Minute, Required: []string{"limit_cases"}},
			}
		},
	})
}

type c03val struct {
	name  string
	null  bool
	unset bool
	bytes []byte
	typ   *cqlref.Type // set when the value's encoding depends on Go map order
	proto int
}

type c03entry struct {
	stmt     string
	prepared bool
	values   []c03val
}

type c03exp struct {
	op         string
	stmt       string
	cons       int
	serial     int
	pageSize   int
	pageState  []byte
	explicitTS int64
	defaultTS  bool
	values     []c03val
	named      bool
	payload    map[string][]byte
	trace      bool
	skipMeta   bool
	batchType  int
	entries    []c03entry
	seen       int
	wantSeen   int   // how often the request was asked for (the same Query / Batch object executed again); 0 = once
	notBefore  int64 // microseconds: the clock just before the (latest) execution was started
}

type c03state struct {
	starved   bool // an execution timed out with nothing wrong on the wire: arrival counts are not judged
	mu        sync.Mutex
	version   int
	keyspace  string
	exp       map[string]*c03exp // by statement (query / execute) or by first entry (batch)
	bind      map[string][]*cqlref.Type
	problems  []string
	pkeys     []string
	prepares  map[string]int
	hist      map[string]int
	authToken string
	sawAuth   bool
	cqlVer    string
	comp      string
	events    []string
}

func (st *c03state) problem(key, what string) {
	st.mu.Lock()
	if len(st.problems) < 50 {
		st.problems = append(st.problems, what)
		st.pkeys = append(st.pkeys, key)
	}
	st.mu.Unlock()
}

// execErr: an execution failed. A timeout with nothing wrong on the wire is the machine's doing (inconclusive).
func (st *c03state) execErr(c *runner.Ctx, cl *fakenode.Cluster, key, what string, err error) {
	if loadLike(err) && len(cl.BadFramesCopy()) == 0 {
		c.Inconclusive("c03-timeout", what+err.Error())
		st.mu.Lock()
		st.starved = true
		st.mu.Unlock()
		return
	}
	st.problem(key, what+err.Error())
}

func valsEqual(exp []c03val, got []cqlref.BoundValue, names bool) string {
	if len(exp) != len(got) {
		return fmt.Sprintf("value count %d, want %d", len(got), len(exp))
	}
	for i := range exp {
		e, g := exp[i], got[i]
		if names && e.name != g.Name {
			return fmt.Sprintf("value %d name %q, want %q", i, g.Name, e.name)
		}
		if e.null != g.Null || e.unset != g.Unset {
			return fmt.Sprintf("value %d null=%v unset=%v, want null=%v unset=%v", i, g.Null, g.Unset, e.null, e.unset)
		}
		if !e.null && !e.unset && !bytes.Equal(e.bytes, g.Bytes) {
			if e.typ != nil {
				// sets / maps built from Go maps: compare as decoded values, order-insensitively
				a, err1 := cqlref.DecodeValue(e.typ, e.bytes, e.proto)
				b, err2 := cqlref.DecodeValue(e.typ, g.Bytes, e.proto)
				if err1 == nil && err2 == nil && cqlref.EqualVal(e.typ, canon(e.typ, a, e.proto), canon(e.typ, b, e.proto)) {
					continue
				}
			}
			return fmt.Sprintf("value %d bytes %x, want %x", i, clip(g.Bytes), clip(e.bytes))
		}
	}
	return ""
}

func payloadEqual(a, b map[string][]byte) bool {
	if len(a) != len(b) {
		return false
	}
	for k, v := range a {
		w, ok := b[k]
		if !ok || !bytes.Equal(v, w) || (v == nil) != (w == nil) {
			return false
		}
	}
	return true
}

func (st *c03state) checkParams(op string, e *c03exp, p *cqlref.QueryParams, req *fakenode.Req) {
	v := st.version
	k := func(f string) string { return fmt.Sprintf("C03:%s:v%d:%s", op, v, f) }
	if p.Consistency != e.cons {
		st.problem(k("consistency"), fmt.Sprintf("%s %q: consistency %#x, want %#x", op, e.stmt, p.Consistency, e.cons))
	}
	if v == 1 {
		return
	}
	if p.HasSerial != (e.serial != 0) || (p.HasSerial && p.Serial != e.serial) {
		st.problem(k("serial-consistency"), fmt.Sprintf("%s %q: serial consistency present=%v %#x, want %#x", op, e.stmt, p.HasSerial, p.Serial, e.serial))
	}
	if p.HasPageSize != (e.pageSize > 0) || (p.HasPageSize && int(p.PageSize) != e.pageSize) {
		st.problem(k("page-size"), fmt.Sprintf("%s %q: page size present=%v %d, want %d", op, e.stmt, p.HasPageSize, p.PageSize, e.pageSize))
	}
	if p.HasPagingState != (len(e.pageState) > 0) || !bytes.Equal(p.PagingState, e.pageState) {
		st.problem(k("paging-state"), fmt.Sprintf("%s %q: paging state present=%v %x, want %x", op, e.stmt, p.HasPagingState, p.PagingState, e.pageState))
	}
	wantTS := v >= 3 && (e.defaultTS || e.explicitTS != 0)
	if p.HasTimestamp != wantTS {
		st.problem(k("timestamp-flag"), fmt.Sprintf("%s %q: timestamp present=%v, want %v", op, e.stmt, p.HasTimestamp, wantTS))
	} else if wantTS {
		if e.explicitTS != 0 {
			if p.Timestamp != e.explicitTS {
				st.problem(k("timestamp-value"), fmt.Sprintf("%s %q: timestamp %d, want %d", op, e.stmt, p.Timestamp, e.explicitTS))
			}
		} else if d := p.Timestamp - time.Now().UnixNano()/1000; d > 3600e6 || d < -3600e6 {
			st.problem(k("timestamp-implausible"), fmt.Sprintf("%s %q: default timestamp %d is not microseconds around now", op, e.stmt, p.Timestamp))
		} else if nb := atomic.LoadInt64(&e.notBefore); nb != 0 && p.Timestamp < nb {
			// same process, same clock: the driver reads it after the execution was started
			st.problem(k("timestamp-stale"), fmt.Sprintf("%s %q: the driver-generated timestamp %d is %d us older than the start of this execution", op, e.stmt, p.Timestamp, nb-p.Timestamp))
		}
	}
	wantKS := v >= 5 && st.keyspace != ""
	if p.HasKeyspace != wantKS || (wantKS && p.Keyspace != st.keyspace) {
		st.problem(k("keyspace"), fmt.Sprintf("%s %q: keyspace present=%v %q, want %q", op, e.stmt, p.HasKeyspace, p.Keyspace, st.keyspace))
	}
	if p.SkipMeta != e.skipMeta {
		st.problem(k("skip-metadata"), fmt.Sprintf("%s %q: skip-metadata flag %v, want %v", op, e.stmt, p.SkipMeta, e.skipMeta))
	}
	wantNames := e.named && v >= 3 && len(e.values) > 0
	if p.Names != wantNames {
		st.problem(k("names-flag"), fmt.Sprintf("%s %q: names flag %v, want %v", op, e.stmt, p.Names, wantNames))
	}
	if bad := valsEqual(e.values, p.Values, wantNames); bad != "" {
		st.problem(k("values"), fmt.Sprintf("%s %q: %s", op, e.stmt, bad))
	}
}

func (st *c03state) checkHeader(op string, e *c03exp, req *fakenode.Req) {
	v := st.version
	k := func(f string) string { return fmt.Sprintf("C03:%s:v%d:%s", op, v, f) }
	if (req.Header.Flags&cqlref.FlagTracing != 0) != e.trace {
		st.problem(k("tracing-flag"), fmt.Sprintf("%s %q: tracing flag %v, want %v", op, e.stmt, req.Header.Flags&cqlref.FlagTracing != 0, e.trace))
	}
	wantPayload := len(e.payload) > 0
	if (req.Header.Flags&cqlref.FlagPayload != 0) != wantPayload || (wantPayload && !payloadEqual(req.Payload, e.payload)) {
		st.problem(k("custom-payload"), fmt.Sprintf("%s %q: payload %v, want %v", op, e.stmt, req.Payload, e.payload))
	}
	if (req.Header.Flags&cqlref.FlagCompress != 0) != (st.comp != "") {
		st.problem(k("compress-flag"), fmt.Sprintf("%s %q: compression flag %v on a connection with compression %q", op, e.stmt, req.Header.Flags&cqlref.FlagCompress != 0, st.comp))
	}
}

func (st *c03state) handler(sc *fakenode.ServerConn, req *fakenode.Req) {
	v := st.version
	tag := fmt.Sprintf("op%#02x/v%d/hf%#02x", req.Header.Op, v, req.Header.Flags)
	reply := func() {
		if req.Header.Flags&cqlref.FlagTracing != 0 {
			sc.Reply(req, cqlref.OpResult, &cqlref.Prefix{TraceID: bytes.Repeat([]byte{7}, 16)}, cqlref.BodyVoid())
		} else {
			sc.ReplyVoid(req)
		}
	}
	switch req.Header.Op {
	case cqlref.OpQuery:
		st.mu.Lock()
		e := st.exp[req.Statement]
		if e != nil {
			e.seen++
		}
		st.hist[fmt.Sprintf("%s/qf%#x", tag, req.Params.Flags)]++
		st.mu.Unlock()
		if e == nil || e.op != "query" {
			st.problem(fmt.Sprintf("C03:query:v%d:unexpected-statement", v), fmt.Sprintf("QUERY with statement %q that was never asked for", req.Statement))
			reply()
			return
		}
		st.checkHeader("query", e, req)
		st.checkParams("query", e, req.Params, req)
		reply()
	case cqlref.OpPrepare:
		st.mu.Lock()
		st.prepares[req.Statement]++
		types := st.bind[req.Statement]
		_, known := st.bind[req.Statement]
		st.hist[tag]++
		st.mu.Unlock()
		if !known {
			st.problem(fmt.Sprintf("C03:prepare:v%d:unexpected-statement", v), fmt.Sprintf("PREPARE of %q that was never asked for", req.Statement))
		}
		wantKS := v >= 5 && st.keyspace != ""
		if req.HasPrepKS != wantKS || (wantKS && req.PrepKS != st.keyspace) {
			st.problem(fmt.Sprintf("C03:prepare:v%d:keyspace", v), fmt.Sprintf("PREPARE keyspace present=%v %q, want %q", req.HasPrepKS, req.PrepKS, st.keyspace))
		}
		if (req.Header.Flags&cqlref.FlagCompress != 0) != (st.comp != "") {
			st.problem(fmt.Sprintf("C03:prepare:v%d:compress-flag", v), "PREPARE compression flag does not match the negotiated compression")
		}
		var cols []cqlref.Column
		for i, t := range types {
			cols = append(cols, cqlref.Column{Keyspace: "verif", Table: "t", Name: fmt.Sprintf("c%d", i), Type: t})
		}
		ps := &cqlref.PreparedSpec{ID: []byte("P:" + req.Statement), Bind: cqlref.Metadata{Global: true, Columns: cols, ColCount: len(cols)},
			Result: cqlref.Metadata{Global: true, Columns: []cqlref.Column{{Keyspace: "verif", Table: "t", Name: "r", Type: &cqlref.Type{ID: cqlref.TInt}}}, ColCount: 1}}
		sc.Reply(req, cqlref.OpResult, nil, cqlref.BodyPrepared(v, ps))
	case cqlref.OpExecute:
		stmt := strings.TrimPrefix(string(req.PreparedID), "P:")
		st.mu.Lock()
		e := st.exp[stmt]
		if e != nil {
			e.seen++
		}
		st.hist[fmt.Sprintf("%s/qf%#x/n%d", tag, req.Params.Flags, len(req.Params.Values))]++
		st.mu.Unlock()
		if e == nil || e.op != "execute" || !strings.HasPrefix(string(req.PreparedID), "P:") {
			st.problem(fmt.Sprintf("C03:execute:v%d:unknown-id", v), fmt.Sprintf("EXECUTE with id %q that does not belong to a statement that was asked for", req.PreparedID))
			reply()
			return
		}
		st.checkHeader("execute", e, req)
		st.checkParams("execute", e, req.Params, req)
		reply()
	case cqlref.OpBatch:
		key := ""
		if len(req.BatchStmts) > 0 {
			if req.BatchStmts[0].Kind == 0 {
				key = req.BatchStmts[0].Statement
			} else {
				key = strings.TrimPrefix(string(req.BatchStmts[0].ID), "P:")
			}
		}
		st.mu.Lock()
		e := st.exp["batch:"+key]
		if e != nil {
			e.seen++
		}
		st.hist[fmt.Sprintf("%s/bf%#x/t%d/n%d", tag, req.BatchFlags, req.BatchType, len(req.BatchStmts))]++
		st.mu.Unlock()
		k := func(f string) string { return fmt.Sprintf("C03:batch:v%d:%s", v, f) }
		if e == nil {
			st.problem(k("unexpected"), fmt.Sprintf("BATCH starting with %q that was never asked for", key))
			reply()
			return
		}
		st.checkHeader("batch", e, req)
		if int(req.BatchType) != e.batchType {
			st.problem(k("type"), fmt.Sprintf("batch type %d, want %d", req.BatchType, e.batchType))
		}
		if req.BatchCons != e.cons {
			st.problem(k("consistency"), fmt.Sprintf("batch consistency %#x, want %#x", req.BatchCons, e.cons))
		}
		if v >= 3 {
			if req.BatchHasSer != (e.serial != 0) || (req.BatchHasSer && req.BatchSerial != e.serial) {
				st.problem(k("serial-consistency"), fmt.Sprintf("batch serial present=%v %#x, want %#x", req.BatchHasSer, req.BatchSerial, e.serial))
			}
			wantTS := e.defaultTS || e.explicitTS != 0
			if req.BatchHasTS != wantTS {
				st.problem(k("timestamp-flag"), fmt.Sprintf("batch timestamp present=%v, want %v", req.BatchHasTS, wantTS))
			} else if wantTS && e.explicitTS != 0 && req.BatchTS != e.explicitTS {
				st.problem(k("timestamp-value"), fmt.Sprintf("batch timestamp %d, want %d", req.BatchTS, e.explicitTS))
			} else if wantTS && e.explicitTS == 0 {
				if d := req.BatchTS - time.Now().UnixNano()/1000; d > 3600e6 || d < -3600e6 {
					st.problem(k("timestamp-implausible"), fmt.Sprintf("batch default timestamp %d", req.BatchTS))
				} else if nb := atomic.LoadInt64(&e.notBefore); nb != 0 && req.BatchTS < nb {
					st.problem(k("timestamp-stale"), fmt.Sprintf("the driver-generated batch timestamp %d is %d us older than the start of this execution", req.BatchTS, nb-req.BatchTS))
				}
			}
		}
		if len(req.BatchStmts) != len(e.entries) {
			st.problem(k("statement-count"), fmt.Sprintf("batch has %d statements, want %d", len(req.BatchStmts), len(e.entries)))
		} else {
			for i, en := range e.entries {
				g := req.BatchStmts[i]
				if en.prepared {
					if g.Kind != 1 || string(g.ID) != "P:"+en.stmt {
						st.problem(k("entry-id"), fmt.Sprintf("batch entry %d: kind %d id %q, want prepared id of %q", i, g.Kind, g.ID, en.stmt))
					}
				} else if g.Kind != 0 || g.Statement != en.stmt {
					st.problem(k("entry-statement"), fmt.Sprintf("batch entry %d: kind %d statement %q, want %q", i, g.Kind, g.Statement, en.stmt))
				}
				if bad := valsEqual(en.values, g.Values, false); bad != "" {
					st.problem(k("entry-values"), fmt.Sprintf("batch entry %d: %s", i, bad))
				}
			}
		}
		reply()
	default:
		sc.ReplyVoid(req)
	}
}

var c03cons = []gocql.Consistency{gocql.Any, gocql.One, gocql.Two, gocql.Three, gocql.Quorum, gocql.All, gocql.LocalQuorum, gocql.EachQuorum, gocql.LocalOne}

type c03tracer struct{ n int }

func (t *c03tracer) Trace(id []byte) { t.n++ }

// c03value produces (Go value to bind, expected wire form) for a bind marker of type t.
func c03value(r *rand.Rand, t *cqlref.Type, proto int, allowUnset bool) (interface{}, c03val, bool) {
	switch x := r.Intn(12); {
	case x == 0:
		return nil, c03val{null: true}, true
	case x == 1 && allowUnset:
		return gocql.UnsetValue, c03val{unset: true}, true
	}
	v := gen.Value(r, t, gen.Opts{Proto: proto, AllowNull: proto >= 3})
	f := pickForm(r, t, []cqlref.Val{v}, dirMarshal, false, proto)
	if f == nil {
		return nil, c03val{}, false
	}
	gv, ok := build(f, v)
	if !ok {
		return nil, c03val{}, false
	}
	b, err, pan := safeMarshal(typeInfo(t, proto), gv.Interface())
	if err != nil || pan != nil {
		return nil, c03val{}, false
	}
	if b == nil {
		return gv.Interface(), c03val{null: true}, true
	}
	ev := c03val{bytes: b}
	if hasUnordered(t) || formUnordered(f) {
		ev.typ, ev.proto = t, proto
	}
	return gv.Interface(), ev, true
}

func c03case(c *runner.Ctx, i int) {
	r := c.Rng
	version := 1 + i%5
	c.Add(fmt.Sprintf("v%d", version), 1)
	cl := fakenode.NewCluster(1)
	node := cl.Nodes[0]
	st := &c03state{version: version, exp: map[string]*c03exp{}, bind: map[string][]*cqlref.Type{}, prepares: map[string]int{}, hist: map[string]int{}}
	node.Handler = st.handler
	cfg := newCfg(cl, version)
	comp := []string{"", "", "snappy", "lz4"}[r.Intn(4)]
	adv := [][]string{{"snappy", "lz4"}, {"snappy"}, {"lz4"}, nil}[r.Intn(4)]
	if adv == nil {
		delete(node.Supported, "COMPRESSION")
	} else {
		node.Supported["COMPRESSION"] = adv
	}
	cfg.Compressor = compressorByName(comp)
	negotiated := ""
	for _, a := range adv {
		if a == comp {
			negotiated = comp
		}
	}
	st.comp = negotiated
	user, pass := "", ""
	if r.Intn(3) == 0 {
		user, pass = []string{"cassandra", "", "üser", "a\x00b"}[r.Intn(4)], []string{"cassandra", "", "pässwörd", strings.Repeat("x", 300)}[r.Intn(4)]
		node.AuthClass = "org.apache.cassandra.auth.PasswordAuthenticator"
		cfg.Authenticator = gocql.PasswordAuthenticator{Username: user, Password: pass}
	}
	if r.Intn(2) == 0 {
		st.keyspace = []string{"ks1", "MixedCase", "k_2"}[r.Intn(3)]
		cfg.Keyspace = st.keyspace
	}
	cfg.Events.DisableTopologyEvents = r.Intn(3) == 0
	cfg.Events.DisableNodeStatusEvents = r.Intn(3) == 0
	cfg.Events.DisableSchemaEvents = r.Intn(3) == 0
	cfg.Consistency = c03cons[r.Intn(len(c03cons))]
	if r.Intn(3) == 0 {
		cfg.SerialConsistency = []gocql.SerialConsistency{gocql.Serial, gocql.LocalSerial}[r.Intn(2)]
	}
	cfg.PageSize = []int{0, 1, 100, 5000, 1 << 30}[r.Intn(5)]
	cfg.DefaultTimestamp = r.Intn(3) != 0
	cfg.DisableSkipMetadata = r.Intn(4) == 0
	cfg.CQLVersion = []string{"3.0.0", "3.4.4"}[r.Intn(2)]
	sess, err := cfg.CreateSession()
	if err != nil {
		for _, b := range cl.BadFrames {
			c.Violation(fmt.Sprintf("C03:malformed:v%d:handshake", version), "the spec decoder rejects a frame the driver wrote: "+clipS(b), map[string]interface{}{"version": version, "detail": b})
		}
		if len(cl.BadFrames) == 0 && loadLike(err) {
			c.Inconclusive("c03-session", err.Error())
			return
		}
		c.Violation(fmt.Sprintf("C03:session:v%d:cannot-connect", version), "session creation against the scripted node failed: "+err.Error(), map[string]interface{}{"bad_frames": cl.BadFrames})
		return
	}
	defer sess.Close()
	nreq := 20 + r.Intn(20)
	var asked []string
	for k := 0; k < nreq; k++ {
		st.mu.Lock()
		np := len(st.problems) + len(cl.BadFrames)
		st.mu.Unlock()
		if np > 0 {
			break // one witness per session is enough; do not sit through more timeouts
		}
		id := fmt.Sprintf("R%d_%d", i, k)
		e := &c03exp{}
		payload := map[string][]byte(nil)
		if version >= 4 && r.Intn(4) == 0 {
			payload = map[string][]byte{}
			for j := 0; j <= r.Intn(3); j++ {
				b := make([]byte, r.Intn(10))
				r.Read(b)
				payload[fmt.Sprintf("k%d", j)] = b
			}
			c.Add("payloads", 1)
		}
		tracer := &c03tracer{}
		kind := r.Intn(10)
		if version == 1 && kind >= 7 {
			kind = r.Intn(7)
		}
		switch {
		case kind < 3: // unprepared QUERY
			e.op, e.stmt = "query", "LIST "+id
			q := sess.Query(e.stmt)
			c03apply(r, q, nil, e, cfg, version, payload, tracer)
			st.mu.Lock()
			st.exp[e.stmt] = e
			st.mu.Unlock()
			asked = append(asked, e.stmt)
			atomic.StoreInt64(&e.notBefore, time.Now().UnixNano()/1000)
			if err := q.Exec(); err != nil {
				st.execErr(c, cl, fmt.Sprintf("C03:query:v%d:exec-error", version), "unprepared query failed: ", err)
			} else if r.Intn(3) == 0 {
				c03again(c, st, e, func() error { return q.Exec() })
			}
			if r.Intn(2) == 0 {
				// back to the pool: a later sess.Query gets this object again, and must not inherit anything from it
				q.Release()
				c.Add("queries_released_to_the_pool", 1)
			}
			c.Add("op_query", 1)
		case kind < 7: // PREPARE + EXECUTE
			nv := r.Intn(6)
			if r.Intn(10) == 0 {
				nv = 0
			}
			e.op = "execute"
			e.stmt = fmt.Sprintf("INSERT INTO verif.t (%s) VALUES (?) /*%s*/", strings.Repeat("c,", nv), id)
			var types []*cqlref.Type
			var args []interface{}
			named := version >= 3 && nv > 0 && r.Intn(4) == 0
			ok := true
			for j := 0; j < nv; j++ {
				t := c03bindType(r, version)
				gv, ev, vok := c03value(r, t, version, version >= 4)
				if !vok {
					ok = false
					break
				}
				if ev.unset {
					c.Add("unset_values", 1)
				}
				types = append(types, t)
				if named {
					ev.name = fmt.Sprintf("c%d", j)
					args = append(args, gocql.NamedValue(ev.name, gv))
				} else {
					args = append(args, gv)
				}
				e.values = append(e.values, ev)
			}
			if !ok {
				continue
			}
			if named {
				c.Add("named_values", 1)
			}
			e.named = named
			e.skipMeta = !cfg.DisableSkipMetadata
			st.mu.Lock()
			st.bind[e.stmt] = types
			st.exp[e.stmt] = e
			st.mu.Unlock()
			q := sess.Query(e.stmt, args...)
			c03apply(r, q, e, e, cfg, version, payload, tracer)
			asked = append(asked, e.stmt)
			atomic.StoreInt64(&e.notBefore, time.Now().UnixNano()/1000)
			if err := q.Exec(); err != nil {
				st.execErr(c, cl, fmt.Sprintf("C03:execute:v%d:exec-error", version), "prepared query failed: ", err)
			} else if r.Intn(3) == 0 {
				c03again(c, st, e, func() error { return q.Exec() })
			}
			if r.Intn(2) == 0 {
				q.Release()
				c.Add("queries_released_to_the_pool", 1)
			}
			c.Add("op_execute", 1)
			c.Add("op_prepare", 1)
		default: // BATCH
			e.op = "batch"
			bt := r.Intn(3)
			e.batchType = bt
			b := sess.NewBatch(gocql.BatchType(bt))
			ne := 1 + r.Intn(4)
			ok := true
			for j := 0; j < ne && ok; j++ {
				en := c03entry{}
				if r.Intn(2) == 0 {
					en.stmt = fmt.Sprintf("UPDATE verif.t SET x=%d /*%s_%d*/", j, id, j)
					b.Query(en.stmt)
				} else {
					nv := 1 + r.Intn(3)
					en.prepared = true
					en.stmt = fmt.Sprintf("INSERT INTO verif.t (%s) VALUES (?) /*%s_%d*/", strings.Repeat("c,", nv), id, j)
					var types []*cqlref.Type
					var args []interface{}
					for x := 0; x < nv; x++ {
						t := c03bindType(r, version)
						gv, ev, vok := c03value(r, t, version, version >= 4)
						if !vok || gv == nil {
							// a nil first argument list would make the entry unprepared; keep entries unambiguous
							if !vok {
								ok = false
								break
							}
						}
						types = append(types, t)
						args = append(args, gv)
						en.values = append(en.values, ev)
					}
					if !ok {
						break
					}
					st.mu.Lock()
					st.bind[en.stmt] = types
					st.mu.Unlock()
					b.Query(en.stmt, args...)
				}
				e.entries = append(e.entries, en)
			}
			if !ok || len(e.entries) == 0 {
				continue
			}
			e.stmt = e.entries[0].stmt
			e.cons = int(cfg.Consistency)
			if r.Intn(2) == 0 {
				cn := c03cons[r.Intn(len(c03cons))]
				b.SetConsistency(cn)
				e.cons = int(cn)
			}
			e.serial = int(cfg.SerialConsistency)
			if r.Intn(3) == 0 {
				sc := []gocql.SerialConsistency{gocql.Serial, gocql.LocalSerial}[r.Intn(2)]
				b.SerialConsistency(sc)
				e.serial = int(sc)
			}
			e.defaultTS = cfg.DefaultTimestamp
			switch r.Intn(4) {
			case 0:
				e.explicitTS = 1 + r.Int63()
				b.WithTimestamp(e.explicitTS)
			case 1:
				e.defaultTS = r.Intn(2) == 0
				b.DefaultTimestamp(e.defaultTS)
			}
			if payload != nil {
				b.CustomPayload = payload
				e.payload = payload
			}
			if r.Intn(5) == 0 {
				b.Trace(tracer)
				e.trace = true
			}
			st.mu.Lock()
			st.exp["batch:"+e.stmt] = e
			st.mu.Unlock()
			asked = append(asked, "batch:"+e.stmt)
			atomic.StoreInt64(&e.notBefore, time.Now().UnixNano()/1000)
			if err := sess.ExecuteBatch(b); err != nil {
				st.execErr(c, cl, fmt.Sprintf("C03:batch:v%d:exec-error", version), "batch failed: ", err)
			} else if r.Intn(3) == 0 {
				c03again(c, st, e, func() error { return sess.ExecuteBatch(b) })
			}
			c.Add("op_batch", 1)
		}
	}
	// every asked request must have reached the node exactly once
	st.mu.Lock()
	for _, k := range asked {
		if e := st.exp[k]; e != nil && e.seen != 1 && e.seen != e.wantSeen && !st.starved {
			st.problems = append(st.problems, fmt.Sprintf("request %q reached the node %d times", k, e.seen))
			st.pkeys = append(st.pkeys, fmt.Sprintf("C03:%s:v%d:arrivals", e.op, version))
		}
	}
	for h, n := range st.hist {
		c.Eval(runner.H("c03", h), true)
		_ = n
	}
	st.mu.Unlock()
	// handshake frames, on every connection
	for _, sc := range cl.AllConns() {
		for _, rq := range sc.AllRequests() {
			switch rq.Header.Op {
			case cqlref.OpStartup:
				c.Add("op_startup", 1)
				c.Eval(runner.H("c03", "startup", version, len(rq.Options)), true)
				if rq.Options["CQL_VERSION"] != cfg.CQLVersion {
					st.problem(fmt.Sprintf("C03:startup:v%d:cql-version", version), fmt.Sprintf("STARTUP CQL_VERSION %q, want %q", rq.Options["CQL_VERSION"], cfg.CQLVersion))
				}
				if got := rq.Options["COMPRESSION"]; got != negotiated {
					st.problem(fmt.Sprintf("C03:startup:v%d:compression-option", version), fmt.Sprintf("STARTUP COMPRESSION %q, want %q (configured %q, advertised %v)", got, negotiated, comp, adv))
				}
				for k := range rq.Options {
					switch k {
					case "CQL_VERSION", "COMPRESSION", "DRIVER_NAME", "DRIVER_VERSION":
					default:
						st.problem(fmt.Sprintf("C03:startup:v%d:unknown-option", version), "STARTUP option "+k)
					}
				}
				if rq.Header.Flags&cqlref.FlagCompress != 0 {
					st.problem(fmt.Sprintf("C03:startup:v%d:compressed", version), "STARTUP has the compression flag set")
				}
			case cqlref.OpOptions:
				if rq.Header.Flags&cqlref.FlagCompress != 0 {
					st.problem(fmt.Sprintf("C03:options:v%d:compressed", version), "OPTIONS has the compression flag set")
				}
			case cqlref.OpAuthResponse:
				c.Add("op_auth_response", 1)
				want := "\x00" + user + "\x00" + pass
				if string(rq.Token) != want {
					st.problem(fmt.Sprintf("C03:auth-response:v%d:token", version), fmt.Sprintf("AUTH_RESPONSE token %q, want %q", rq.Token, want))
				}
			case cqlref.OpRegister:
				c.Add("op_register", 1)
				var want []string
				if !cfg.Events.DisableTopologyEvents {
					want = append(want, "TOPOLOGY_CHANGE")
				}
				if !cfg.Events.DisableNodeStatusEvents {
					want = append(want, "STATUS_CHANGE")
				}
				if !cfg.Events.DisableSchemaEvents {
					want = append(want, "SCHEMA_CHANGE")
				}
				got := append([]string{}, rq.Events...)
				sort.Strings(got)
				sort.Strings(want)
				if strings.Join(got, ",") != strings.Join(want, ",") {
					st.problem(fmt.Sprintf("C03:register:v%d:events", version), fmt.Sprintf("REGISTER %v, want %v", rq.Events, want))
				}
			}
			if rq.Header.Flags&cqlref.FlagCompress != 0 {
				c.Add("compressed_requests", 1)
			}
		}
	}
	if node.AuthClass != "" {
		saw := false
		for _, sc := range cl.AllConns() {
			for _, rq := range sc.AllRequests() {
				if rq.Header.Op == cqlref.OpAuthResponse {
					saw = true
				}
			}
		}
		if !saw {
			st.problem(fmt.Sprintf("C03:auth-response:v%d:missing", version), "node demanded authentication but no AUTH_RESPONSE arrived")
		}
	}
	wit := map[string]interface{}{"version": version, "compression": negotiated, "keyspace": st.keyspace}
	for _, b := range cl.BadFrames {
		cls := "other"
		switch {
		case strings.Contains(b, "unset value on protocol"):
			cls = "unset-before-v4"
		case strings.Contains(b, "bytes left"):
			cls = "trailing-bytes"
		case strings.Contains(b, "need "):
			cls = "truncated"
		case strings.Contains(b, "flags"):
			cls = "flags"
		case strings.Contains(b, "compress"):
			cls = "compression"
		case strings.Contains(b, "stream"):
			cls = "stream"
		}
		w2 := map[string]interface{}{"version": version, "detail": b}
		c.Violation(fmt.Sprintf("C03:malformed:v%d:%s", version, cls), "the spec decoder rejects a frame the driver wrote: "+clipS(b), w2)
	}
	for _, s := range cl.StreamReuse {
		c.Violation(fmt.Sprintf("C03:stream-reuse:v%d", version), s, wit)
	}
	st.mu.Lock()
	for k, p := range st.problems {
		c.Violation(st.pkeys[k], "request on the wire differs from the request asked for: "+p, wit)
	}
	if c.WantSample() {
		var hs []string
		for h, n := range st.hist {
			hs = append(hs, fmt.Sprintf("%s x%d", h, n))
		}
		sort.Strings(hs)
		c.Sample(map[string]interface{}{"version": version, "compression": negotiated, "request_shapes": hs})
	}
	st.mu.Unlock()
}

// c03again executes the same Query / Batch object a second time: the request on the wire is the same logical
// request again (a new driver-generated timestamp included).
func c03again(c *runner.Ctx, st *c03state, e *c03exp, exec func() error) {
	time.Sleep(2 * time.Millisecond)
	st.mu.Lock()
	e.wantSeen = 2
	st.mu.Unlock()
	atomic.StoreInt64(&e.notBefore, time.Now().UnixNano()/1000)
	c.Add("objects_executed_again", 1)
	if err := exec(); err != nil {
		if loadLike(err) {
			c.Inconclusive("c03-timeout", "second execution of the same object failed: "+err.Error())
			st.mu.Lock()
			st.starved = true
			st.mu.Unlock()
			return
		}
		st.problem(fmt.Sprintf("C03:%s:v%d:exec-error", e.op, st.version), "second execution of the same object failed: "+err.Error())
	}
}

// c03bindType: a bind-marker type. Top-level tuples are left out: the driver expands a tuple
// column into one bound value per element, which is a different calling convention.
func c03bindType(r *rand.Rand, version int) *cqlref.Type {
	for {
		t := gen.TypeTree(r, 1+r.Intn(2), version)
		if t.ID != cqlref.TTuple {
			return t
		}
	}
}

// c03apply sets random options on q and records them in e.
func c03apply(r *rand.Rand, q *gocql.Query, _ *c03exp, e *c03exp, cfg *gocql.ClusterConfig, version int, payload map[string][]byte, tracer *c03tracer) {
	e.cons = int(cfg.Consistency)
	if r.Intn(2) == 0 {
		cn := c03cons[r.Intn(len(c03cons))]
		q.Consistency(cn)
		e.cons = int(cn)
	}
	e.serial = int(cfg.SerialConsistency)
	if r.Intn(3) == 0 {
		sc := []gocql.SerialConsistency{gocql.Serial, gocql.LocalSerial}[r.Intn(2)]
		q.SerialConsistency(sc)
		e.serial = int(sc)
	}
	e.pageSize = cfg.PageSize
	if r.Intn(3) == 0 {
		ps := []int{1, 2, 1000, 65536, 1<<31 - 1}[r.Intn(5)]
		q.PageSize(ps)
		e.pageSize = ps
	}
	switch r.Intn(8) {
	case 0, 1:
		ps := make([]byte, 1+r.Intn(40))
		r.Read(ps)
		q.PageState(ps)
		e.pageState = ps
	case 2:
		// an empty, non-nil state is "no state": nothing may be flagged or written for it
		q.PageState([]byte{})
	}
	e.defaultTS = cfg.DefaultTimestamp
	switch r.Intn(4) {
	case 0:
		e.explicitTS = 1 + r.Int63()
		q.WithTimestamp(e.explicitTS)
	case 1:
		e.defaultTS = r.Intn(2) == 0
		q.DefaultTimestamp(e.defaultTS)
	}
	if payload != nil {
		q.CustomPayload(payload)
		e.payload = payload
	}
	if r.Intn(5) == 0 {
		q.Trace(tracer)
		e.trace = true
	}
	if e.op == "execute" && r.Intn(5) == 0 {
		q.NoSkipMetadata()
		e.skipMeta = false
	}
}

// c03limits: boundaries of the [short] count fields and large statements.
func c03limits(c *runner.Ctx, i int) {
	version := 2 + i%4
	c.Add("limit_cases", 1)
	cl := fakenode.NewCluster(1)
	st := &c03state{version: version, exp: map[string]*c03exp{}, bind: map[string][]*cqlref.Type{}, prepares: map[string]int{}, hist: map[string]int{}}
	cl.Nodes[0].Handler = st.handler
	cfg := newCfg(cl, version)
	cfg.PageSize = 0
	cfg.DefaultTimestamp = false
	cfg.DisableSkipMetadata = true
	cfg.Timeout = 4 * time.Second
	sess, err := cfg.CreateSession()
	if err != nil {
		c.Broken("c03limits: cannot create session: " + err.Error())
		return
	}
	defer sess.Close()
	counts := []int{65535, 65536}
	if i >= 5 {
		counts = []int{65534, 65537}
	}
	for _, n := range counts {
		stmt := fmt.Sprintf("INSERT INTO verif.big (x) VALUES (?) /*L%d_%d*/", i, n)
		types := make([]*cqlref.Type, n)
		args := make([]interface{}, n)
		e := &c03exp{op: "execute", stmt: stmt, cons: int(cfg.Consistency)}
		for k := range types {
			types[k] = &cqlref.Type{ID: cqlref.TTinyint}
			args[k] = int8(k)
			e.values = append(e.values, c03val{bytes: []byte{byte(int8(k))}})
		}
		st.mu.Lock()
		st.bind[stmt] = types
		st.exp[stmt] = e
		st.mu.Unlock()
		before := len(cl.BadFrames)
		err := sess.Query(stmt, args...).Exec()
		c.Eval(runner.H("limit", version, n), true)
		st.mu.Lock()
		seen := e.seen
		st.mu.Unlock()
		if n > 65535 {
			// not expressible: the count field is a [short]. Anything but a refusal is a malformed frame.
			if len(cl.BadFrames) > before || seen > 0 {
				c.Violation(fmt.Sprintf("C03:value-count-overflow:%d", n), fmt.Sprintf("EXECUTE with %d bound values was put on the wire although the count field is 16 bits wide (exec error: %v)", n, err), map[string]interface{}{"version": version, "bad_frames": len(cl.BadFrames) - before})
			}
			cl.BadFrames = cl.BadFrames[:before]
		} else if err != nil || seen != 1 {
			c.Violation(fmt.Sprintf("C03:execute:v%d:max-values", version), fmt.Sprintf("EXECUTE with %d values: err=%v arrivals=%d", n, err, seen), nil)
		}
	}
	// a large statement text (several MB): [long string] length
	big := "LIST " + strings.Repeat("x", 3<<20+i)
	st.mu.Lock()
	st.exp[big] = &c03exp{op: "query", stmt: big, cons: int(cfg.Consistency)}
	st.mu.Unlock()
	if err := sess.Query(big).Exec(); err != nil {
		c.Violation(fmt.Sprintf("C03:query:v%d:large-statement", version), "3 MiB statement failed: "+err.Error(), nil)
	}
	c.Eval(runner.H("limit-big", version), true)
	// batch with 65535 / 65536 statements
	if i < 5 {
		for _, n := range []int{65535, 65536} {
			b := sess.NewBatch(gocql.UnloggedBatch)
			e := &c03exp{op: "batch", batchType: 1, cons: int(cfg.Consistency)}
			for k := 0; k < n; k++ {
				s := fmt.Sprintf("UPDATE t SET x=1 /*B%d_%d_%d*/", i, n, k)
				b.Query(s)
				e.entries = append(e.entries, c03entry{stmt: s})
			}
			e.stmt = e.entries[0].stmt
			st.mu.Lock()
			st.exp["batch:"+e.stmt] = e
			st.mu.Unlock()
			before := len(cl.BadFrames)
			err := sess.ExecuteBatch(b)
			c.Eval(runner.H("limit-batch", version, n), true)
			st.mu.Lock()
			seen := e.seen
			st.mu.Unlock()
			if n > 65535 {
				if len(cl.BadFrames) > before || seen > 0 {
					c.Violation(fmt.Sprintf("C03:batch-count-overflow:%d", n), fmt.Sprintf("BATCH with %d statements was put on the wire although the count field is 16 bits wide (exec error: %v)", n, err), map[string]interface{}{"version": version})
				}
				cl.BadFrames = cl.BadFrames[:before]
			} else if err != nil || seen != 1 {
				c.Violation(fmt.Sprintf("C03:batch:v%d:max-statements", version), fmt.Sprintf("BATCH with %d statements: err=%v arrivals=%d", n, err, seen), nil)
			}
		}
	}
	for _, b := range cl.BadFrames {
		c.Violation(fmt.Sprintf("C03:malformed:v%d:limits", version), "the spec decoder rejects a frame the driver wrote: "+clipS(b), nil)
	}
	st.mu.Lock()
	for k, p := range st.problems {
		c.Violation(st.pkeys[k], "request on the wire differs from the request asked for: "+clipS(p), nil)
	}
	st.mu.Unlock()
}

// c03inexpr: requests the negotiated version cannot express must be refused, not sent in a
// malformed or silently different form.
func c03inexpr(c *runner.Ctx, i int) {
	r := c.Rng
	version := 1 + i%4 // 1..4
	cl := fakenode.NewCluster(1)
	st := &c03state{version: version, exp: map[string]*c03exp{}, bind: map[string][]*cqlref.Type{}, prepares: map[string]int{}, hist: map[string]int{}}
	cl.Nodes[0].Handler = st.handler
	cfg := newCfg(cl, version)
	cfg.PageSize = 0
	cfg.DefaultTimestamp = false
	cfg.DisableSkipMetadata = true
	sess, err := cfg.CreateSession()
	if err != nil {
		c.Broken("c03inexpr: cannot create session: " + err.Error())
		return
	}
	defer sess.Close()
	intT := &cqlref.Type{ID: cqlref.TInt}
	kind := r.Intn(5)
	stmt := fmt.Sprintf("INSERT INTO verif.t (a,b) VALUES (?,?) /*X%d*/", i)
	st.mu.Lock()
	st.bind[stmt] = []*cqlref.Type{intT, intT}
	st.mu.Unlock()
	one := c03val{bytes: []byte{0, 0, 0, 1}}
	c.Add("inexpressible_requests", 1)
	c.Eval(runner.H("inexpr", version, kind), true)
	arrivals := func(op byte) int {
		n := 0
		for _, sc := range cl.AllConns() {
			for _, rq := range sc.AllRequests() {
				if rq.Header.Op == op {
					n++
				}
			}
		}
		return n
	}
	wit := map[string]interface{}{"version": version}
	switch kind {
	case 0: // UnsetValue before protocol 4
		if version >= 4 {
			return
		}
		e := &c03exp{op: "execute", stmt: stmt, cons: int(cfg.Consistency), values: []c03val{one, {unset: true}}}
		st.mu.Lock()
		st.exp[stmt] = e
		st.mu.Unlock()
		err := sess.Query(stmt, 1, gocql.UnsetValue).Exec()
		if n := arrivals(cqlref.OpExecute); n > 0 || len(cl.BadFrames) > 0 {
			c.Violation(fmt.Sprintf("C03:inexpressible:unset-before-v4:v%d", version), fmt.Sprintf("UnsetValue bound on protocol %d (unset exists from v4) was sent anyway: %d EXECUTE frames decoded, %d rejected by the spec decoder; Exec returned %v", version, n, len(cl.BadFrames), err), wit)
		}
	case 1: // named values in a batch
		if version < 2 {
			return
		}
		b := sess.NewBatch(gocql.LoggedBatch)
		b.Query(stmt, gocql.NamedValue("a", 1), gocql.NamedValue("b", 2))
		err := sess.ExecuteBatch(b)
		if n := arrivals(cqlref.OpBatch); n > 0 {
			c.Violation(fmt.Sprintf("C03:inexpressible:named-values-in-batch:v%d", version), fmt.Sprintf("a batch with named values reached the wire (%d BATCH frames, Exec returned %v)", n, err), wit)
		}
	case 2: // batch on protocol 1
		if version != 1 {
			return
		}
		b := sess.NewBatch(gocql.LoggedBatch)
		b.Query("UPDATE t SET x=1")
		err := sess.ExecuteBatch(b)
		if n := arrivals(cqlref.OpBatch); n > 0 || err == nil || len(cl.BadFrames) > 0 {
			c.Violation("C03:inexpressible:batch-on-v1", fmt.Sprintf("BATCH on protocol 1: %d frames, %d rejected, err %v", n, len(cl.BadFrames), err), wit)
		}
	case 4: // a custom payload before protocol 4 (the header flag and the payload map exist from v4)
		if version >= 4 {
			return
		}
		op := []string{"query", "execute", "batch"}[r.Intn(3)]
		if version == 1 && op == "batch" {
			op = "query"
		}
		payload := map[string][]byte{"k": []byte("v")}
		refused := ""
		func() {
			defer func() {
				if rec := recover(); rec != nil {
					refused = fmt.Sprintf("panic: %v", rec) // gocql refuses this by panicking in the caller; nothing is sent
				}
			}()
			var err error
			switch op {
			case "query":
				err = sess.Query(fmt.Sprintf("UPDATE verif.t SET x=1 /*P%d*/", i)).CustomPayload(payload).Exec()
			case "execute":
				err = sess.Query(stmt, 1, 2).CustomPayload(payload).Exec()
			default:
				b := sess.NewBatch(gocql.LoggedBatch)
				b.Query("UPDATE verif.t SET x=2")
				b.CustomPayload = payload
				err = sess.ExecuteBatch(b)
			}
			if err != nil {
				refused = err.Error()
			}
		}()
		c.Add("payload_before_v4", 1)
		flagged := 0
		for _, sc := range cl.AllConns() {
			for _, rq := range sc.AllRequests() {
				if rq.Header.Flags&cqlref.FlagPayload != 0 {
					flagged++
				}
			}
		}
		if flagged > 0 || len(cl.BadFrames) > 0 {
			c.Violation(fmt.Sprintf("C03:inexpressible:custom-payload-before-v4:v%d", version), fmt.Sprintf("a %s with a custom payload on protocol %d put %d frames with the custom-payload header flag on the wire (%d rejected by the spec decoder); the call ended with %q", op, version, flagged, len(cl.BadFrames), refused), wit)
			return
		}
	case 3: // named values on protocol 2 (names exist from v3)
		if version != 2 {
			return
		}
		e := &c03exp{op: "execute", stmt: stmt, cons: int(cfg.Consistency), values: []c03val{{bytes: []byte{0, 0, 0, 2}}, one}}
		st.mu.Lock()
		st.exp[stmt] = e
		st.mu.Unlock()
		// given as (b=2, a=1): without names on the wire the server would bind them positionally, i.e. wrongly
		err := sess.Query(stmt, gocql.NamedValue("b", 2), gocql.NamedValue("a", 1)).Exec()
		if n := arrivals(cqlref.OpExecute); n > 0 {
			c.Violation("C03:inexpressible:named-values-on-v2", fmt.Sprintf("named values on protocol 2 (which cannot carry names) were sent positionally instead of being refused (Exec returned %v)", err), wit)
		}
	}
	for _, b := range cl.BadFrames {
		if kind == 0 {
			continue
		}
		c.Violation(fmt.Sprintf("C03:malformed:v%d:inexpressible", version), "the spec decoder rejects a frame the driver wrote: "+clipS(b), wit)
	}
}

// c03sizes: requests whose (incompressible) body length sweeps every size around the block and buffer sizes a
// compressor works with, sent over connections that negotiated compression: the node must be able to decompress
// every body and find the value that was bound.
func c03sizes(c *runner.Ctx, i int) {
	comp := []string{"lz4", "snappy"}[i%2]
	version := 3 + (i/2)%3
	centre := []int{16341, 65536, 131072, 32768, 4096, 262144}[(i/6)%6]
	cl := fakenode.NewCluster(1)
	node := cl.Nodes[0]
	node.Supported["COMPRESSION"] = []string{"snappy", "lz4"}
	gen := func(n int) []byte {
		b := make([]byte, n)
		rand.New(rand.NewSource(int64(n)*7919 + 13)).Read(b)
		return b
	}
	var pmu sync.Mutex
	var problems []string
	var flagged int64
	node.Handler = func(sc *fakenode.ServerConn, req *fakenode.Req) {
		switch req.Header.Op {
		case cqlref.OpPrepare:
			ps := &cqlref.PreparedSpec{ID: []byte("P:" + req.Statement), Bind: cqlref.Metadata{Global: true, ColCount: 1, Columns: []cqlref.Column{{Keyspace: "ks", Table: "t", Name: "v", Type: &cqlref.Type{ID: cqlref.TBlob}}}},
				Result: cqlref.Metadata{Global: true, ColCount: 0}}
			sc.Reply(req, cqlref.OpResult, nil, cqlref.BodyPrepared(sc.Version, ps))
		case cqlref.OpExecute:
			if req.Header.Flags&cqlref.FlagCompress != 0 {
				atomic.AddInt64(&flagged, 1)
			}
			if req.Params == nil || len(req.Params.Values) != 1 || !bytes.Equal(req.Params.Values[0].Bytes, gen(len(req.Params.Values[0].Bytes))) {
				pmu.Lock()
				if len(problems) < 10 {
					n := -1
					if req.Params != nil && len(req.Params.Values) == 1 {
						n = len(req.Params.Values[0].Bytes)
					}
					problems = append(problems, fmt.Sprintf("an EXECUTE arrived with a value (%d bytes) that is not the one bound", n))
				}
				pmu.Unlock()
			}
			sc.ReplyVoid(req)
		default:
			sc.ReplyVoid(req)
		}
	}
	cfg := newCfg(cl, version)
	cfg.Compressor = compressorByName(comp)
	cfg.Timeout = 5 * time.Second
	sess, err := cfg.CreateSession()
	if err != nil {
		c.Inconclusive("c03-sizes-session", err.Error())
		return
	}
	defer sess.Close()
	key := fmt.Sprintf("v%d %s, value sizes %d..%d", version, comp, centre-350, centre+350)
	c.Eval(runner.H("c03sizes", version, comp, centre), true)
	for n := centre - 350; n <= centre+350; n++ {
		if n < 0 {
			continue
		}
		err := sess.Query("INSERT INTO ks.t (v) VALUES (?) /* sizes */", gen(n)).Exec()
		c.Add("compressed_bodies_of_swept_size", 1)
		bad := cl.BadFramesCopy()
		pmu.Lock()
		probs := append([]string{}, problems...)
		pmu.Unlock()
		switch {
		case len(bad) > 0:
			c.Violation(fmt.Sprintf("C03:malformed:v%d:compressed-body:%s", version, comp), fmt.Sprintf("the node cannot read a request whose value has %d bytes: %s (%s)", n, clipS(bad[0]), key), map[string]interface{}{"value_bytes": n, "bad_frame": clipS(bad[0])})
			return
		case len(probs) > 0:
			c.Violation(fmt.Sprintf("C03:execute:v%d:compressed-value-changed:%s", version, comp), fmt.Sprintf("%s (bound value: %d bytes; %s)", probs[0], n, key), map[string]interface{}{"value_bytes": n})
			return
		case err != nil:
			c.Violation(fmt.Sprintf("C03:execute:v%d:exec-error:compressed:%s", version, comp), fmt.Sprintf("a request whose value has %d bytes failed: %v (%s)", n, err, key), map[string]interface{}{"value_bytes": n})
			return
		}
	}
	if atomic.LoadInt64(&flagged) == 0 {
		c.Violation(fmt.Sprintf("C03:execute:v%d:not-compressed:%s", version, comp), "compression was negotiated but no EXECUTE arrived compressed ("+key+")", nil)
	}
}
