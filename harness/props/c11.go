package props

import (
	"fmt"
	"math/big"
	"math/rand"
	"net"
	"runtime/debug"
	"sort"
	"strings"
	"sync"
	"sync/atomic"
	"time"

	"github.com/anishathalye/porcupine"
	"github.com/gocql/gocql"

	"verifharness/cqlref"
	"verifharness/runner"
)

// C11: host selection offers each live node once, nearest and replicas first.

func init() {
	runner.Register(&runner.Prop{
		ID: "C11", Level: "exploration",
		Technique: "runtime monitor over the host sequences the real selection policies return for generated cluster states; concurrent safety under the Go race detector; porcupine linearizability check of the copy-on-write host list",
		Rule: "case = (1..16 hosts with DC / rack / up-down / tokens, policy in {round-robin, DC-aware, rack-aware, token-aware over each} x {shuffle} x {non-local replica fallback}, keyspace replication, routing key present / absent / unknown keyspace / nil query); " +
			"distinct = hash(cluster state, policy, query kind); non-trivial = at least 2 hosts and at least one host down or more than one tier populated",
		Assumptions: []string{
			"tiers: round-robin has one tier; DC-aware: local DC then the rest; rack-aware: local rack, local DC, the rest",
			"the replica list used for the expected prefix is the driver's own (its correctness is C10's subject)",
			"under concurrent mutation only safety (no panic, no nil host, termination) is asserted",
		},
		RaceOwner: func(fns []string) bool {
			for _, f := range fns {
				if strings.Contains(f, "HostPolicy") || strings.Contains(f, "cowHostList") || strings.Contains(f, "AwareRR") || strings.Contains(f, "roundRobbin") || strings.Contains(f, "clusterMeta") || strings.Contains(f, "tokenRing") || strings.Contains(f, "HostInfo") {
					return true
				}
			}
			return false
		},
		Phases: func(tier string) []runner.Phase {
			n, nc, np := 400000, 300, 3000
			if tier == "thorough" {
				n, nc, np = 3000000, 1500, 20000
			}
			ph := []runner.Phase{
				{Name: "static", Variant: "plain", Cases: n, Run: c11static, Required: []string{"token_aware_with_key", "nonlocal_fallback", "rotation_checks", "rotation_checks_farther_tiers", "down_hosts", "names_differing_in_case_only", "replica_sets_compared", "more_than_12_replicas"}},
				{Name: "address-exchange", Variant: "plain", Cases: n / 100, Run: c11addressExchange, Required: []string{"address_exchanges"}},
				{Name: "concurrent", Variant: "race", Cases: nc, Run: c11concurrent, CaseTimeout: 120 * time.Second, Required: []string{"concurrent_picks"}},
				{Name: "concurrent-build", Variant: "race", Cases: nc * 10, Run: c11build, Required: []string{"concurrent_builds"}},
				{Name: "cowlist-linearizable", Variant: "race", Cases: np, Run: c11cow, Required: []string{"histories_checked"}},
			}
			if tier == "thorough" {
				// 2^31 plans per policy kind take six minutes of CPU on four cores (and several times that on a busy
				// machine): thorough tier only
				ph = append(ph, runner.Phase{Name: "long-history", Variant: "plain", Cases: 4, Shards: 4, Run: c11longHistory, CaseTimeout: 90 * time.Minute, Required: []string{"long_history_plans"}})
			}
			return ph
		},
	})
}

type c11host struct {
	h        *gocql.HostInfo
	id       string
	dc, rack string
	up       bool
	notified bool // HostDown was delivered to the policy
	toks     []int64
}

type c11state struct {
	hosts        []*c11host
	kind         string // rr | dc | rack
	token        bool
	shuffle      bool
	nonlocal     bool
	localDC      string
	localRack    string
	simple       bool
	rf           int
	dcrf         map[string]int
	tokenless    bool
	caseTwins    bool // two datacenter / rack names differ only in letter case
	extraRemoved bool // a further node (the only one of its rack) was known to the policy and has been removed again
}

func (s *c11state) String() string {
	var hs []string
	for _, h := range s.hosts {
		st := "U"
		if !h.up {
			st = "d"
			if h.notified {
				st = "D"
			}
		}
		hs = append(hs, fmt.Sprintf("%s@%s/%s:%s%v", h.id, h.dc, h.rack, st, h.h.Tokens()))
	}
	x := ""
	if s.extraRemoved {
		x = " (after a further node in " + s.localDC + "/rack-of-its-own was added and removed)"
	}
	return fmt.Sprintf("%s hosts=[%s]%s", s.polName(), strings.Join(hs, " "), x)
}

func (s *c11state) polName() string {
	n := s.kind
	if s.kind == "dc" {
		n += "(" + s.localDC + ")"
	}
	if s.kind == "rack" {
		n += "(" + s.localDC + "/" + s.localRack + ")"
	}
	if s.token {
		n = "token+" + n
		if s.shuffle {
			n += "+shuffle"
		}
		if s.nonlocal {
			n += "+nonlocal"
		}
	}
	return n
}

func (s *c11state) polKey() string {
	n := s.kind
	if s.token {
		n = "token+" + n
		if s.shuffle {
			n += "+shuffle"
		}
		if s.nonlocal {
			n += "+nonlocal"
		}
	}
	return n
}

func (s *c11state) tierOf(h *c11host) int {
	switch s.kind {
	case "dc":
		if h.dc == s.localDC {
			return 0
		}
		return 1
	case "rack":
		if h.dc == s.localDC {
			if h.rack == s.localRack {
				return 0
			}
			return 1
		}
		return 2
	}
	return 0
}

func c11gen(r *rand.Rand) *c11state {
	s := &c11state{}
	n := 1 + r.Intn(16)
	nd := 1 + r.Intn(3)
	nr := 1 + r.Intn(3)
	s.tokenless = r.Intn(60) == 0
	// datacenter and rack names are case sensitive in Cassandra: now and then two of them differ only in case
	dcNames, rackNames := []string{"dc0", "dc1", "dc2"}, []string{"r0", "r1", "r2"}
	if r.Intn(8) == 0 {
		dcNames, rackNames = []string{"dc0", "DC0", "dc1"}, []string{"r0", "R0", "r1"}
		s.caseTwins = true
	}
	tok := int64(0)
	for i := 0; i < n; i++ {
		h := &c11host{id: fmt.Sprintf("h%d", i), dc: dcNames[r.Intn(nd)], rack: rackNames[r.Intn(nr)], up: r.Intn(5) != 0}
		if !h.up {
			h.notified = r.Intn(2) == 0
		}
		var toks []string
		if !s.tokenless {
			for t := 0; t < 1+r.Intn(3); t++ {
				tok += int64(1+r.Intn(1<<20)) << 38
				toks = append(toks, fmt.Sprint(tok-(1<<62)))
				h.toks = append(h.toks, tok-(1<<62))
			}
		}
		h.h = gocql.VerifNewHostInfo(h.id, []byte{10, 1, byte(i / 200), byte(i%200 + 1)}, 9042, h.dc, h.rack, toks, h.up)
		s.hosts = append(s.hosts, h)
	}
	s.kind = []string{"rr", "dc", "rack"}[r.Intn(3)]
	s.localDC = dcNames[r.Intn(nd)]
	s.localRack = rackNames[r.Intn(nr)]
	s.token = r.Intn(3) != 0
	s.extraRemoved = r.Intn(4) == 0
	s.shuffle = s.token && r.Intn(3) == 0
	s.nonlocal = s.token && r.Intn(2) == 0
	if r.Intn(2) == 0 {
		s.simple, s.rf = true, 1+r.Intn(4)
		if r.Intn(5) == 0 {
			s.rf = 1 + r.Intn(n) // up to every node a replica (more than a dozen replicas per token)
		}
	} else {
		s.dcrf = map[string]int{}
		for d := 0; d < nd; d++ {
			s.dcrf[dcNames[d]] = r.Intn(4)
			if r.Intn(6) == 0 {
				s.dcrf[dcNames[d]] = r.Intn(9)
			}
		}
	}
	return s
}

func (s *c11state) keyspace() *gocql.KeyspaceMetadata {
	ks := &gocql.KeyspaceMetadata{Name: "ks", StrategyOptions: map[string]interface{}{}}
	if s.simple {
		ks.StrategyClass = "SimpleStrategy"
		ks.StrategyOptions["replication_factor"] = s.rf
	} else {
		ks.StrategyClass = "NetworkTopologyStrategy"
		for dc, rf := range s.dcrf {
			ks.StrategyOptions[dc] = fmt.Sprint(rf)
		}
	}
	return ks
}

func (s *c11state) build() gocql.HostSelectionPolicy {
	var fb gocql.HostSelectionPolicy
	switch s.kind {
	case "rr":
		fb = gocql.RoundRobinHostPolicy()
	case "dc":
		fb = gocql.DCAwareRoundRobinPolicy(s.localDC)
	default:
		fb = gocql.RackAwareRoundRobinPolicy(s.localDC, s.localRack)
	}
	pol := fb
	if s.token {
		pol = c11tokenAware(fb, s.shuffle, s.nonlocal)
		ks := s.keyspace()
		gocql.VerifInitTokenAware(pol, "ks", func(name string) (*gocql.KeyspaceMetadata, error) {
			if name != "ks" {
				return nil, fmt.Errorf("keyspace %s does not exist", name)
			}
			return ks, nil
		})
	}
	for _, h := range s.hosts {
		pol.AddHost(h.h)
	}
	pol.SetPartitioner("org.apache.cassandra.dht.Murmur3Partitioner")
	if s.token {
		pol.KeyspaceChanged(gocql.KeyspaceUpdateEvent{Keyspace: "ks"})
	}
	if s.extraRemoved && !s.tokenless {
		extra := gocql.VerifNewHostInfo("extra", []byte{10, 1, 9, 9}, 9042, s.localDC, "rack-of-its-own", []string{fmt.Sprint(int64(1)<<62 + 12345), fmt.Sprint(int64(1)<<62 + 99)}, true)
		pol.AddHost(extra)
		pol.RemoveHost(extra)
	}
	for _, h := range s.hosts {
		if !h.up && h.notified {
			pol.HostDown(h.h)
		}
	}
	return pol
}

func drain(next gocql.NextHost, limit int) (seq []*gocql.HostInfo, nilInfo bool, overflow bool) {
	for i := 0; ; i++ {
		if i > limit {
			return seq, nilInfo, true
		}
		sh := next()
		if sh == nil {
			return seq, nilInfo, false
		}
		h := sh.Info()
		if h == nil {
			nilInfo = true
			continue
		}
		seq = append(seq, h)
	}
}

func c11static(c *runner.Ctx, i int) {
	r := c.Rng
	s := c11gen(r)
	byPtr := map[*gocql.HostInfo]*c11host{}
	upN, downN := 0, 0
	tiers := map[int]int{}
	for _, h := range s.hosts {
		byPtr[h.h] = h
		if h.up {
			upN++
			tiers[s.tierOf(h)]++
		} else {
			downN++
		}
	}
	if downN > 0 {
		c.Add("down_hosts", 1)
	}
	if s.caseTwins {
		c.Add("names_differing_in_case_only", 1)
	}
	qkind := r.Intn(6) // 0,1,2: routing key + known ks ; 3: unknown keyspace ; 4: no routing key ; 5: nil query
	wit := func(extra string) map[string]interface{} {
		return map[string]interface{}{"state": s.String(), "query_kind": qkind, "detail": extra}
	}
	nontrivial := len(s.hosts) >= 2 && (downN > 0 || len(tiers) > 1)
	c.Eval(runner.H(s.String(), qkind), nontrivial)
	var pol gocql.HostSelectionPolicy
	var seq []*gocql.HostInfo
	var nilInfo, overflow bool
	var rk []byte
	var ksName string
	panicked := ""
	func() {
		defer func() {
			if rec := recover(); rec != nil {
				panicked = fmt.Sprint(rec) + "\n" + string(debug.Stack())
			}
		}()
		pol = s.build()
		var q gocql.ExecutableQuery
		switch {
		case qkind <= 2:
			rk = make([]byte, 1+r.Intn(20))
			r.Read(rk)
			ksName = "ks"
			q = gocql.VerifNewQuery("ks", rk)
		case qkind == 3:
			rk = make([]byte, 1+r.Intn(20))
			r.Read(rk)
			ksName = "nope"
			q = gocql.VerifNewQuery("nope", rk)
		case qkind == 4:
			q = gocql.VerifNewQuery("ks", nil)
		}
		if q == nil {
			seq, nilInfo, overflow = drain(pol.Pick(nil), 4*len(s.hosts)+8)
		} else {
			seq, nilInfo, overflow = drain(pol.Pick(q), 4*len(s.hosts)+8)
		}
	}()
	pk := s.polKey()
	if panicked != "" {
		cls := "other"
		if s.tokenless {
			cls = "tokenless-ring"
		}
		c.Violation(fmt.Sprintf("C11:%s:panic:%s", pk, cls), "host selection panicked: "+panicked, wit(panicked))
		return
	}
	ids := func(l []*gocql.HostInfo) []string {
		var o []string
		for _, h := range l {
			o = append(o, h.HostID())
		}
		return o
	}
	if c.WantSample() {
		c.Sample(map[string]interface{}{"state": s.String(), "query_kind": qkind, "offered": ids(seq)})
	}
	if overflow {
		c.Violation("C11:"+pk+":non-terminating", "the host iterator did not end within 4*hosts+8 calls", wit(fmt.Sprint(ids(seq))))
		return
	}
	if nilInfo {
		cls := "nil-host"
		if s.tokenless {
			cls = "nil-host:tokenless-ring"
		}
		c.Violation("C11:"+pk+":"+cls, "a selected host has nil Info()", wit(fmt.Sprint(ids(seq))))
	}
	seen := map[*gocql.HostInfo]bool{}
	for _, h := range seq {
		ch := byPtr[h]
		if ch == nil {
			c.Violation("C11:"+pk+":unknown-host", "offered a host that was never added", wit(fmt.Sprint(ids(seq))))
			return
		}
		if !ch.up {
			c.Violation("C11:"+pk+":down-host-offered", "offered a host that is down: "+ch.id, wit(fmt.Sprint(ids(seq))))
		}
		if seen[h] {
			c.Violation("C11:"+pk+":duplicate-host", "offered host "+ch.id+" twice", wit(fmt.Sprint(ids(seq))))
		}
		seen[h] = true
	}
	for _, h := range s.hosts {
		if h.up && !seen[h.h] {
			c.Violation("C11:"+pk+":live-host-missing", "up host "+h.id+" is never offered", wit(fmt.Sprint(ids(seq))))
			break
		}
	}
	// ordering
	prefixLen := 0
	if s.token && rk != nil && !s.tokenless {
		c.Add("token_aware_with_key", 1)
		tokStr := fmt.Sprint(cqlref.Murmur3Token(rk))
		var replicas []*gocql.HostInfo
		if ksName == "ks" {
			replicas, _ = gocql.VerifTokenAwareReplicas(pol, "ks", tokStr)
		}
		if len(replicas) == 0 {
			var hs []*gocql.HostInfo
			for _, h := range s.hosts {
				hs = append(hs, h.h)
			}
			owner, _, _ := gocql.VerifRingLookup("Murmur3Partitioner", hs, tokStr)
			if owner != nil {
				replicas = []*gocql.HostInfo{owner}
			}
		}
		// the replicas themselves are Cassandra's for the ring as it is now (as a set; C10 looks at the details)
		if ksName == "ks" {
			var refNodes []*cqlref.Node
			byID := map[string]bool{}
			for _, h := range s.hosts {
				rn := &cqlref.Node{ID: h.id, DC: h.dc, Rack: h.rack}
				for _, t := range h.toks {
					rn.Tokens = append(rn.Tokens, big.NewInt(t))
				}
				refNodes = append(refNodes, rn)
			}
			ring := cqlref.NewRing(refNodes)
			if ring.Len() > 0 {
				idx := ring.Index(big.NewInt(cqlref.Murmur3Token(rk)))
				var exp []*cqlref.Node
				okExp := true
				if s.simple {
					exp = ring.SimpleReplicas(idx, s.rf)
				} else {
					exp = ring.NTSReplicas3x(idx, s.dcrf)
					if b := ring.NTSReplicas2x(idx, s.dcrf); !sameSet(exp, b) {
						okExp = false
					}
				}
				if okExp && len(exp) > 0 {
					c.Add("replica_sets_compared", 1)
					for _, n := range exp {
						byID[n.ID] = true
					}
					same := len(replicas) == len(exp)
					for _, h := range replicas {
						if !byID[h.HostID()] {
							same = false
						}
					}
					if !same {
						c.Violation("C11:"+pk+":replicas-not-cassandras", fmt.Sprintf("the replicas the policy holds for the query's token are %v, Cassandra places it on %v", ids(replicas), nodeIDs(exp)), wit(fmt.Sprintf("offered %v", ids(seq))))
					}
				}
			}
		}
		// expected prefix groups
		var groups [][]*gocql.HostInfo
		maxTier := 0
		if s.kind == "dc" {
			maxTier = 1
		} else if s.kind == "rack" {
			maxTier = 2
		}
		for t := 0; t <= maxTier; t++ {
			if t > 0 && !s.nonlocal {
				break
			}
			var g []*gocql.HostInfo
			for _, h := range replicas {
				if ch := byPtr[h]; ch != nil && ch.up && s.tierOf(ch) == t {
					g = append(g, h)
				}
			}
			groups = append(groups, g)
		}
		if s.nonlocal {
			c.Add("nonlocal_fallback", 1)
		}
		if len(replicas) > 12 {
			c.Add("more_than_12_replicas", 1)
		}
		pos := 0
		for gi, g := range groups {
			if len(g) == 0 {
				continue
			}
			if pos+len(g) > len(seq) {
				break // missing hosts already reported
			}
			got := seq[pos : pos+len(g)]
			ok := true
			if s.shuffle {
				m := map[*gocql.HostInfo]bool{}
				for _, h := range g {
					m[h] = true
				}
				for _, h := range got {
					if !m[h] {
						ok = false
					}
				}
			} else {
				for k := range g {
					if got[k] != g[k] {
						ok = false
					}
				}
			}
			if !ok {
				cls := "local-replicas-not-first"
				if gi > 0 {
					cls = fmt.Sprintf("remote-replicas-late:tier%d", gi)
					// the distinguishing input class of the known defect: some nearer remote tier holds no replica
					for k := 1; k < gi; k++ {
						if len(groups[k]) == 0 {
							cls += ":empty-nearer-tier"
							break
						}
					}
				}
				c.Violation("C11:"+pk+":"+cls, fmt.Sprintf("expected up replicas %v of tier %d at positions %d.., got %v", ids(g), gi, pos, ids(got)), wit(fmt.Sprintf("offered %v, replicas %v", ids(seq), ids(replicas))))
				break
			}
			pos += len(g)
		}
		prefixLen = pos
	}
	// after the replica prefix: tiers non-decreasing
	last := -1
	for k := prefixLen; k < len(seq); k++ {
		ch := byPtr[seq[k]]
		if ch == nil {
			break
		}
		t := s.tierOf(ch)
		if t < last {
			c.Violation("C11:"+pk+":tier-order", fmt.Sprintf("host %s of tier %d offered after a host of tier %d", ch.id, t, last), wit(fmt.Sprint(ids(seq))))
			break
		}
		last = t
	}
	// rotation of the starting host within every tier: with all hosts of a tier up, as many consecutive
	// queries as the tier has hosts start that tier at that many distinct hosts
	if prefixLen == 0 && panicked == "" && (!s.token || qkind >= 4) {
		byTier := map[int][]*c11host{}
		tierAllUp := map[int]bool{}
		maxSize := 0
		for _, h := range s.hosts {
			t := s.tierOf(h)
			byTier[t] = append(byTier[t], h)
			if _, seen := tierAllUp[t]; !seen {
				tierAllUp[t] = true
			}
			if !h.up {
				tierAllUp[t] = false
			}
		}
		check := false
		for t, l := range byTier {
			if tierAllUp[t] && len(l) >= 2 {
				check = true
				if len(l) > maxSize {
					maxSize = len(l)
				}
			}
		}
		if check {
			c.Add("rotation_checks", 1)
			starts := map[int]map[*gocql.HostInfo]bool{}
			for k := 0; k < maxSize; k++ {
				var nx gocql.NextHost
				if qkind == 5 {
					nx = pol.Pick(nil)
				} else {
					nx = pol.Pick(gocql.VerifNewQuery("ks", nil))
				}
				sq, _, _ := drain(nx, 4*len(s.hosts)+8)
				firstSeen := map[int]bool{}
				for _, h := range sq {
					ch := byPtr[h]
					if ch == nil {
						continue
					}
					t := s.tierOf(ch)
					if firstSeen[t] {
						continue
					}
					firstSeen[t] = true
					if k < len(byTier[t]) {
						if starts[t] == nil {
							starts[t] = map[*gocql.HostInfo]bool{}
						}
						starts[t][h] = true
					}
				}
			}
			for t, l := range byTier {
				if !tierAllUp[t] || len(l) < 2 {
					continue
				}
				if t > 0 {
					c.Add("rotation_checks_farther_tiers", 1)
				}
				if len(starts[t]) != len(l) {
					key := "C11:" + pk + ":no-rotation"
					if t > 0 {
						key += fmt.Sprintf(":tier%d", t)
					}
					c.Violation(key, fmt.Sprintf("%d consecutive queries started tier %d at only %d distinct hosts of its %d hosts", len(l), t, len(starts[t]), len(l)), wit(""))
				}
			}
		}
	}
}

// ---- concurrent safety ------------------------------------------------------------------

func c11concurrent(c *runner.Ctx, i int) {
	r := c.Rng
	s := c11gen(r)
	s.tokenless = false
	for len(s.hosts) < 4 {
		s = c11gen(r)
	}
	pol := s.build()
	var stop int32
	var wg sync.WaitGroup
	var picks int64
	fail := func(key, what string) {
		c.Violation("C11:"+s.polKey()+":concurrent:"+key, what, map[string]interface{}{"state": s.String()})
	}
	np := 2 + r.Intn(5)
	for g := 0; g < np; g++ {
		wg.Add(1)
		seed := r.Int63()
		go func() {
			defer wg.Done()
			rr := rand.New(rand.NewSource(seed))
			defer func() {
				if rec := recover(); rec != nil {
					fail("panic", fmt.Sprint(rec)+"\n"+string(debug.Stack()))
				}
			}()
			for atomic.LoadInt32(&stop) == 0 {
				rk := make([]byte, 8)
				rr.Read(rk)
				var q gocql.ExecutableQuery = gocql.VerifNewQuery("ks", rk)
				if rr.Intn(4) == 0 {
					q = gocql.VerifNewQuery("ks", nil)
				}
				_, nilInfo, overflow := drain(pol.Pick(q), 8*len(s.hosts)+64)
				if nilInfo {
					fail("nil-host", "nil host offered while the cluster state changes")
					return
				}
				if overflow {
					fail("non-terminating", "iterator did not end while the cluster state changes")
					return
				}
				atomic.AddInt64(&picks, 1)
			}
		}()
	}
	nm := 1 + r.Intn(3)
	var mwg sync.WaitGroup
	for g := 0; g < nm; g++ {
		mwg.Add(1)
		seed := r.Int63()
		go func() {
			defer mwg.Done()
			rr := rand.New(rand.NewSource(seed))
			defer func() {
				if rec := recover(); rec != nil {
					fail("panic", fmt.Sprint(rec))
				}
			}()
			for k := 0; k < 400; k++ {
				h := s.hosts[rr.Intn(len(s.hosts))]
				switch rr.Intn(6) {
				case 0:
					pol.RemoveHost(h.h)
				case 1:
					pol.AddHost(h.h)
				case 2:
					gocql.VerifSetHostState(h.h, false)
					pol.HostDown(h.h)
				case 3:
					gocql.VerifSetHostState(h.h, true)
					pol.HostUp(h.h)
				case 4:
					if s.token {
						pol.KeyspaceChanged(gocql.KeyspaceUpdateEvent{Keyspace: "ks"})
					}
				default:
					time.Sleep(time.Duration(rr.Intn(200)) * time.Microsecond)
				}
			}
		}()
	}
	mwg.Wait()
	atomic.StoreInt32(&stop, 1)
	wg.Wait()
	c.Add("concurrent_picks", atomic.LoadInt64(&picks))
	c.Eval(runner.H("conc", s.String()), true)
	// after the dust settles the static guarantees hold again for the final state
	for _, h := range s.hosts {
		gocql.VerifSetHostState(h.h, true)
		pol.AddHost(h.h)
		pol.HostUp(h.h)
	}
	seq, nilInfo, overflow := drain(pol.Pick(gocql.VerifNewQuery("ks", nil)), 8*len(s.hosts)+64)
	if nilInfo || overflow || len(seq) != len(s.hosts) {
		var got []string
		for _, h := range seq {
			got = append(got, h.HostID())
		}
		sort.Strings(got)
		fail("final-state", fmt.Sprintf("after re-adding every host the policy offers %d of %d hosts: %v", len(seq), len(s.hosts), got))
	}
}

// c11build: hosts join from several goroutines at once (bootstrap, node-up bursts); once all
// calls have returned, every host must be in the token ring: the owner of each token is the
// first replica whenever its DC holds replicas.
func c11build(c *runner.Ctx, i int) {
	r := c.Rng
	s := c11gen(r)
	for len(s.hosts) < 4 || s.tokenless {
		s = c11gen(r)
	}
	s.token = true
	for _, h := range s.hosts {
		h.up, h.notified = true, false
		gocql.VerifSetHostState(h.h, true)
	}
	var fb gocql.HostSelectionPolicy = gocql.RoundRobinHostPolicy()
	pol := c11tokenAware(fb, false, false)
	ks := s.keyspace()
	gocql.VerifInitTokenAware(pol, "ks", func(string) (*gocql.KeyspaceMetadata, error) { return ks, nil })
	pol.SetPartitioner("org.apache.cassandra.dht.Murmur3Partitioner")
	pol.KeyspaceChanged(gocql.KeyspaceUpdateEvent{Keyspace: "ks"})
	ng := 2 + r.Intn(6)
	var wg sync.WaitGroup
	start := make(chan struct{})
	for g := 0; g < ng; g++ {
		wg.Add(1)
		go func(g int) {
			defer wg.Done()
			<-start
			for k := g; k < len(s.hosts); k += ng {
				pol.AddHost(s.hosts[k].h)
			}
		}(g)
	}
	close(start)
	wg.Wait()
	c.Add("concurrent_builds", 1)
	c.Eval(runner.H("build", s.String(), ng), true)
	for _, h := range s.hosts {
		if !s.simple && s.dcrf[h.dc] == 0 {
			continue
		}
		if s.simple && s.rf == 0 {
			continue
		}
		for _, t := range h.h.Tokens() {
			reps, _ := gocql.VerifTokenAwareReplicas(pol, "ks", t)
			if len(reps) == 0 || reps[0] != h.h {
				got := "none"
				if len(reps) > 0 {
					got = reps[0].HostID()
				}
				c.Violation("C11:token:concurrent-build:host-missing-from-ring", fmt.Sprintf("after %d goroutines added the hosts concurrently, token %s of host %s has first replica %s", ng, t, h.id, got), map[string]interface{}{"state": s.String()})
				return
			}
		}
	}
}

// ---- copy-on-write host list: linearizability -------------------------------------------

type cowOp struct {
	kind string // add | remove | get
	id   int
}
type cowOut struct {
	ok  bool
	set string
}

func c11cow(c *runner.Ctx, i int) {
	r := c.Rng
	nh := 2 + r.Intn(3)
	var hosts []*gocql.HostInfo
	for k := 0; k < nh; k++ {
		hosts = append(hosts, gocql.VerifNewHostInfo(fmt.Sprintf("h%d", k), []byte{10, 2, 0, byte(k + 1)}, 9042, "dc", "r", nil, true))
	}
	var l gocql.VerifCowList
	var mu sync.Mutex
	var ops []porcupine.Operation
	t0 := time.Now()
	ng := 2 + r.Intn(3)
	var wg sync.WaitGroup
	for g := 0; g < ng; g++ {
		wg.Add(1)
		seed := r.Int63()
		go func(g int) {
			defer wg.Done()
			rr := rand.New(rand.NewSource(seed))
			for k := 0; k < 6+rr.Intn(6); k++ {
				op := cowOp{id: rr.Intn(nh)}
				var out cowOut
				call := time.Since(t0).Nanoseconds()
				switch rr.Intn(3) {
				case 0:
					op.kind = "add"
					out.ok = l.Add(hosts[op.id])
				case 1:
					op.kind = "remove"
					out.ok = l.Remove(hosts[op.id].ConnectAddress())
				default:
					op.kind = "get"
					var ids []string
					for _, h := range l.Get() {
						ids = append(ids, h.HostID())
					}
					sort.Strings(ids)
					out.set = strings.Join(ids, ",")
				}
				ret := time.Since(t0).Nanoseconds()
				mu.Lock()
				ops = append(ops, porcupine.Operation{ClientId: g, Input: op, Call: call, Output: out, Return: ret})
				mu.Unlock()
			}
		}(g)
	}
	wg.Wait()
	model := porcupine.Model{
		Init: func() interface{} { return "" },
		Step: func(st, in, out interface{}) (bool, interface{}) {
			s := st.(string)
			set := map[string]bool{}
			if s != "" {
				for _, x := range strings.Split(s, ",") {
					set[x] = true
				}
			}
			op, o := in.(cowOp), out.(cowOut)
			id := fmt.Sprintf("h%d", op.id)
			switch op.kind {
			case "add":
				if o.ok == set[id] {
					return false, st
				}
				set[id] = true
			case "remove":
				if o.ok != set[id] {
					return false, st
				}
				delete(set, id)
			default:
				return o.set == s, st
			}
			var ids []string
			for k := range set {
				ids = append(ids, k)
			}
			sort.Strings(ids)
			return true, strings.Join(ids, ",")
		},
		Equal: func(a, b interface{}) bool { return a.(string) == b.(string) },
	}
	res := porcupine.CheckOperationsTimeout(model, ops, 20*time.Second)
	c.Eval(runner.H("cow", i, len(ops)), true)
	switch res {
	case porcupine.Ok:
		c.Add("histories_checked", 1)
		c.Add("history_ops", int64(len(ops)))
	case porcupine.Unknown:
		c.Inconclusive("porcupine-timeout", "linearizability check of a cowHostList history timed out")
	default:
		var hist []string
		for _, o := range ops {
			hist = append(hist, fmt.Sprintf("g%d %v -> %v [%d,%d]", o.ClientId, o.Input, o.Output, o.Call, o.Return))
		}
		c.Violation("C11:cowHostList:not-linearizable", "a recorded history of add/remove/get on the copy-on-write host list is not linearizable", map[string]interface{}{"history": hist})
	}
	if c.WantSample() {
		c.Sample(map[string]interface{}{"cow_history_ops": len(ops), "goroutines": ng})
	}
}

func c11tokenAware(fb gocql.HostSelectionPolicy, shuffle, nonlocal bool) gocql.HostSelectionPolicy {
	switch {
	case shuffle && nonlocal:
		return gocql.TokenAwareHostPolicy(fb, gocql.ShuffleReplicas(), gocql.NonLocalReplicasFallback())
	case shuffle:
		return gocql.TokenAwareHostPolicy(fb, gocql.ShuffleReplicas())
	case nonlocal:
		return gocql.TokenAwareHostPolicy(fb, gocql.NonLocalReplicasFallback())
	}
	return gocql.TokenAwareHostPolicy(fb)
}

// c11addressExchange: host identities and addresses that do not move together - two nodes exchange addresses, a
// replacement node takes over an address before the old node is removed (what a ring refresh does for hosts whose
// address changed). Whatever the policy ends up knowing, it must not panic, must not offer a nil host or a host
// twice, and every later update and Pick must keep working.
func c11addressExchange(c *runner.Ctx, i int) {
	r := c.Rng
	s := c11gen(r)
	s.tokenless = false
	for len(s.hosts) < 3 {
		s = c11gen(r)
		s.tokenless = false
	}
	for _, h := range s.hosts {
		h.up, h.notified = true, false
	}
	variant := i % 2
	where := "building the policy"
	defer func() {
		if rec := recover(); rec != nil {
			c.Violation(fmt.Sprintf("C11:%s:panic:address-exchange", s.polKey()), fmt.Sprintf("the policy panicked while %s: %v", where, rec), map[string]interface{}{"state": s.String(), "variant": variant, "stack": string(debug.Stack())})
		}
	}()
	s.extraRemoved = false
	pol := s.build()
	x, y := s.hosts[0], s.hosts[1]
	ipX, ipY := x.h.ConnectAddress(), y.h.ConnectAddress()
	mk := func(h *c11host, ip net.IP) *gocql.HostInfo {
		var toks []string
		for _, t := range h.toks {
			toks = append(toks, fmt.Sprint(t))
		}
		return gocql.VerifNewHostInfo(h.id, ip, 9042, h.dc, h.rack, toks, true)
	}
	switch variant {
	case 0:
		where = "two nodes exchange addresses"
		pol.RemoveHost(x.h)
		pol.AddHost(mk(x, ipY))
		pol.RemoveHost(y.h)
		pol.AddHost(mk(y, ipX))
	default:
		where = "a replacement node takes over an address before the old node is removed"
		repl := &c11host{id: "replacement", dc: y.dc, rack: y.rack, toks: []int64{1<<62 + 777}}
		pol.AddHost(mk(repl, ipY))
		pol.RemoveHost(y.h)
	}
	c.Add("address_exchanges", 1)
	c.Eval(runner.H("c11exchange", s.polKey(), variant, len(s.hosts)), true)
	where = "picking after: " + where
	for k := 0; k < 4; k++ {
		var q gocql.ExecutableQuery = gocql.VerifNewQuery("ks", []byte{byte(k), 1, 2, 3})
		seq, nilInfo, overflow := drain(pol.Pick(q), 4*len(s.hosts)+16)
		if nilInfo {
			c.Violation(fmt.Sprintf("C11:%s:nil-host:address-exchange", s.polKey()), "a selected host has nil Info() after "+where, map[string]interface{}{"state": s.String()})
			return
		}
		if overflow {
			c.Violation(fmt.Sprintf("C11:%s:non-terminating:address-exchange", s.polKey()), "the host iterator does not end after "+where, map[string]interface{}{"state": s.String()})
			return
		}
		seen := map[*gocql.HostInfo]bool{}
		for _, h := range seq {
			if seen[h] {
				c.Violation(fmt.Sprintf("C11:%s:duplicate-host:address-exchange", s.polKey()), "a host is offered twice after "+where, map[string]interface{}{"state": s.String()})
				return
			}
			seen[h] = true
		}
	}
	where = "further updates after: " + where
	z := s.hosts[2]
	pol.HostDown(z.h)
	pol.HostUp(z.h)
	pol.RemoveHost(z.h)
	pol.AddHost(z.h)
	drain(pol.Pick(nil), 4*len(s.hosts)+16)
}

// c11longHistory: one policy instance is asked for more plans than a 32-bit counter can count (a session at 10k
// queries/s gets there in two and a half days). Every plan still offers a host first, and the full plans taken along
// the way and at the end offer every node exactly once, nearest tier first.
func c11longHistory(c *runner.Ctx, i int) {
	kind := []string{"rr", "dc", "rack", "token+dc"}[i%4]
	var hosts []*gocql.HostInfo
	for k := 0; k < 5; k++ {
		dc, rack := "dc0", "r0"
		if k >= 3 {
			dc = "dc1"
		}
		if k%2 == 1 {
			rack = "r1"
		}
		hosts = append(hosts, gocql.VerifNewHostInfo(fmt.Sprintf("h%d", k), []byte{10, 0, 0, byte(k + 1)}, 9042, dc, rack, []string{fmt.Sprint(k * 1000)}, true))
	}
	var pol gocql.HostSelectionPolicy
	switch kind {
	case "rr":
		pol = gocql.RoundRobinHostPolicy()
	case "dc":
		pol = gocql.DCAwareRoundRobinPolicy("dc0")
	case "rack":
		pol = gocql.RackAwareRoundRobinPolicy("dc0", "r0")
	default:
		pol = gocql.TokenAwareHostPolicy(gocql.DCAwareRoundRobinPolicy("dc0"))
		gocql.VerifInitTokenAware(pol, "ks", func(string) (*gocql.KeyspaceMetadata, error) {
			return &gocql.KeyspaceMetadata{Name: "ks", StrategyClass: "org.apache.cassandra.locator.SimpleStrategy", StrategyOptions: map[string]interface{}{"replication_factor": "2"}}, nil
		})
		pol.SetPartitioner("org.apache.cassandra.dht.Murmur3Partitioner")
	}
	for _, h := range hosts {
		pol.AddHost(h)
	}
	total := uint64(1)<<31 + 1<<17
	full := func(n uint64) bool {
		var seq []*gocql.HostInfo
		panicked := ""
		func() {
			defer func() {
				if r := recover(); r != nil {
					panicked = fmt.Sprint(r)
				}
			}()
			seq, _, _ = drain(pol.Pick(nil), 64)
		}()
		if panicked != "" {
			c.Violation("C11:long-history:panic:"+kind, fmt.Sprintf("plan number %d of one %s policy panicked: %s", n, kind, panicked), map[string]interface{}{"policy": kind, "plan": n})
			return false
		}
		seen := map[string]int{}
		for _, h := range seq {
			seen[h.HostID()]++
		}
		for _, h := range hosts {
			if seen[h.HostID()] != 1 {
				c.Violation("C11:long-history:not-each-once:"+kind, fmt.Sprintf("plan number %d of one %s policy offers %s %d times (5 nodes, all up)", n, kind, h.HostID(), seen[h.HostID()]), map[string]interface{}{"policy": kind, "plan": n, "offered": len(seq)})
				return false
			}
		}
		return true
	}
	for n := uint64(0); n < total; n++ {
		if n&(1<<16-1) == 0 || n+(1<<16) >= total || (n >= 1<<31-64 && n < 1<<31+64) || (n >= 1<<32-64 && n < 1<<32+64) {
			if n&(1<<22-1) == 0 {
				c.Touch()
			}
			if !full(n) {
				return
			}
			continue
		}
		ok := true
		func() {
			defer func() {
				if r := recover(); r != nil {
					c.Violation("C11:long-history:panic:"+kind, fmt.Sprintf("plan number %d of one %s policy panicked: %v", n, kind, r), map[string]interface{}{"policy": kind, "plan": n})
					ok = false
				}
			}()
			if h := pol.Pick(nil)(); h == nil || h.Info() == nil {
				c.Violation("C11:long-history:no-host:"+kind, fmt.Sprintf("plan number %d of one %s policy offers no host although 5 nodes are up", n, kind), map[string]interface{}{"policy": kind, "plan": n})
				ok = false
			}
		}()
		if !ok {
			return
		}
	}
	c.Add("long_history_plans", int64(total))
	c.Eval(runner.H("c11long", kind), true)
}
