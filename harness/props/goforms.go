package props

import (
	"fmt"
	"math"
	"math/big"
	"math/rand"
	"net"
	"reflect"
	"sort"
	"strconv"
	"strings"
	"time"

	"github.com/gocql/gocql"
	"gopkg.in/inf.v0"

	"verifharness/cqlref"
)

// --- CQL type tree -> gocql.TypeInfo -------------------------------------------------

func typeInfo(t *cqlref.Type, proto int) gocql.TypeInfo {
	nt := gocql.NewNativeType(byte(proto), gocql.Type(t.ID), t.Custom)
	switch t.ID {
	case cqlref.TList, cqlref.TSet:
		return gocql.CollectionType{NativeType: nt, Elem: typeInfo(t.Elem, proto)}
	case cqlref.TMap:
		return gocql.CollectionType{NativeType: nt, Key: typeInfo(t.Key, proto), Elem: typeInfo(t.Elem, proto)}
	case cqlref.TTuple:
		ti := gocql.TupleTypeInfo{NativeType: nt}
		for _, e := range t.Elems {
			ti.Elems = append(ti.Elems, typeInfo(e, proto))
		}
		return ti
	case cqlref.TUDT:
		ui := gocql.UDTTypeInfo{NativeType: nt, KeySpace: t.Keyspace, Name: t.Name}
		for i, e := range t.Elems {
			ui.Elements = append(ui.Elements, gocql.UDTField{Name: t.Fields[i], Type: typeInfo(e, proto)})
		}
		return ui
	}
	return nt
}

// typeFromInfo converts back (used by C04 to compare the driver's TypeInfo tree).
func typeFromInfo(ti gocql.TypeInfo) *cqlref.Type {
	t := &cqlref.Type{ID: int(ti.Type()), Custom: ti.Custom()}
	switch v := ti.(type) {
	case gocql.CollectionType:
		if v.Key != nil {
			t.Key = typeFromInfo(v.Key)
		}
		if v.Elem != nil {
			t.Elem = typeFromInfo(v.Elem)
		}
	case gocql.TupleTypeInfo:
		for _, e := range v.Elems {
			t.Elems = append(t.Elems, typeFromInfo(e))
		}
	case gocql.UDTTypeInfo:
		t.Keyspace, t.Name = v.KeySpace, v.Name
		for _, e := range v.Elements {
			t.Fields = append(t.Fields, e.Name)
			t.Elems = append(t.Elems, typeFromInfo(e.Type))
		}
	}
	return t
}

// --- named Go types ------------------------------------------------------------------

type (
	nString  string
	nBytes   []byte
	nBool    bool
	nInt     int
	nInt8    int8
	nInt16   int16
	nInt32   int32
	nInt64   int64
	nUint    uint
	nUint8   uint8
	nUint16  uint16
	nUint32  uint32
	nUint64  uint64
	nFloat32 float32
	nFloat64 float64
)

var (
	rtString   = reflect.TypeOf("")
	rtBytes    = reflect.TypeOf([]byte(nil))
	rtBool     = reflect.TypeOf(false)
	rtBigInt   = reflect.TypeOf(big.Int{})
	rtDec      = reflect.TypeOf(inf.Dec{})
	rtTime     = reflect.TypeOf(time.Time{})
	rtDuration = reflect.TypeOf(time.Duration(0))
	rtCQLDur   = reflect.TypeOf(gocql.Duration{})
	rtUUID     = reflect.TypeOf(gocql.UUID{})
	rtArr16    = reflect.TypeOf([16]byte{})
	rtIP       = reflect.TypeOf(net.IP(nil))
	rtIface    = reflect.TypeOf((*interface{})(nil)).Elem()
	rtEmpty    = reflect.TypeOf(struct{}{})
	rtInt64    = reflect.TypeOf(int64(0))
)

var intTypes = []reflect.Type{
	reflect.TypeOf(int(0)), reflect.TypeOf(int8(0)), reflect.TypeOf(int16(0)), reflect.TypeOf(int32(0)), reflect.TypeOf(int64(0)),
	reflect.TypeOf(uint(0)), reflect.TypeOf(uint8(0)), reflect.TypeOf(uint16(0)), reflect.TypeOf(uint32(0)), reflect.TypeOf(uint64(0)),
}
var namedIntTypes = []reflect.Type{
	reflect.TypeOf(nInt(0)), reflect.TypeOf(nInt8(0)), reflect.TypeOf(nInt16(0)), reflect.TypeOf(nInt32(0)), reflect.TypeOf(nInt64(0)),
	reflect.TypeOf(nUint(0)), reflect.TypeOf(nUint8(0)), reflect.TypeOf(nUint16(0)), reflect.TypeOf(nUint32(0)), reflect.TypeOf(nUint64(0)),
}

// gform is one choice of Go representation for a value of a CQL type.
type gform struct {
	t    *cqlref.Type
	kind string
	rt   reflect.Type
	ptr  bool
	sub  []*gform
	loc  *time.Location
	ip16 bool
	dec  bool  // form was picked as a decode destination
	off  int64 // deterministic sub-unit offset (ns) for time.Time forms
}

func (f *gform) goType() reflect.Type {
	if f.ptr {
		return reflect.PtrTo(f.rt)
	}
	return f.rt
}

func (f *gform) String() string {
	s := f.kind
	if f.kind == "int" || f.kind == "basic" {
		s = f.rt.String()
	}
	if f.ptr {
		s = "*" + s
	}
	if len(f.sub) > 0 {
		s += "("
		for i, c := range f.sub {
			if i > 0 {
				s += ","
			}
			s += c.String()
		}
		s += ")"
	}
	return s
}

// leafKind: a short, stable name of the top-level Go representation used in finding keys.
func (f *gform) keyName() string {
	s := f.kind
	if f.kind == "int" || f.kind == "basic" {
		s = f.rt.String()
		if len(s) > 6 && s[:6] == "props." {
			s = "named-" + s[7:]
		}
	}
	return s
}

func comparableForm(f *gform) bool {
	if f.ptr {
		return false
	}
	return f.rt.Comparable() && f.kind != "float" && f.kind != "time" && f.kind != "ifaceslice" && f.kind != "struct" && f.kind != "udtstruct" && f.kind != "array"
}

type dir int

const (
	dirMarshal dir = iota
	dirUnmarshal
)

// pickForm chooses a Go representation for value v of type t that the documentation
// lists for direction d.  needCmp requires a comparable Go type (map keys).
func pickForm(r *rand.Rand, t *cqlref.Type, vs []cqlref.Val, d dir, needCmp bool, proto int) *gform {
	// vs: every logical value this form has to represent (all elements of a collection share one form)
	var nn []cqlref.Val
	for _, x := range vs {
		if !x.Null {
			nn = append(nn, x)
		}
	}
	f := &gform{t: t, dec: d == dirUnmarshal}
	allowPtr := !needCmp
	switch t.ID {
	case cqlref.TAscii, cqlref.TText, cqlref.TVarchar, cqlref.TBlob:
		f.kind = "basic"
		c := []reflect.Type{rtString, rtBytes, reflect.TypeOf(nString("")), reflect.TypeOf(nBytes(nil))}
		if needCmp {
			c = []reflect.Type{rtString, reflect.TypeOf(nString(""))}
		}
		f.rt = c[r.Intn(len(c))]
	case cqlref.TBoolean:
		f.kind = "basic"
		c := []reflect.Type{rtBool, reflect.TypeOf(nBool(false))}
		f.rt = c[r.Intn(len(c))]
	case cqlref.TTinyint, cqlref.TSmallint, cqlref.TInt, cqlref.TBigint, cqlref.TCounter, cqlref.TVarint:
		if t.ID == cqlref.TVarint && d == dirUnmarshal {
			// Unmarshal's table has no varint row; use what gocql itself allocates or special-cases
			c := []reflect.Type{rtInt64, reflect.TypeOf(int(0)), reflect.TypeOf(uint64(0)), rtBigInt, rtBigInt}
			f.rt = c[r.Intn(len(c))]
			f.kind = "int"
			if f.rt == rtBigInt {
				f.kind = "bigint"
			}
			break
		}
		switch x := r.Intn(20); {
		case x < 10:
			f.kind, f.rt = "int", intTypes[r.Intn(len(intTypes))]
		case x < 14:
			f.kind, f.rt = "int", namedIntTypes[r.Intn(len(namedIntTypes))]
		case x < 16 && !(t.ID == cqlref.TVarint && d == dirUnmarshal):
			f.kind, f.rt = "intstring", rtString
		case x < 20 && !needCmp && (d == dirUnmarshal || t.ID == cqlref.TBigint || t.ID == cqlref.TCounter || t.ID == cqlref.TVarint):
			f.kind, f.rt = "bigint", rtBigInt
		default:
			f.kind, f.rt = "int", intTypes[r.Intn(len(intTypes))]
		}
	case cqlref.TFloat:
		f.kind = "float"
		c := []reflect.Type{reflect.TypeOf(float32(0)), reflect.TypeOf(nFloat32(0))}
		f.rt = c[r.Intn(2)]
	case cqlref.TDouble:
		f.kind = "float"
		c := []reflect.Type{reflect.TypeOf(float64(0)), reflect.TypeOf(nFloat64(0))}
		f.rt = c[r.Intn(2)]
	case cqlref.TDecimal:
		f.kind, f.rt = "dec", rtDec
	case cqlref.TTime:
		switch r.Intn(3) {
		case 0:
			f.kind, f.rt = "int", rtInt64
		case 1:
			f.kind, f.rt = "int", rtDuration
		default:
			f.kind, f.rt = "int", reflect.TypeOf(nInt64(0))
		}
	case cqlref.TTimestamp:
		switch r.Intn(3) {
		case 0:
			f.kind, f.rt = "int", rtInt64
		case 1:
			f.kind, f.rt = "time", rtTime
			f.loc = pickLoc(r)
			f.off = int64(r.Intn(1000000))
		default:
			f.kind, f.rt = "int", reflect.TypeOf(nInt64(0))
		}
		if needCmp && f.kind == "time" {
			f.kind, f.rt = "int", rtInt64
		}
	case cqlref.TDate:
		switch x := r.Intn(3); {
		case x == 0 && d == dirMarshal:
			f.kind, f.rt = "datems", rtInt64
		case x == 1:
			f.kind, f.rt = "datestring", rtString
		default:
			f.kind, f.rt = "date", rtTime
			f.loc = pickLoc(r)
			if r.Intn(2) == 0 {
				f.off = r.Int63n(86400 * 1e9)
			}
			if needCmp {
				f.kind, f.rt = "datestring", rtString
			}
		}
	case cqlref.TDuration:
		if d == dirUnmarshal {
			f.kind, f.rt = "cqldur", rtCQLDur
		} else {
			switch r.Intn(5) {
			case 0:
				f.kind, f.rt = "durns", rtInt64
			case 1:
				f.kind, f.rt = "durns", rtDuration
			case 2:
				f.kind, f.rt = "durstring", rtString
			case 3:
				f.kind, f.rt = "durns", reflect.TypeOf(nInt64(0))
			default:
				f.kind, f.rt = "cqldur", rtCQLDur
			}
		}
	case cqlref.TUUID, cqlref.TTimeUUID:
		switch x := r.Intn(5); {
		case x == 0:
			f.kind, f.rt = "uuid", rtUUID
		case x == 1 && d == dirMarshal:
			f.kind, f.rt = "uuid16", rtArr16
		case x == 2 && !needCmp:
			f.kind, f.rt = "uuidbytes", rtBytes
		case x == 3:
			f.kind, f.rt = "uuidstring", rtString
		case x == 4 && t.ID == cqlref.TTimeUUID && d == dirUnmarshal && !needCmp:
			f.kind, f.rt = "uuidtime", rtTime
		default:
			f.kind, f.rt = "uuid", rtUUID
		}
	case cqlref.TInet:
		if r.Intn(2) == 0 && !needCmp {
			f.kind, f.rt = "ip", rtIP
			f.ip16 = r.Intn(2) == 0
		} else {
			f.kind, f.rt = "ipstring", rtString
		}
	case cqlref.TList, cqlref.TSet:
		if needCmp {
			return nil // slices are not comparable: cannot be a Go map key
		}
		// every element shares one child form; it must be a pointer form if any element is null
		anyNull := false
		var kids []cqlref.Val
		n, sameLen := -1, true
		for _, x := range nn {
			if n >= 0 && len(x.Elems) != n {
				sameLen = false
			}
			n = len(x.Elems)
			for _, e := range x.Elems {
				if e.Null {
					anyNull = true
				}
				kids = append(kids, e)
			}
		}
		x := r.Intn(10)
		mapset := d == dirMarshal && x == 0 && !anyNull && t.ID == cqlref.TSet
		child := pickForm(r, t.Elem, kids, d, mapset, proto)
		if child == nil && mapset {
			mapset = false
			child = pickForm(r, t.Elem, kids, d, false, proto)
		}
		if child == nil {
			return nil
		}
		if anyNull {
			child.ptr = true
		}
		f.sub = []*gform{child}
		switch {
		case mapset && comparableForm(child):
			f.kind = "mapset"
			f.rt = reflect.MapOf(child.goType(), rtEmpty)
		case x == 1 && n >= 0 && sameLen && len(vs) == len(nn):
			f.kind = "array"
			f.rt = reflect.ArrayOf(n, child.goType())
		default:
			f.kind = "slice"
			f.rt = reflect.SliceOf(child.goType())
		}
		allowPtr = false
	case cqlref.TMap:
		if needCmp {
			return nil
		}
		var ks, es []cqlref.Val
		anyNull := false
		for _, x := range nn {
			for i := range x.Elems {
				ks = append(ks, x.Keys[i])
				es = append(es, x.Elems[i])
				if x.Elems[i].Null {
					anyNull = true
				}
			}
		}
		kf := pickForm(r, t.Key, ks, d, true, proto)
		if kf == nil || !comparableForm(kf) {
			return nil
		}
		vf := pickForm(r, t.Elem, es, d, false, proto)
		if vf == nil {
			return nil
		}
		if anyNull {
			vf.ptr = true
		}
		f.kind = "map"
		f.sub = []*gform{kf, vf}
		f.rt = reflect.MapOf(kf.goType(), vf.goType())
		allowPtr = false
	case cqlref.TTuple:
		if needCmp {
			return nil
		}
		nullAt := make([]bool, len(t.Elems))
		for i, et := range t.Elems {
			var kids []cqlref.Val
			for _, x := range nn {
				kids = append(kids, x.Elems[i])
				if x.Elems[i].Null {
					nullAt[i] = true
				}
			}
			var c *gform
			if d == dirUnmarshal {
				// gocql allocates tuple elements itself (TypeInfo.New): destinations must have those types
				c = naturalForm(et)
			} else {
				c = pickForm(r, et, kids, d, false, proto)
			}
			if c == nil {
				return nil
			}
			if nullAt[i] && d == dirMarshal {
				c.ptr = true
			}
			f.sub = append(f.sub, c)
		}
		structOK := true
		if d == dirUnmarshal {
			for _, c := range f.sub {
				if c.ptr {
					structOK = false // *big.Int / *inf.Dec elements: only interface{} slots can hold what gocql allocates
				}
			}
		}
		if r.Intn(2) == 0 || !structOK {
			f.kind = "ifaceslice"
			f.rt = reflect.SliceOf(rtIface)
		} else {
			f.kind = "struct"
			if d == dirUnmarshal {
				for i := range nullAt {
					if nullAt[i] {
						f.sub[i].ptr = true // pointer field: nil for null
					}
				}
			}
			var fields []reflect.StructField
			for i, c := range f.sub {
				fields = append(fields, reflect.StructField{Name: fmt.Sprintf("F%d", i), Type: c.goType()})
			}
			f.rt = reflect.StructOf(fields)
		}
		allowPtr = false
	case cqlref.TUDT:
		if needCmp {
			return nil
		}
		asMap := r.Intn(2) == 0
		for i, et := range t.Elems {
			var kids []cqlref.Val
			anyNull := false
			for _, x := range nn {
				kids = append(kids, x.Elems[i])
				if x.Elems[i].Null {
					anyNull = true
				}
			}
			var c *gform
			if asMap && d == dirUnmarshal {
				c = naturalForm(et)
			} else {
				c = pickForm(r, et, kids, d, false, proto)
			}
			if c == nil {
				return nil
			}
			if anyNull && !(asMap && d == dirUnmarshal) {
				c.ptr = true
			}
			f.sub = append(f.sub, c)
		}
		if asMap {
			f.kind = "udtmap"
			f.rt = reflect.TypeOf(map[string]interface{}(nil))
		} else {
			f.kind = "udtstruct"
			var fields []reflect.StructField
			for i, c := range f.sub {
				fields = append(fields, reflect.StructField{Name: fmt.Sprintf("X%d", i), Type: c.goType(), Tag: reflect.StructTag(fmt.Sprintf(`cql:"%s"`, t.Fields[i]))})
			}
			f.rt = reflect.StructOf(fields)
		}
		allowPtr = false
	default:
		return nil
	}
	if needCmp && !comparableForm(f) {
		return nil
	}
	if allowPtr && r.Intn(6) == 0 {
		f.ptr = true
	}
	return f
}

var locs = []*time.Location{time.UTC, time.FixedZone("p", 5*3600+1800), time.FixedZone("m", -11*3600), time.FixedZone("x", 14*3600)}

func pickLoc(r *rand.Rand) *time.Location { return locs[r.Intn(len(locs))] }

// naturalForm is the Go type gocql itself chooses (goType in helpers.go) when it has to
// allocate a destination, e.g. for UDT fields unmarshalled into map[string]interface{}.
func naturalForm(t *cqlref.Type) *gform {
	f := &gform{t: t, dec: true}
	switch t.ID {
	case cqlref.TAscii, cqlref.TText, cqlref.TVarchar:
		f.kind, f.rt = "basic", rtString
	case cqlref.TInet:
		f.kind, f.rt = "ipstring", rtString
	case cqlref.TBlob:
		f.kind, f.rt = "basic", rtBytes
	case cqlref.TBoolean:
		f.kind, f.rt = "basic", rtBool
	case cqlref.TBigint, cqlref.TCounter:
		f.kind, f.rt = "int", rtInt64
	case cqlref.TTime:
		f.kind, f.rt = "int", rtDuration
	case cqlref.TTimestamp:
		f.kind, f.rt, f.loc = "time", rtTime, time.UTC
	case cqlref.TFloat:
		f.kind, f.rt = "float", reflect.TypeOf(float32(0))
	case cqlref.TDouble:
		f.kind, f.rt = "float", reflect.TypeOf(float64(0))
	case cqlref.TInt:
		f.kind, f.rt = "int", reflect.TypeOf(int(0))
	case cqlref.TSmallint:
		f.kind, f.rt = "int", reflect.TypeOf(int16(0))
	case cqlref.TTinyint:
		f.kind, f.rt = "int", reflect.TypeOf(int8(0))
	case cqlref.TDecimal:
		f.kind, f.rt, f.ptr = "dec", rtDec, true
	case cqlref.TUUID, cqlref.TTimeUUID:
		f.kind, f.rt = "uuid", rtUUID
	case cqlref.TVarint:
		f.kind, f.rt, f.ptr = "bigint", rtBigInt, true
	case cqlref.TDate:
		f.kind, f.rt, f.loc = "date", rtTime, time.UTC
	case cqlref.TDuration:
		f.kind, f.rt = "cqldur", rtCQLDur
	case cqlref.TList, cqlref.TSet:
		c := naturalForm(t.Elem)
		if c == nil {
			return nil
		}
		f.kind, f.sub, f.rt = "slice", []*gform{c}, reflect.SliceOf(c.goType())
	case cqlref.TMap:
		k, v := naturalForm(t.Key), naturalForm(t.Elem)
		if k == nil || v == nil || !k.goType().Comparable() {
			return nil
		}
		f.kind, f.sub, f.rt = "map", []*gform{k, v}, reflect.MapOf(k.goType(), v.goType())
	case cqlref.TTuple:
		for _, e := range t.Elems {
			c := naturalForm(e)
			if c == nil {
				return nil
			}
			f.sub = append(f.sub, c)
		}
		f.kind, f.rt = "ifaceslice", reflect.SliceOf(rtIface)
	case cqlref.TUDT:
		for _, e := range t.Elems {
			c := naturalForm(e)
			if c == nil {
				return nil
			}
			f.sub = append(f.sub, c)
		}
		f.kind, f.rt = "udtmap", reflect.TypeOf(map[string]interface{}(nil))
	default:
		return nil
	}
	return f
}

var (
	minI64 = big.NewInt(math.MinInt64)
	maxI64 = big.NewInt(math.MaxInt64)
	maxU64 = new(big.Int).SetUint64(math.MaxUint64)
)

func intFitsKind(x *big.Int, k reflect.Kind) bool {
	switch k {
	case reflect.Int, reflect.Int64:
		return x.IsInt64()
	case reflect.Int8:
		return x.IsInt64() && x.Int64() >= math.MinInt8 && x.Int64() <= math.MaxInt8
	case reflect.Int16:
		return x.IsInt64() && x.Int64() >= math.MinInt16 && x.Int64() <= math.MaxInt16
	case reflect.Int32:
		return x.IsInt64() && x.Int64() >= math.MinInt32 && x.Int64() <= math.MaxInt32
	case reflect.Uint, reflect.Uint64:
		return x.IsUint64()
	case reflect.Uint8:
		return x.IsUint64() && x.Uint64() <= math.MaxUint8
	case reflect.Uint16:
		return x.IsUint64() && x.Uint64() <= math.MaxUint16
	case reflect.Uint32:
		return x.IsUint64() && x.Uint64() <= math.MaxUint32
	}
	return false
}

const msPerDay = 86400000

// build constructs the Go value of form f for logical value v. ok=false: f cannot
// represent v (not a finding, just not applicable).
func build(f *gform, v cqlref.Val) (reflect.Value, bool) {
	if v.Null {
		if f.ptr {
			return reflect.Zero(reflect.PtrTo(f.rt)), true
		}
		switch f.kind {
		case "slice", "map", "mapset":
			return reflect.Zero(f.rt), true
		case "udtmap", "ifaceslice":
			// as a decode destination gocql fills these with zero values for a null tuple/UDT
			if !f.dec {
				return reflect.Zero(f.rt), true
			}
		}
		if f.kind == "basic" && f.rt.Kind() == reflect.Slice {
			return reflect.Zero(f.rt), true
		}
		return reflect.Value{}, false
	}
	rv, ok := buildNN(f, v)
	if !ok {
		return rv, false
	}
	if f.ptr {
		p := reflect.New(f.rt)
		p.Elem().Set(rv)
		return p, true
	}
	return rv, true
}

func buildNN(f *gform, v cqlref.Val) (reflect.Value, bool) {
	out := reflect.New(f.rt).Elem()
	switch f.kind {
	case "basic":
		switch f.rt.Kind() {
		case reflect.String:
			out.SetString(string(v.B))
		case reflect.Slice:
			out.SetBytes(append([]byte{}, v.B...))
		case reflect.Bool:
			out.SetBool(v.Bool)
		}
	case "int":
		if !intFitsKind(v.I, f.rt.Kind()) {
			return out, false
		}
		switch f.rt.Kind() {
		case reflect.Int, reflect.Int8, reflect.Int16, reflect.Int32, reflect.Int64:
			out.SetInt(v.I.Int64())
		default:
			out.SetUint(v.I.Uint64())
		}
	case "intstring":
		if !v.I.IsInt64() {
			return out, false
		}
		str := v.I.String()
		if !f.dec {
			// "string, formatted as base 10 number": zero padded ids and fixed-width exports are base 10 numbers too
			if pad := new(big.Int).Mod(new(big.Int).Abs(v.I), big.NewInt(7)).Int64(); pad == 3 || pad == 5 {
				sign := ""
				if strings.HasPrefix(str, "-") {
					sign, str = "-", str[1:]
				}
				str = sign + strings.Repeat("0", int(pad)-2) + str
			}
		}
		out.SetString(str)
	case "bigint":
		out.Set(reflect.ValueOf(*new(big.Int).Set(v.I)))
	case "float":
		if f.rt.Kind() == reflect.Float32 {
			out.SetFloat(float64(math.Float32frombits(uint32(v.Bits))))
			// signalling NaN payloads may be quieted by the float32->float64->float32 trip in reflect
			if math.Float32bits(float32(out.Float())) != uint32(v.Bits) {
				return out, false
			}
		} else {
			out.SetFloat(math.Float64frombits(v.Bits))
		}
	case "dec":
		out.Set(reflect.ValueOf(*inf.NewDecBig(new(big.Int).Set(v.I), inf.Scale(v.Scale))))
	case "time":
		if !v.I.IsInt64() {
			return out, false
		}
		ms := v.I.Int64()
		t := time.UnixMilli(ms).Add(time.Duration(f.off)).In(f.loc)
		if t.IsZero() || t.Year() < -290000000 || t.Year() > 290000000 {
			return out, false
		}
		out.Set(reflect.ValueOf(t))
	case "date":
		if !v.I.IsInt64() || v.I.Int64() < -106751 || v.I.Int64() > 106751 {
			// time.Time form limited to what Unix()*1e3 can hold safely; the string/int forms cover the rest
			if !v.I.IsInt64() || v.I.Int64() < -100000000 || v.I.Int64() > 100000000 {
				return out, false
			}
		}
		// any instant inside that UTC day
		t := time.Unix(v.I.Int64()*86400, 0).Add(time.Duration(f.off)).In(f.loc)
		if t.IsZero() {
			return out, false
		}
		out.Set(reflect.ValueOf(t))
	case "datems":
		if !v.I.IsInt64() || v.I.Int64() > math.MaxInt64/msPerDay || v.I.Int64() < math.MinInt64/msPerDay {
			return out, false
		}
		out.SetInt(v.I.Int64() * msPerDay)
	case "datestring":
		if !v.I.IsInt64() || v.I.Int64() < -719162 || v.I.Int64() > 2932896 {
			return out, false
		}
		out.SetString(time.Unix(v.I.Int64()*86400, 0).UTC().Format("2006-01-02"))
	case "durns":
		if v.Months != 0 || v.Days != 0 {
			return out, false
		}
		out.SetInt(v.Nanos)
	case "durstring":
		if v.Months != 0 || v.Days != 0 {
			return out, false
		}
		out.SetString(time.Duration(v.Nanos).String())
	case "cqldur":
		out.Set(reflect.ValueOf(gocql.Duration{Months: v.Months, Days: v.Days, Nanoseconds: v.Nanos}))
	case "uuid":
		var u gocql.UUID
		copy(u[:], v.B)
		out.Set(reflect.ValueOf(u))
	case "uuid16":
		var u [16]byte
		copy(u[:], v.B)
		out.Set(reflect.ValueOf(u))
	case "uuidbytes":
		out.SetBytes(append([]byte{}, v.B...))
	case "uuidstring":
		var u gocql.UUID
		copy(u[:], v.B)
		// canonical 8-4-4-4-12 form, produced without gocql
		out.SetString(fmt.Sprintf("%x-%x-%x-%x-%x", v.B[0:4], v.B[4:6], v.B[6:8], v.B[8:10], v.B[10:16]))
	case "uuidtime":
		return out, false // unmarshal-only target; handled by readGo
	case "ip":
		if len(v.B) == 4 && f.ip16 {
			out.Set(reflect.ValueOf(net.IPv4(v.B[0], v.B[1], v.B[2], v.B[3])))
		} else {
			out.Set(reflect.ValueOf(net.IP(append([]byte{}, v.B...))))
		}
	case "ipstring":
		out.SetString(net.IP(v.B).String())
	case "slice":
		out.Set(reflect.MakeSlice(f.rt, len(v.Elems), len(v.Elems)))
		for i, e := range v.Elems {
			c, ok := build(f.sub[0], e)
			if !ok {
				return out, false
			}
			out.Index(i).Set(c)
		}
	case "array":
		if f.rt.Len() != len(v.Elems) {
			return out, false
		}
		for i, e := range v.Elems {
			c, ok := build(f.sub[0], e)
			if !ok {
				return out, false
			}
			out.Index(i).Set(c)
		}
	case "mapset":
		out.Set(reflect.MakeMap(f.rt))
		for _, e := range v.Elems {
			c, ok := build(f.sub[0], e)
			if !ok {
				return out, false
			}
			out.SetMapIndex(c, reflect.ValueOf(struct{}{}))
		}
		if out.Len() != len(v.Elems) {
			return out, false
		}
	case "map":
		out.Set(reflect.MakeMap(f.rt))
		for i := range v.Elems {
			k, ok := build(f.sub[0], v.Keys[i])
			if !ok {
				return out, false
			}
			e, ok := build(f.sub[1], v.Elems[i])
			if !ok {
				return out, false
			}
			out.SetMapIndex(k, e)
		}
		if out.Len() != len(v.Elems) {
			return out, false
		}
	case "ifaceslice":
		out.Set(reflect.MakeSlice(f.rt, len(v.Elems), len(v.Elems)))
		for i, e := range v.Elems {
			c, ok := build(f.sub[i], e)
			if !ok {
				return out, false
			}
			out.Index(i).Set(c)
		}
	case "struct", "udtstruct":
		for i, e := range v.Elems {
			c, ok := build(f.sub[i], e)
			if !ok {
				return out, false
			}
			out.Field(i).Set(c)
		}
	case "udtmap":
		out.Set(reflect.MakeMap(f.rt))
		for i, e := range v.Elems {
			c, ok := build(f.sub[i], e)
			if !ok {
				return out, false
			}
			if e.Null && !f.sub[i].ptr {
				if f.dec {
					return out, false // gocql stores the zero value for a null field: null is not representable
				}
				continue // absent key = null field
			}
			out.SetMapIndex(reflect.ValueOf(f.t.Fields[i]), c)
		}
	default:
		return out, false
	}
	return out, true
}

// readGo converts a Go value (as left by Unmarshal in a destination of form f) back to a
// logical value.
func readGo(f *gform, rv reflect.Value) (cqlref.Val, error) {
	for rv.Kind() == reflect.Interface {
		if rv.IsNil() {
			return cqlref.Val{Null: true}, nil
		}
		rv = rv.Elem()
	}
	if rv.Kind() == reflect.Ptr {
		if rv.IsNil() {
			return cqlref.Val{Null: true}, nil
		}
		if f.kind == "basic" && rv.Elem().Kind() == reflect.Slice && rv.Elem().IsNil() {
			// reached through a non-nil pointer: the value is present, and empty
			return cqlref.Val{B: []byte{}}, nil
		}
		return readGo(&gform{t: f.t, kind: f.kind, rt: f.rt, sub: f.sub, loc: f.loc, dec: f.dec}, rv.Elem())
	}
	t := f.t
	switch f.kind {
	case "basic":
		switch rv.Kind() {
		case reflect.String:
			return cqlref.Val{B: []byte(rv.String())}, nil
		case reflect.Slice:
			if rv.IsNil() {
				return cqlref.Val{Null: true}, nil
			}
			return cqlref.Val{B: append([]byte{}, rv.Bytes()...)}, nil
		case reflect.Bool:
			return cqlref.Val{Bool: rv.Bool()}, nil
		}
	case "int", "datems", "durns":
		switch rv.Kind() {
		case reflect.Int, reflect.Int8, reflect.Int16, reflect.Int32, reflect.Int64:
			return cqlref.Val{I: big.NewInt(rv.Int()), Nanos: rv.Int()}, nil
		case reflect.Uint, reflect.Uint8, reflect.Uint16, reflect.Uint32, reflect.Uint64:
			return cqlref.Val{I: new(big.Int).SetUint64(rv.Uint())}, nil
		}
	case "intstring":
		x, ok := new(big.Int).SetString(rv.String(), 10)
		if !ok {
			return cqlref.Val{}, fmt.Errorf("not a base-10 number: %q", rv.String())
		}
		return cqlref.Val{I: x}, nil
	case "bigint":
		b := rv.Interface().(big.Int)
		return cqlref.Val{I: new(big.Int).Set(&b)}, nil
	case "float":
		if rv.Kind() == reflect.Float32 {
			return cqlref.Val{Bits: uint64(math.Float32bits(float32(rv.Float())))}, nil
		}
		return cqlref.Val{Bits: math.Float64bits(rv.Float())}, nil
	case "dec":
		d := rv.Interface().(inf.Dec)
		return cqlref.Val{I: new(big.Int).Set(d.UnscaledBig()), Scale: int32(d.Scale())}, nil
	case "time":
		tm := rv.Interface().(time.Time)
		if tm.Nanosecond()%1000000 != 0 {
			return cqlref.Val{}, fmt.Errorf("timestamp with sub-millisecond part: %v", tm)
		}
		return cqlref.Val{I: big.NewInt(tm.UnixMilli())}, nil
	case "date":
		tm := rv.Interface().(time.Time).UTC()
		if tm.Hour() != 0 || tm.Minute() != 0 || tm.Second() != 0 || tm.Nanosecond() != 0 {
			return cqlref.Val{}, fmt.Errorf("date not at start of day: %v", tm)
		}
		return cqlref.Val{I: big.NewInt(floorDiv(tm.Unix(), 86400))}, nil
	case "datestring":
		tm, err := time.Parse("2006-01-02", rv.String())
		if err != nil {
			return cqlref.Val{}, err
		}
		return cqlref.Val{I: big.NewInt(floorDiv(tm.Unix(), 86400))}, nil
	case "cqldur":
		d := rv.Interface().(gocql.Duration)
		return cqlref.Val{Months: d.Months, Days: d.Days, Nanos: d.Nanoseconds}, nil
	case "uuid":
		u := rv.Interface().(gocql.UUID)
		return cqlref.Val{B: append([]byte{}, u[:]...)}, nil
	case "uuid16":
		u := rv.Interface().([16]byte)
		return cqlref.Val{B: append([]byte{}, u[:]...)}, nil
	case "uuidbytes":
		return cqlref.Val{B: append([]byte{}, rv.Bytes()...)}, nil
	case "uuidstring":
		s := rv.String()
		var b []byte
		for i := 0; i < len(s); i++ {
			if s[i] == '-' {
				continue
			}
			if i+1 >= len(s) {
				return cqlref.Val{}, fmt.Errorf("bad uuid string %q", s)
			}
			x, err := strconv.ParseUint(s[i:i+2], 16, 8)
			if err != nil {
				return cqlref.Val{}, err
			}
			b = append(b, byte(x))
			i++
		}
		return cqlref.Val{B: b}, nil
	case "ip":
		ip := rv.Interface().(net.IP)
		if v4 := ip.To4(); v4 != nil {
			return cqlref.Val{B: append([]byte{}, v4...)}, nil
		}
		return cqlref.Val{B: append([]byte{}, ip...)}, nil
	case "ipstring":
		ip := net.ParseIP(rv.String())
		if ip == nil {
			return cqlref.Val{}, fmt.Errorf("bad ip string %q", rv.String())
		}
		if v4 := ip.To4(); v4 != nil {
			return cqlref.Val{B: append([]byte{}, v4...)}, nil
		}
		return cqlref.Val{B: append([]byte{}, ip...)}, nil
	case "slice", "array":
		if rv.Kind() == reflect.Slice && rv.IsNil() {
			return cqlref.Val{Null: true}, nil
		}
		out := cqlref.Val{Elems: []cqlref.Val{}}
		for i := 0; i < rv.Len(); i++ {
			e, err := readGo(f.sub[0], rv.Index(i))
			if err != nil {
				return out, err
			}
			out.Elems = append(out.Elems, e)
		}
		return out, nil
	case "map":
		if rv.IsNil() {
			return cqlref.Val{Null: true}, nil
		}
		out := cqlref.Val{Elems: []cqlref.Val{}, Keys: []cqlref.Val{}}
		it := rv.MapRange()
		for it.Next() {
			k, err := readGo(f.sub[0], it.Key())
			if err != nil {
				return out, err
			}
			e, err := readGo(f.sub[1], it.Value())
			if err != nil {
				return out, err
			}
			out.Keys = append(out.Keys, k)
			out.Elems = append(out.Elems, e)
		}
		return out, nil
	case "ifaceslice":
		if rv.IsNil() {
			return cqlref.Val{Null: true}, nil
		}
		out := cqlref.Val{Elems: []cqlref.Val{}, Present: -1}
		if rv.Len() != len(t.Elems) {
			return out, fmt.Errorf("tuple slice has %d elements, want %d", rv.Len(), len(t.Elems))
		}
		for i := 0; i < rv.Len(); i++ {
			e, err := readGo(f.sub[i], rv.Index(i))
			if err != nil {
				return out, err
			}
			out.Elems = append(out.Elems, e)
		}
		return out, nil
	case "struct", "udtstruct":
		out := cqlref.Val{Elems: []cqlref.Val{}, Present: -1}
		for i := 0; i < rv.NumField(); i++ {
			e, err := readGo(f.sub[i], rv.Field(i))
			if err != nil {
				return out, err
			}
			out.Elems = append(out.Elems, e)
		}
		return out, nil
	case "udtmap":
		if rv.IsNil() {
			return cqlref.Val{Null: true}, nil
		}
		out := cqlref.Val{Elems: []cqlref.Val{}, Present: -1}
		for i, name := range t.Fields {
			mv := rv.MapIndex(reflect.ValueOf(name))
			if !mv.IsValid() {
				out.Elems = append(out.Elems, cqlref.Val{Null: true})
				continue
			}
			e, err := readGo(f.sub[i], mv)
			if err != nil {
				return out, err
			}
			out.Elems = append(out.Elems, e)
		}
		return out, nil
	}
	return cqlref.Val{}, fmt.Errorf("readGo: unsupported form %s for Go kind %s", f.kind, rv.Kind())
}

// blurNil maps values that a non-pointer []byte destination cannot tell apart (null and
// empty both come back as nil or empty) onto one representative, on both sides of a comparison.
func blurNil(f *gform, t *cqlref.Type, v cqlref.Val) cqlref.Val {
	if f == nil {
		return v
	}
	if f.kind == "basic" && f.rt.Kind() == reflect.Slice && !f.ptr {
		if v.Null || len(v.B) == 0 {
			return cqlref.Val{Null: true}
		}
		return v
	}
	if v.Null {
		return v
	}
	out := v
	switch t.ID {
	case cqlref.TList, cqlref.TSet:
		out.Elems = make([]cqlref.Val, len(v.Elems))
		for i, e := range v.Elems {
			out.Elems[i] = blurNil(f.sub[0], t.Elem, e)
		}
	case cqlref.TMap:
		out.Elems = make([]cqlref.Val, len(v.Elems))
		for i, e := range v.Elems {
			out.Elems[i] = blurNil(f.sub[1], t.Elem, e)
		}
	case cqlref.TTuple, cqlref.TUDT:
		out.Elems = make([]cqlref.Val, len(v.Elems))
		for i, e := range v.Elems {
			if i < len(f.sub) {
				out.Elems[i] = blurNil(f.sub[i], t.Elems[i], e)
			} else {
				out.Elems[i] = e
			}
		}
	}
	return out
}

func floorDiv(a, b int64) int64 {
	q := a / b
	if (a%b != 0) && ((a < 0) != (b < 0)) {
		q--
	}
	return q
}

// canon sorts the elements of sets and maps (unordered in CQL) so logical values compare
// independently of Go map iteration order.
func canon(t *cqlref.Type, v cqlref.Val, proto int) cqlref.Val {
	if v.Null {
		return v
	}
	switch t.ID {
	case cqlref.TList, cqlref.TSet:
		out := cqlref.Val{Elems: make([]cqlref.Val, len(v.Elems))}
		for i, e := range v.Elems {
			out.Elems[i] = canon(t.Elem, e, proto)
		}
		if t.ID == cqlref.TSet {
			sort.SliceStable(out.Elems, func(i, j int) bool {
				return encKey(t.Elem, out.Elems[i], proto) < encKey(t.Elem, out.Elems[j], proto)
			})
		}
		return out
	case cqlref.TMap:
		n := len(v.Elems)
		idx := make([]int, n)
		ks := make([]cqlref.Val, n)
		es := make([]cqlref.Val, n)
		for i := range idx {
			idx[i] = i
			ks[i] = canon(t.Key, v.Keys[i], proto)
			es[i] = canon(t.Elem, v.Elems[i], proto)
		}
		sort.SliceStable(idx, func(a, b int) bool { return encKey(t.Key, ks[idx[a]], proto) < encKey(t.Key, ks[idx[b]], proto) })
		out := cqlref.Val{Keys: make([]cqlref.Val, n), Elems: make([]cqlref.Val, n)}
		for i, j := range idx {
			out.Keys[i], out.Elems[i] = ks[j], es[j]
		}
		return out
	case cqlref.TTuple, cqlref.TUDT:
		out := cqlref.Val{Elems: make([]cqlref.Val, len(v.Elems)), Present: -1}
		for i, e := range v.Elems {
			out.Elems[i] = canon(t.Elems[i], e, proto)
		}
		return out
	}
	return v
}

func encKey(t *cqlref.Type, v cqlref.Val, proto int) string {
	b, err := cqlref.EncodeValue(t, v, proto)
	if err != nil {
		return "!" + v.String(t)
	}
	if b == nil {
		return ""
	}
	return "=" + string(b)
}

func hasUnordered(t *cqlref.Type) bool {
	if t == nil {
		return false
	}
	if t.ID == cqlref.TMap || t.ID == cqlref.TSet {
		return true
	}
	if hasUnordered(t.Key) || hasUnordered(t.Elem) {
		return true
	}
	for _, e := range t.Elems {
		if hasUnordered(e) {
			return true
		}
	}
	return false
}

func inRangeDeep(t *cqlref.Type, v cqlref.Val) bool {
	if v.Null {
		return true
	}
	if !cqlref.InRange(t, v) {
		return false
	}
	switch t.ID {
	case cqlref.TList, cqlref.TSet:
		for _, e := range v.Elems {
			if !inRangeDeep(t.Elem, e) {
				return false
			}
		}
	case cqlref.TMap:
		for i := range v.Elems {
			if !inRangeDeep(t.Key, v.Keys[i]) || !inRangeDeep(t.Elem, v.Elems[i]) {
				return false
			}
		}
	case cqlref.TTuple, cqlref.TUDT:
		for i, e := range v.Elems {
			if !inRangeDeep(t.Elems[i], e) {
				return false
			}
		}
	}
	return true
}
