package props

import (
	"bytes"
	"encoding/binary"
	"encoding/hex"
	"fmt"
	"hash/fnv"
	"math/rand"
	"strconv"
	"strings"
	"sync"
	"sync/atomic"
	"time"

	"github.com/gocql/gocql"

	"verifharness/cqlref"
	"verifharness/fakenode"
	"verifharness/runner"
)

// C18: compression is transparent and only used as negotiated.

func init() {
	runner.Register(&runner.Prop{
		ID: "C18", Level: "exploration",
		Technique: "runtime oracle: the driver's snappy / lz4 compressors run on generated bodies and are cross-checked against independent decoders and encoders of both block formats (what the peer decodes, what the driver decodes from a foreign encoder, corrupted bodies); a scripted node decodes every request of real sessions with the independent decompressors and checks flags and negotiation for every SUPPORTED option set; race detector on for shared-compressor use",
		Rule: "codec case = one generated body (kind x boundary-biased size) through both compressors: encode, reference decode, driver decode, two foreign encodings, several corruptions; wire case = one session (protocol 1-5 x configured compressor x SUPPORTED option set) running queries, prepared executions and batches with generated payloads, then hostile compressed replies; " +
			"distinct = hash(body kind, size class, compressor) resp. hash(protocol, compressor, option set, hostile reply kind); non-trivial = body longer than 16 bytes resp. a compressor configured or a compressed reply sent",
		Assumptions: []string{
			"the reference decoders in harness/cqlref (self-tested on hand-assembled vectors) define what a well-formed snappy block / Cassandra lz4 block is",
			"without a checksum a corrupted body may decode to a different valid body; 'corrupt yields an error' is asserted when the reference decoder rejects the body AND the driver's output length differs from the length the body declares",
		},
		RaceOwner: func(fns []string) bool {
			for _, f := range fns {
				if strings.Contains(f, "Compressor") || strings.Contains(f, "lz4") || strings.Contains(f, "snappy") || strings.Contains(f, "framer") {
					return true
				}
			}
			return false
		},
		Phases: func(tier string) []runner.Phase {
			nc, ncc, nw := 1500, 48, 540
			if tier == "thorough" {
				nc, ncc, nw = 60000, 2000, 27000
			}
			return []runner.Phase{
				{Name: "codec", Variant: "plain", Cases: nc, Run: c18codecCase, CaseTimeout: 120 * time.Second,
					Required: []string{"bodies", "empty_bodies", "bodies_over_64k", "bodies_over_16m", "foreign_streams_decoded", "corruptions", "corruptions_rejected"}},
				{Name: "codec-concurrent", Variant: "race", Cases: ncc, Shards: 4, Run: c18concurrentCase, CaseTimeout: 120 * time.Second,
					Required: []string{"concurrent_encodes"}},
				{Name: "wire", Variant: "race", Cases: nw, Run: c18wireCase, CaseTimeout: 120 * time.Second,
					Required: []string{"sessions", "sessions_compression_negotiated", "sessions_compressor_not_advertised", "requests_compressed", "requests_uncompressed", "replies_compressed_ok", "replies_with_trace_warnings_or_payload", "sessions_with_authentication", "hostile_flagged_without_compressor", "hostile_corrupt_body", "sessions_on_mixed_clusters", "hostile_flagged_unsolicited_frames"}},
			}
		},
	})
}

var c18sizes = []int{0, 0, 1, 2, 3, 4, 5, 8, 11, 12, 13, 14, 15, 16, 17, 19, 20, 59, 60, 61, 62, 63, 64, 65, 255, 256, 257, 269, 270, 271, 272, 1023, 1024, 2047, 2048, 2049, 4095, 4096, 65534, 65535, 65536, 65537, 65551, 65800, 131071, 131072, 131073}

var c18huge = []int{16 << 20, 32 << 20, 16<<20 + 1, 64 << 20, 16843010, 20000000, 16<<20 - 1, 48 << 20, 33686020}

var c18words = strings.Fields("SELECT INSERT INTO UPDATE FROM WHERE AND keyspace table user_id event_time payload = ? , ( ) VALUES system.local 2026-10-01 aaaaaaaaaaaaaaaa lorem ipsum dolor sit amet")

func c18size(r *rand.Rand, tier string) int {
	switch x := r.Intn(20); {
	case x < 8:
		return c18sizes[r.Intn(len(c18sizes))]
	case x < 14:
		return r.Intn(4096)
	case x < 18:
		return r.Intn(300000)
	case x < 19:
		return 1<<20 - 2 + r.Intn(5)
	default:
		if tier == "thorough" && r.Intn(4) == 0 {
			return 8<<20 + r.Intn(24<<20)
		}
		return 1<<20 + r.Intn(3<<20)
	}
}

func c18body(r *rand.Rand, n, kind int) []byte {
	b := make([]byte, n)
	switch kind % 7 {
	case 0:
		r.Read(b)
	case 1:
		x := byte(r.Intn(256))
		for i := range b {
			b[i] = x
		}
	case 2:
		p := 1 + r.Intn(300)
		if r.Intn(4) == 0 {
			p = 1 + r.Intn(8)
		}
		pat := make([]byte, p)
		r.Read(pat)
		for i := range b {
			b[i] = pat[i%p]
		}
	case 3:
		var sb []byte
		for len(sb) < n {
			sb = append(sb, c18words[r.Intn(len(c18words))]...)
			sb = append(sb, ' ')
		}
		copy(b, sb)
	case 4:
		// a random block repeated at a distance beyond lz4's / snappy's 64k windows
		d := 65536 + r.Intn(70000)
		if d > n {
			d = n/2 + 1
		}
		blk := make([]byte, d)
		r.Read(blk)
		for i := range b {
			b[i] = blk[i%d]
		}
	case 5:
		for i := 0; i < n; {
			l := 1 + r.Intn(5000)
			if i+l > n {
				l = n - i
			}
			copy(b[i:i+l], c18body(r, l, r.Intn(4)))
			i += l
		}
	default:
		for i := 0; i < n/50; i++ {
			b[r.Intn(n)] = byte(r.Intn(256))
		}
	}
	return b
}

func c18refDecode(name string, enc []byte) ([]byte, error) {
	if name == "snappy" {
		return cqlref.SnappyDecode(enc)
	}
	return cqlref.CassandraLZ4Decode(enc)
}

// c18declared: the uncompressed length a body claims.
func c18declared(name string, enc []byte) (int, bool) {
	if name == "snappy" {
		n, k := binary.Uvarint(enc)
		if k <= 0 {
			return 0, false
		}
		return int(n), true
	}
	if len(enc) < 4 {
		return 0, false
	}
	return int(binary.BigEndian.Uint32(enc)), true
}

func c18safeDecode(comp gocql.Compressor, enc []byte) (out []byte, err error, pan interface{}) {
	defer func() {
		if r := recover(); r != nil {
			pan = r
		}
	}()
	out, err = comp.Decode(enc)
	return
}

func c18safeEncode(comp gocql.Compressor, b []byte) (out []byte, err error, pan interface{}) {
	defer func() {
		if r := recover(); r != nil {
			pan = r
		}
	}()
	out, err = comp.Encode(b)
	return
}

func clipHex(b []byte) string {
	if len(b) > 96 {
		return hex.EncodeToString(b[:96]) + fmt.Sprintf("...(%d bytes)", len(b))
	}
	return hex.EncodeToString(b)
}

func c18codecCase(c *runner.Ctx, i int) {
	r := c.Rng
	kind := r.Intn(7)
	n := c18size(r, c.Tier)
	if i < len(c18huge) {
		// bodies of tens of megabytes (a frame may carry up to 256 MB), incompressible and highly compressible:
		// 32-bit length arithmetic of a codec shows only here
		n, kind = c18huge[i], []int{0, 0, 1}[i%3]
		c.Add("bodies_over_16m", 1)
	}
	body := c18body(r, n, kind)
	sizeClass := 0
	for x := n; x > 0; x >>= 2 {
		sizeClass++
	}
	c.Add("bodies", 1)
	if n == 0 {
		c.Add("empty_bodies", 1)
	}
	if n > 65536 {
		c.Add("bodies_over_64k", 1)
	}
	for _, name := range []string{"snappy", "lz4"} {
		comp := compressorByName(name)
		c.Eval(runner.H("c18codec", kind, sizeClass, name), n > 16)
		wit := func(extra map[string]interface{}) map[string]interface{} {
			w := map[string]interface{}{"compressor": name, "body_kind": kind, "body_len": n, "body_head": clipHex(body)}
			for k, v := range extra {
				w[k] = v
			}
			return w
		}
		orig := append([]byte{}, body...)
		enc, err, pan := c18safeEncode(comp, body)
		if pan != nil {
			c.Violation("C18:"+name+":encode-panics", fmt.Sprintf("%s Encode panicked on a %d-byte body: %v", name, n, pan), wit(nil))
			continue
		}
		if err != nil {
			c.Violation("C18:"+name+":encode-error", fmt.Sprintf("%s Encode failed on a %d-byte body: %v", name, n, err), wit(nil))
			continue
		}
		if !bytes.Equal(body, orig) {
			c.Violation("C18:"+name+":encode-modifies-input", name+" Encode modified the caller's body", wit(nil))
			copy(body, orig)
		}
		encCopy := append([]byte{}, enc...)
		ref, rerr := c18refDecode(name, enc)
		if rerr != nil {
			c.Violation("C18:"+name+":peer-cannot-decode", fmt.Sprintf("an independent %s decoder rejects what the driver encoded: %v", name, rerr), wit(map[string]interface{}{"encoded": clipHex(enc)}))
		} else if !bytes.Equal(ref, orig) {
			c.Violation("C18:"+name+":peer-decodes-different", fmt.Sprintf("an independent %s decoder turns the driver's encoding of a %d-byte body into different bytes (%d)", name, n, len(ref)), wit(map[string]interface{}{"encoded": clipHex(enc)}))
		}
		dec, err, pan := c18safeDecode(comp, enc)
		if pan != nil || err != nil || !bytes.Equal(dec, orig) {
			c.Violation("C18:"+name+":roundtrip", fmt.Sprintf("%s Decode(Encode(body)) of a %d-byte body: panic=%v err=%v, %d bytes back", name, n, pan, err, len(dec)), wit(nil))
		}
		if c.WantSample() {
			c.Sample(map[string]interface{}{"compressor": name, "body_kind": kind, "body_len": n, "encoded_len": len(enc), "encoded_head": clipHex(enc[:minInt(len(enc), 24)])})
		}
		// a second encode must not disturb the first result
		other := c18body(r, r.Intn(2000), r.Intn(7))
		c18safeEncode(comp, other)
		if !bytes.Equal(enc, encCopy) {
			c.Violation("C18:"+name+":encode-result-aliased", "the result of an earlier Encode changed when Encode was called again", wit(nil))
			enc = encCopy
		}
		// foreign encoders
		foreign := [][]byte{}
		if name == "snappy" {
			foreign = append(foreign, cqlref.SnappyEncodeLiteral(orig), cqlref.SnappyEncodeRef(orig, r))
		} else {
			foreign = append(foreign, cqlref.CassandraLZ4EncodeLiteral(orig), cqlref.CassandraLZ4EncodeRef(orig, r))
			if n == 0 {
				foreign = append(foreign, []byte{0, 0, 0, 0}) // what some encoders emit for nothing
			}
		}
		for fi, f := range foreign {
			if chk, e := c18refDecode(name, f); e != nil || !bytes.Equal(chk, orig) {
				c.Broken(fmt.Sprintf("reference %s encoder %d produced a stream the reference decoder does not map back (n=%d): %v", name, fi, n, e))
				continue
			}
			dec, err, pan := c18safeDecode(comp, f)
			if pan != nil || err != nil || !bytes.Equal(dec, orig) {
				c.Violation(fmt.Sprintf("C18:%s:foreign-stream:%d", name, fi), fmt.Sprintf("%s Decode of a well-formed body from another encoder (%d bytes, encoder %d): panic=%v err=%v, %d bytes back", name, n, fi, pan, err, len(dec)), wit(map[string]interface{}{"stream": clipHex(f)}))
			}
			c.Add("foreign_streams_decoded", 1)
		}
		// corruptions
		ncor := 8
		if n > 200000 {
			ncor = 3
		}
		for k := 0; k < ncor; k++ {
			src := enc
			if r.Intn(3) == 0 {
				src = foreign[r.Intn(len(foreign))]
			}
			bad := append([]byte{}, src...)
			how := ""
			switch m := r.Intn(9); {
			case m == 0 && len(bad) > 0:
				j := r.Intn(len(bad))
				bad = bad[:j]
				how = fmt.Sprintf("truncated to %d of %d", j, len(src))
			case m == 1 && len(bad) > 0:
				j := len(bad) - 1 - r.Intn(min(len(bad), 6))
				if j < 0 {
					j = 0
				}
				bad = bad[:j]
				how = fmt.Sprintf("truncated near the end to %d of %d", j, len(src))
			case m == 2 && len(bad) > 0:
				j := r.Intn(len(bad))
				bad[j] ^= 1 << uint(r.Intn(8))
				how = fmt.Sprintf("bit flipped in byte %d", j)
			case m == 3:
				extra := make([]byte, 1+r.Intn(8))
				r.Read(extra)
				bad = append(bad, extra...)
				how = fmt.Sprintf("%d bytes appended", len(extra))
			case m == 4 && len(bad) > 2:
				j := r.Intn(len(bad))
				bad = append(bad[:j], bad[j+1:]...)
				how = fmt.Sprintf("byte %d removed", j)
			case m == 5 && name == "lz4" && len(bad) >= 4:
				d := int64(binary.BigEndian.Uint32(bad))
				nd := []int64{d + 1, d - 1, d * 2, d + 1000, 0, d / 2, d + 1<<20}[r.Intn(7)]
				if nd < 0 {
					nd = 1
				}
				binary.BigEndian.PutUint32(bad, uint32(nd))
				how = fmt.Sprintf("length prefix %d -> %d", d, nd)
			case m == 6 && name == "snappy" && len(bad) > 0:
				d, k := binary.Uvarint(bad)
				if k > 0 {
					nd := []uint64{d + 1, d - 1, d * 2, d + 1000, 0, d / 2}[r.Intn(6)]
					if nd > 1<<26 {
						nd = 1
					}
					var lb [10]byte
					bad = append(append([]byte{}, lb[:binary.PutUvarint(lb[:], nd)]...), bad[k:]...)
					how = fmt.Sprintf("length preamble %d -> %d", d, nd)
				}
			case m == 7:
				bad = make([]byte, r.Intn(40))
				r.Read(bad)
				if name == "lz4" && len(bad) >= 4 {
					bad[0], bad[1] = 0, 0 // keep the claimed size below 64k
				}
				how = "random bytes"
			default:
				if len(bad) > 8 {
					j := r.Intn(len(bad) - 4)
					r.Read(bad[j : j+4])
					how = fmt.Sprintf("4 bytes overwritten at %d", j)
				}
			}
			if how == "" || bytes.Equal(bad, src) {
				continue
			}
			if d, ok := c18declared(name, bad); ok && d > 1<<27 {
				continue // the declared size alone would make any decoder allocate > 128 MB
			}
			badCopy := append([]byte{}, bad...)
			c.Add("corruptions", 1)
			out, err, pan := c18safeDecode(comp, bad)
			w := wit(map[string]interface{}{"corruption": how, "corrupted_body": clipHex(badCopy)})
			if pan != nil {
				c.Violation("C18:"+name+":corrupt-body-panics", fmt.Sprintf("%s Decode panicked on a corrupted body (%s): %v", name, how, pan), w)
				continue
			}
			refOut, refErr := c18refDecode(name, badCopy)
			switch {
			case err != nil:
				c.Add("corruptions_rejected", 1)
				if refErr == nil {
					c.Add("corruptions_rejected_though_reference_accepts", 1)
				}
			case refErr == nil:
				c.Add("corruptions_still_well_formed", 1)
				if !bytes.Equal(out, refOut) {
					c.Violation("C18:"+name+":decode-differs-from-reference", fmt.Sprintf("%s Decode of a (mutated but well-formed) body gives %d bytes, the reference decoder %d different bytes (%s)", name, len(out), len(refOut), how), w)
				}
			default:
				d, ok := c18declared(name, badCopy)
				if ok && len(out) != d {
					c.Violation("C18:"+name+":corrupt-body-accepted", fmt.Sprintf("%s Decode returned %d bytes and no error for a corrupt body that declares %d bytes (%s; reference decoder: %v)", name, len(out), d, how, refErr), w)
				} else {
					c.Add("corruptions_accepted_leniently", 1)
				}
			}
		}
	}
}

func c18concurrentCase(c *runner.Ctx, i int) {
	r := c.Rng
	name := []string{"lz4", "snappy"}[i%2]
	comp := compressorByName(name)
	ng := 2 + r.Intn(15)
	iters := 40 + r.Intn(80)
	var wg sync.WaitGroup
	start := make(chan struct{})
	c.Eval(runner.H("c18conc", name, ng), true)
	for g := 0; g < ng; g++ {
		gr := rand.New(rand.NewSource(r.Int63()))
		wg.Add(1)
		go func() {
			defer wg.Done()
			<-start
			for k := 0; k < iters; k++ {
				n := gr.Intn(3000)
				if gr.Intn(5) == 0 {
					n = gr.Intn(70000)
				}
				body := c18body(gr, n, 1+gr.Intn(6))
				enc, err, pan := c18safeEncode(comp, body)
				c.Add("concurrent_encodes", 1)
				if pan != nil || err != nil {
					c.Violation("C18:"+name+":concurrent-encode-fails", fmt.Sprintf("%s Encode failed while %d goroutines share the compressor: panic=%v err=%v", name, ng, pan, err), map[string]interface{}{"goroutines": ng, "body_len": n})
					return
				}
				ref, rerr := c18refDecode(name, enc)
				if rerr != nil || !bytes.Equal(ref, body) {
					c.Violation("C18:"+name+":concurrent-encode-corrupt", fmt.Sprintf("with %d goroutines sharing the compressor an independent decoder no longer gets the body back (err=%v)", ng, rerr), map[string]interface{}{"goroutines": ng, "body_len": n})
					return
				}
				dec, err, pan := c18safeDecode(comp, enc)
				if pan != nil || err != nil || !bytes.Equal(dec, body) {
					c.Violation("C18:"+name+":concurrent-decode-fails", fmt.Sprintf("%s Decode failed while %d goroutines share the compressor: panic=%v err=%v", name, ng, pan, err), map[string]interface{}{"goroutines": ng, "body_len": n})
					return
				}
			}
		}()
	}
	close(start)
	wg.Wait()
}

// ---- wire phase ---------------------------------------------------------------------------

var c18optionSets = []struct {
	name string
	m    map[string][]string
}{
	{"no-COMPRESSION-key", map[string][]string{"CQL_VERSION": {"3.4.4"}}},
	{"empty-map", map[string][]string{}},
	{"empty-list", map[string][]string{"CQL_VERSION": {"3.4.4"}, "COMPRESSION": {}}},
	{"snappy", map[string][]string{"CQL_VERSION": {"3.4.4"}, "COMPRESSION": {"snappy"}}},
	{"lz4", map[string][]string{"CQL_VERSION": {"3.4.4"}, "COMPRESSION": {"lz4"}}},
	{"snappy,lz4", map[string][]string{"CQL_VERSION": {"3.4.4"}, "COMPRESSION": {"snappy", "lz4"}}},
	{"lz4,snappy", map[string][]string{"COMPRESSION": {"lz4", "snappy"}, "CQL_VERSION": {"3.4.4"}}},
	{"deflate", map[string][]string{"CQL_VERSION": {"3.4.4"}, "COMPRESSION": {"deflate"}}},
	{"deflate,lz4,snappy", map[string][]string{"CQL_VERSION": {"3.4.4"}, "COMPRESSION": {"deflate", "lz4", "snappy"}, "PROTOCOL_VERSIONS": {"3/v3", "4/v4", "5/v5-beta"}}},
}

func c18gen(token string, n int) []byte {
	h := fnv.New64a()
	h.Write([]byte(token))
	r := rand.New(rand.NewSource(int64(h.Sum64())))
	return c18body(r, n, r.Intn(7))
}

type c18node struct {
	mu       sync.Mutex
	problems []string
	flagged  int64
	plain    int64
	sent     map[string]string // token -> what kind of reply was sent
}

func (cn *c18node) problem(f string, a ...interface{}) {
	cn.mu.Lock()
	if len(cn.problems) < 20 {
		cn.problems = append(cn.problems, fmt.Sprintf(f, a...))
	}
	cn.mu.Unlock()
}

var c18cols = []cqlref.Column{{Keyspace: "ks", Table: "echo", Name: "tok", Type: &cqlref.Type{ID: cqlref.TText}}, {Keyspace: "ks", Table: "echo", Name: "data", Type: &cqlref.Type{ID: cqlref.TBlob}}}

// c18prefix: what the node puts in front of the result of request token (a function of the token, so the caller
// knows what to expect): the trace id if tracing was asked for, and on protocol 4+ warnings and / or a payload.
func c18prefix(version int, token string, traced bool) *cqlref.Prefix {
	h := fnv.New64a()
	h.Write([]byte("prefix/" + token))
	x := h.Sum64()
	p := &cqlref.Prefix{}
	if traced {
		p.TraceID = c18gen(token+"/trace", 16)
	}
	if version >= 4 && x%3 == 0 {
		p.HasWarn, p.Warnings = true, []string{"warning for " + token, strings.Repeat("w", int(x>>8%300))}
	}
	if version >= 4 && (x>>4)%3 == 0 {
		p.HasPay, p.Payload = true, map[string][]byte{"k-" + token: c18gen(token+"/payload", int(x>>16%500))}
	}
	if p.TraceID == nil && !p.HasWarn && !p.HasPay {
		return nil
	}
	return p
}

type c18tracer struct {
	mu  sync.Mutex
	ids [][]byte
}

func (t *c18tracer) Trace(id []byte) {
	t.mu.Lock()
	t.ids = append(t.ids, append([]byte{}, id...))
	t.mu.Unlock()
}

// statements: ECHO <mode> <token> <replysize> <padsize> [pad]   (pad only for unprepared queries)
func (cn *c18node) handler(sc *fakenode.ServerConn, req *fakenode.Req) {
	if sc.Ready() {
		if req.Header.Flags&cqlref.FlagCompress != 0 {
			atomic.AddInt64(&cn.flagged, 1)
		} else {
			atomic.AddInt64(&cn.plain, 1)
		}
	}
	var stmt string
	switch req.Header.Op {
	case cqlref.OpPrepare:
		ps := &cqlref.PreparedSpec{ID: []byte("P:" + req.Statement),
			Bind:   cqlref.Metadata{Global: true, ColCount: 1, Columns: []cqlref.Column{{Keyspace: "ks", Table: "echo", Name: "v", Type: &cqlref.Type{ID: cqlref.TBlob}}}},
			Result: cqlref.Metadata{Global: true, ColCount: 2, Columns: c18cols}}
		sc.Reply(req, cqlref.OpResult, nil, cqlref.BodyPrepared(sc.Version, ps))
		return
	case cqlref.OpQuery:
		stmt = req.Statement
	case cqlref.OpExecute:
		stmt = strings.TrimPrefix(string(req.PreparedID), "P:")
	case cqlref.OpBatch:
		for _, bs := range req.BatchStmts {
			f := strings.Fields(strings.TrimPrefix(bs.Statement, "SELECT "))
			if len(f) < 5 || f[0] != "ECHO" {
				continue
			}
			n, _ := strconv.Atoi(f[4])
			if len(bs.Values) != 1 || !bytes.Equal(bs.Values[0].Bytes, c18gen(f[2]+"/val", n)) {
				cn.problem("batch statement %q arrived with a value different from the one bound (%d values)", f[2], len(bs.Values))
			}
		}
		sc.ReplyVoid(req)
		return
	default:
		sc.ReplyVoid(req)
		return
	}
	f := strings.Fields(strings.TrimPrefix(stmt, "SELECT "))
	if len(f) < 5 || f[0] != "ECHO" {
		sc.ReplyVoid(req)
		return
	}
	mode, token := f[1], f[2]
	rsize, _ := strconv.Atoi(f[3])
	psize, _ := strconv.Atoi(f[4])
	if req.Header.Op == cqlref.OpQuery && (req.Params == nil || len(req.Params.Values) == 0) {
		want := hex.EncodeToString(c18gen(token+"/pad", psize))
		got := ""
		if len(f) > 5 {
			got = f[5]
		}
		if got != want {
			cn.problem("query %q arrived with different statement text than was sent (%d vs %d chars of padding)", token, len(got), len(want))
		}
	} else if req.Params != nil {
		if len(req.Params.Values) != 1 || !bytes.Equal(req.Params.Values[0].Bytes, c18gen(token+"/val", psize)) {
			cn.problem("request %q arrived with a bound value different from the one sent", token)
		}
	}
	meta := cqlref.Metadata{Global: true, ColCount: 2, Columns: c18cols}
	if req.Params != nil && req.Params.SkipMeta {
		meta.NoMetadata = true
		meta.Columns = nil
	}
	body := cqlref.BodyRows(sc.Version, &cqlref.RowsSpec{Meta: meta, Rows: [][][]byte{{[]byte(token), c18gen(token+"/reply", rsize)}}})
	h := fnv.New64a()
	h.Write([]byte(token))
	kr := rand.New(rand.NewSource(int64(h.Sum64() >> 1)))
	encoders := map[string][]func([]byte) []byte{
		"snappy": {cqlref.SnappyEncodeLiteral, func(b []byte) []byte { return cqlref.SnappyEncodeRef(b, kr) }, func(b []byte) []byte { e, _ := gocql.SnappyCompressor{}.Encode(b); return e }},
		"lz4":    {cqlref.CassandraLZ4EncodeLiteral, func(b []byte) []byte { return cqlref.CassandraLZ4EncodeRef(b, kr) }, func(b []byte) []byte { e, _ := compressorByName("lz4").Encode(b); return e }},
	}
	note := func(s string) {
		cn.mu.Lock()
		cn.sent[token] = s
		cn.mu.Unlock()
	}
	switch mode {
	case "OK":
		var cf func([]byte) []byte
		if sc.Compression != "" {
			es := encoders[sc.Compression]
			cf = es[kr.Intn(len(es))]
			if len(body.B) > 20000 && kr.Intn(4) != 0 {
				cf = es[2*kr.Intn(2)] // the match-finding reference encoder is slow on big bodies
			}
			note("compressed")
		} else {
			note("plain")
		}
		// what precedes the result in the body - trace id, warnings, custom payload - is compressed with it
		fr, _ := cqlref.BuildFrame(sc.Version, req.Header.Stream, cqlref.OpResult, c18prefix(sc.Version, token, req.Header.Flags&cqlref.FlagTracing != 0), body, cf)
		sc.WriteReply(req, fr)
	case "PLAIN":
		// a server may leave individual frames uncompressed
		note("plain")
		fr, _ := cqlref.BuildFrame(sc.Version, req.Header.Stream, cqlref.OpResult, nil, body, nil)
		sc.WriteReply(req, fr)
	case "FLAGGED":
		// compression flag on a connection that negotiated none
		alg := []string{"snappy", "lz4"}[kr.Intn(2)]
		cf := encoders[alg][kr.Intn(3)]
		if kr.Intn(4) == 0 {
			cf = func(b []byte) []byte { return b } // flag set, body not compressed at all
		}
		note("flagged-without-negotiation")
		fr, _ := cqlref.BuildFrame(sc.Version, req.Header.Stream, cqlref.OpResult, nil, body, cf)
		sc.WriteReply(req, fr)
	case "CORRUPT":
		alg := sc.Compression
		if alg == "" {
			sc.ReplyVoid(req)
			return
		}
		cf := func(b []byte) []byte {
			for try := 0; try < 20; try++ {
				e := encoders[alg][kr.Intn(3)](b)
				switch kr.Intn(4) {
				case 0:
					e = e[:kr.Intn(len(e))]
				case 1:
					e = e[:len(e)-1]
				case 2:
					// the other algorithm's encoding
					other := "snappy"
					if alg == "snappy" {
						other = "lz4"
					}
					e = encoders[other][kr.Intn(3)](b)
				default:
					e = append([]byte{}, b...) // flagged but not compressed
				}
				if _, err := c18refDecode(alg, e); err != nil {
					if d, ok := c18declared(alg, e); ok && d > 1<<27 {
						continue
					}
					return e
				}
			}
			return []byte{0xff}
		}
		note("corrupt")
		fr, _ := cqlref.BuildFrame(sc.Version, req.Header.Stream, cqlref.OpResult, nil, body, cf)
		sc.WriteReply(req, fr)
	default:
		sc.ReplyVoid(req)
	}
}

func c18wireCase(c *runner.Ctx, i int) {
	r := c.Rng
	version := 1 + i%5
	compName := []string{"", "snappy", "lz4"}[(i/5)%3]
	oi := (i / 15) % len(c18optionSets)
	opts := c18optionSets[oi]
	cl := fakenode.NewCluster(1 + r.Intn(2))
	cn := &c18node{sent: map[string]string{}}
	for _, n := range cl.Nodes {
		n.Handler = cn.handler
		n.Supported = opts.m
	}
	// a cluster whose nodes do not offer the same compressors (a rolling upgrade, a mixed fleet): what is negotiated
	// is a matter of each connection
	mixed := len(cl.Nodes) == 2 && r.Intn(3) == 0
	if mixed {
		cl.Nodes[1].Supported = c18optionSets[(oi+1+r.Intn(len(c18optionSets)-1))%len(c18optionSets)].m
		c.Add("sessions_on_mixed_clusters", 1)
	}
	advFor := func(n *fakenode.Node) bool {
		for _, a := range n.Supported["COMPRESSION"] {
			if a == compName {
				return true
			}
		}
		return false
	}
	cfg := newCfg(cl, version)
	if version >= 2 && r.Intn(3) == 0 {
		// the nodes ask for authentication: the AUTH_RESPONSE frames are ordinary frames of the connection as far as
		// compression is concerned (before STARTUP is answered nothing is compressed; not afterwards either unless negotiated)
		for _, n := range cl.Nodes {
			n.AuthClass = "org.apache.cassandra.auth.PasswordAuthenticator"
		}
		cfg.Authenticator = gocql.PasswordAuthenticator{Username: "user-" + strings.Repeat("u", r.Intn(200)), Password: "pw-" + strings.Repeat("p", r.Intn(200))}
		c.Add("sessions_with_authentication", 1)
	}
	cfg.Timeout = 20 * time.Second // the oracle never depends on it; the node's reference encoders are slow under the race detector
	cfg.NumConns = 1 + r.Intn(2)
	cfg.Compressor = compressorByName(compName)
	advertised := false
	for _, a := range opts.m["COMPRESSION"] {
		if a == compName {
			advertised = true
		}
	}
	c.Add("sessions", 1)
	key := fmt.Sprintf("v%d compressor=%q SUPPORTED=%s", version, compName, opts.name)
	if mixed {
		key += fmt.Sprintf(" (second node: COMPRESSION=%v)", cl.Nodes[1].Supported["COMPRESSION"])
	}
	wit := func(extra map[string]interface{}) map[string]interface{} {
		cn.mu.Lock()
		w := map[string]interface{}{"case": key, "node_problems": append([]string{}, cn.problems...)}
		cn.mu.Unlock()
		for k, v := range extra {
			w[k] = v
		}
		return w
	}
	sess, err := cfg.CreateSession()
	if err != nil {
		for _, b := range cl.BadFramesCopy() {
			if strings.Contains(b, "without negotiated compression") {
				c.Violation("C18:wire:compressed-request-not-negotiated", fmt.Sprintf("%s (%s, session creation)", clipS(b), key), wit(map[string]interface{}{"bad_frame": b}))
				return
			}
		}
		if loadLike(err) && len(cl.BadFramesCopy()) == 0 {
			c.Inconclusive("c18-session", err.Error())
			return
		}
		c.Violation("C18:wire:cannot-connect", fmt.Sprintf("session creation failed (%s): %v", key, err), wit(map[string]interface{}{"bad_frames": cl.BadFramesCopy()}))
		return
	}
	defer sess.Close()
	if compName != "" && advertised {
		c.Add("sessions_compression_negotiated", 1)
	}
	if compName != "" && !advertised {
		c.Add("sessions_compressor_not_advertised", 1)
	}
	hostileKind := ""
	// --- ordinary traffic ----------------------------------------------------------------
	nq := 6 + r.Intn(10)
	type job struct {
		kind, mode, token string
		rsize, psize      int
	}
	var jobs []job
	for k := 0; k < nq; k++ {
		j := job{kind: []string{"query", "execute", "batch"}[r.Intn(3)], mode: "OK", token: fmt.Sprintf("t%d_%d", i, k), rsize: c18size(r, "quick"), psize: c18size(r, "quick")}
		if version == 1 && j.kind == "batch" {
			j.kind = "execute"
		}
		if j.rsize > 140000 {
			j.rsize = 131000 + r.Intn(1000)
		}
		if j.psize > 140000 {
			j.psize = 131000 + r.Intn(1000)
		}
		if j.kind == "query" && j.psize > 70000 {
			j.psize = 65500 + r.Intn(100)
		}
		if r.Intn(5) == 0 {
			j.mode = "PLAIN"
		}
		jobs = append(jobs, j)
	}
	run := func(j job) (tok string, data []byte, err error) {
		stmt := fmt.Sprintf("ECHO %s %s %d %d", j.mode, j.token, j.rsize, j.psize)
		read := func(q *gocql.Query) error {
			h := fnv.New32a()
			h.Write([]byte(j.token))
			traced := h.Sum32()%2 == 0
			tr := &c18tracer{}
			if traced {
				q.Trace(tr)
			}
			it := q.Iter()
			warn, pay := it.Warnings(), it.GetCustomPayload()
			it.Scan(&tok, &data)
			if err := it.Close(); err != nil {
				return err
			}
			if j.mode != "OK" {
				return nil
			}
			want := c18prefix(version, j.token, traced)
			if want == nil {
				want = &cqlref.Prefix{}
			}
			c.Add("replies_with_trace_warnings_or_payload", 1)
			tr.mu.Lock()
			ids := tr.ids
			tr.mu.Unlock()
			if traced && (len(ids) != 1 || !bytes.Equal(ids[0], want.TraceID)) {
				c.Violation("C18:wire:reply-prefix:trace-id", fmt.Sprintf("the tracer of %q was handed %x, the reply carried trace id %x (%s)", j.token, ids, want.TraceID, key), wit(map[string]interface{}{"job": fmt.Sprintf("%+v", j)}))
			}
			if fmt.Sprintf("%q", warn) != fmt.Sprintf("%q", want.Warnings) && !(len(warn) == 0 && len(want.Warnings) == 0) {
				c.Violation("C18:wire:reply-prefix:warnings", fmt.Sprintf("Iter.Warnings() of %q = %.80q, the reply carried %.80q (%s)", j.token, warn, want.Warnings, key), wit(map[string]interface{}{"job": fmt.Sprintf("%+v", j)}))
			}
			bad := len(pay) != len(want.Payload)
			for k, v := range want.Payload {
				if g, ok := pay[k]; !ok || !bytes.Equal(g, v) {
					bad = true
				}
			}
			if bad {
				c.Violation("C18:wire:reply-prefix:payload", fmt.Sprintf("the custom payload of the reply to %q arrived as %d entries, the node sent %d (%s)", j.token, len(pay), len(want.Payload), key), wit(map[string]interface{}{"job": fmt.Sprintf("%+v", j)}))
			}
			return nil
		}
		switch j.kind {
		case "query":
			stmt += " " + hex.EncodeToString(c18gen(j.token+"/pad", j.psize))
			err = read(sess.Query(stmt))
		case "execute":
			err = read(sess.Query("SELECT "+stmt, c18gen(j.token+"/val", j.psize)))
		default:
			b := sess.NewBatch(gocql.LoggedBatch)
			b.Query("SELECT "+stmt, c18gen(j.token+"/val", j.psize))
			b.Query("SELECT ECHO OK "+j.token+"b 0 10", c18gen(j.token+"b/val", 10))
			err = sess.ExecuteBatch(b)
			if err == nil {
				tok, data = j.token, c18gen(j.token+"/reply", j.rsize)
			}
		}
		return
	}
	var wg sync.WaitGroup
	par := 1 + r.Intn(6)
	ch := make(chan job)
	for g := 0; g < par; g++ {
		wg.Add(1)
		go func() {
			defer wg.Done()
			for j := range ch {
				tok, data, err := run(j)
				if err != nil {
					if loadLike(err) && len(cl.BadFramesCopy()) == 0 {
						// a starved machine: the (20 s) timeout expired with nothing wrong on the wire
						c.Inconclusive("c18-timeout", fmt.Sprintf("an ordinary %s ended with %v", j.kind, err))
						continue
					}
					c.Violation("C18:wire:request-failed", fmt.Sprintf("an ordinary %s failed (%s): %v", j.kind, key, err), wit(map[string]interface{}{"job": fmt.Sprintf("%+v", j), "bad_frames": cl.BadFramesCopy()}))
					continue
				}
				if tok != j.token || !bytes.Equal(data, c18gen(j.token+"/reply", j.rsize)) {
					c.Violation("C18:wire:reply-content", fmt.Sprintf("the reply to %s %q decoded to different content (%d data bytes, want %d) (%s)", j.kind, j.token, len(data), j.rsize, key), wit(map[string]interface{}{"job": fmt.Sprintf("%+v", j)}))
				}
				cn.mu.Lock()
				s := cn.sent[j.token]
				cn.mu.Unlock()
				if s == "compressed" {
					c.Add("replies_compressed_ok", 1)
				}
			}
		}()
	}
	for _, j := range jobs {
		ch <- j
	}
	close(ch)
	c.Guard("queries", wg.Wait)
	// --- what the node saw ---------------------------------------------------------------
	check := func(when string) {
		for _, b := range cl.BadFramesCopy() {
			k := "C18:wire:bad-request-frame"
			switch {
			case strings.Contains(b, "without negotiated compression"):
				k = "C18:wire:compressed-request-not-negotiated"
			case strings.Contains(b, "OPTIONS/STARTUP frame is compressed"):
				k = "C18:wire:handshake-frame-compressed"
			case strings.Contains(b, "which SUPPORTED did not advertise"):
				k = "C18:wire:startup-asks-unadvertised-compressor"
			case strings.Contains(b, "cannot decompress"):
				k = "C18:wire:request-body-undecodable"
			}
			c.Violation(k, fmt.Sprintf("%s (%s, %s)", clipS(b), key, when), wit(map[string]interface{}{"bad_frame": b}))
			break
		}
		cl.ClearBadFrames()
		cn.mu.Lock()
		probs := append([]string{}, cn.problems...)
		cn.problems = nil
		cn.mu.Unlock()
		for _, p := range probs {
			c.Violation("C18:wire:request-content", fmt.Sprintf("%s (%s)", p, key), wit(nil))
			break
		}
	}
	check("ordinary traffic")
	for _, sc := range cl.AllConns() {
		for _, rq := range sc.AllRequests() {
			if rq.Header.Op != cqlref.OpStartup {
				continue
			}
			got, has := rq.Options["COMPRESSION"]
			advertised := advFor(sc.Node)
			switch {
			case has && (compName == "" || !advertised || got != compName):
				c.Violation("C18:wire:startup-compression-option", fmt.Sprintf("STARTUP carries COMPRESSION=%q (%s)", got, key), wit(nil))
			case !has && compName != "" && advertised:
				c.Add("startup_without_compression_though_possible", 1)
			}
		}
	}
	fl, pl := atomic.LoadInt64(&cn.flagged), atomic.LoadInt64(&cn.plain)
	c.Add("requests_compressed", fl)
	c.Add("requests_uncompressed", pl)
	anyAdvertised := false
	for _, n := range cl.Nodes {
		anyAdvertised = anyAdvertised || advFor(n)
	}
	if fl > 0 && !(compName != "" && anyAdvertised) {
		c.Violation("C18:wire:compressed-request-not-negotiated", fmt.Sprintf("%d requests carried the compression flag (%s)", fl, key), wit(nil))
	}
	if mixed {
		return // the hostile replies below are scripted per session, not per connection
	}
	// --- hostile replies -----------------------------------------------------------------
	negotiated := compName != "" && advertised
	hj := job{kind: []string{"query", "execute"}[r.Intn(2)], token: fmt.Sprintf("h%d", i), rsize: c18sizes[r.Intn(len(c18sizes))], psize: r.Intn(100)}
	if negotiated {
		hj.mode = "CORRUPT"
		hostileKind = "corrupt"
		c.Add("hostile_corrupt_body", 1)
	} else {
		hj.mode = "FLAGGED"
		hostileKind = "flagged"
		c.Add("hostile_flagged_without_compressor", 1)
	}
	c.Eval(runner.H("c18wire", version, compName, opts.name, hostileKind, hj.kind), compName != "" || true)
	var tok string
	var data []byte
	var herr error
	c.Guard("hostile-query", func() { tok, data, herr = run(hj) })
	if herr == nil {
		c.Violation("C18:wire:"+hostileKind+"-reply-accepted", fmt.Sprintf("a %s reply (%s) was reported as success: token %q, %d data bytes (%s)", map[string]string{"corrupt": "corrupt compressed", "flagged": "compressed-flagged, on a connection without a compressor"}[hostileKind], hj.kind, tok, len(data), key), wit(map[string]interface{}{"job": fmt.Sprintf("%+v", hj)}))
	} else {
		c.SetAdd("hostile_reply_errors", clipS(herr.Error()))
	}
	if !negotiated {
		// frames nobody asked for that carry the compression flag on connections without a compressor: a pushed EVENT
		// (stream -1) and a frame on the reserved stream 0. They are errors for the connection, not for the process.
		for _, sc := range cl.AllConns() {
			if sc.C.Closed() || sc.Driver.Closed() || !sc.Ready() {
				continue
			}
			stream := []int{-1, 0}[r.Intn(2)]
			body := cqlref.BodyEvent(sc.Version, &cqlref.EventSpec{Kind: "STATUS_CHANGE", Change: "UP", IP: []byte{10, 1, 2, 3}, Port: 9042})
			op := byte(cqlref.OpEvent)
			if stream == 0 {
				body, op = cqlref.BodyVoid(), cqlref.OpResult
			}
			f, _ := cqlref.BuildFrame(sc.Version, stream, op, nil, body, func(b []byte) []byte { return cqlref.SnappyEncodeLiteral(b) })
			sc.WriteRaw(f)
			c.Add("hostile_flagged_unsolicited_frames", 1)
		}
		time.Sleep(5 * time.Millisecond)
	}
	// the session must still be usable (possibly after a reconnect)
	okj := job{kind: "query", mode: "OK", token: fmt.Sprintf("a%d", i), rsize: 100, psize: 10}
	recovered := false
	for try := 0; try < 60 && !recovered; try++ {
		tok, data, err := run(okj)
		if err == nil {
			recovered = true
			if tok != okj.token || !bytes.Equal(data, c18gen(okj.token+"/reply", okj.rsize)) {
				c.Violation("C18:wire:reply-content", fmt.Sprintf("after a hostile reply, the reply to %q decoded to different content (%s)", okj.token, key), wit(nil))
			}
		} else {
			time.Sleep(20 * time.Millisecond)
		}
	}
	if recovered {
		c.Add("recovered_after_hostile_reply", 1)
	} else {
		c.Add("not_recovered_after_hostile_reply", 1)
	}
	check("after hostile reply")
	if c.WantSample() {
		c.Sample(map[string]interface{}{"case": key, "requests_flagged_compressed": fl, "requests_plain": pl, "hostile_reply": hostileKind, "hostile_reply_error": fmt.Sprint(herr)})
	}
}
