package props

import (
	"fmt"
	"math/rand"
	"runtime"
	"sort"
	"strings"
	"sync"
	"sync/atomic"
	"time"
	"verifharness/fakenode"

	"github.com/gocql/gocql"

	"verifharness/detsched"
	"verifharness/runner"
)

// C08: stream ids are unique while in use, never 0 or out of range, and all get used.

func init() {
	runner.Register(&runner.Prop{
		ID: "C08", Level: "exploration",
		Technique: "controlled scheduler over the real allocator code: yield hooks before every atomic load/CAS/add let a deterministic scheduler enumerate (DFS, exhaustive for the small configurations) or sample interleavings; ownership / exhaustion / count monitors on the serialized execution; plus real-thread stress under the race detector and sequential sweeps",
		Rule: "state = a schedule prefix of the configuration (tasks x operations on a generator pre-filled so that 1-3 ids of one or two words are free); transitions = scheduling steps; a trace is a complete schedule executed on the real code and checked by the monitors; " +
			"distinct = distinct complete choice sequences (DFS never repeats one); non-trivial = every enumerated schedule has at least two tasks contending on the same words",
		Assumptions: []string{
			"Go atomics are sequentially consistent; the scheduler explores SC interleavings at the granularity of the allocator's atomic operations (the yield hooks sit immediately before each of them)",
			"verdicts are conservative: an id counts as held from the start of the GetStream call that returned it to the end of the Clear call that released it (exhaustion check), and as owned from GetStream's return to Clear's start (uniqueness check)",
		},
		RaceOwner: func(fns []string) bool {
			for _, f := range fns {
				if strings.Contains(f, "streams.") {
					return true
				}
			}
			return false
		},
		Phases: func(tier string) []runner.Phase {
			nr, ns := 64, 32
			if tier == "thorough" {
				nr, ns = 2000, 400
			}
			return []runner.Phase{
				{Name: "dfs", Variant: "plain", Cases: len(c08configs(tier)), Run: c08dfs, CaseTimeout: 20 * time.Minute, Required: []string{"schedules", "exhaustive_configs"}},
				{Name: "random-schedules", Variant: "plain", Cases: nr, Run: c08random, CaseTimeout: 10 * time.Minute, Required: []string{"schedules"}},
				{Name: "threads", Variant: "race", Cases: ns, Run: c08threads, CaseTimeout: 10 * time.Minute, Required: []string{"thread_ops"}},
				{Name: "sweep", Variant: "plain", Cases: 8, Shards: 4, Run: c08sweep, Required: []string{"sweep_ids"}},
				{Name: "wire", Variant: "race", Cases: 8, Run: c08wire, CaseTimeout: 2 * time.Minute, Required: []string{"wire_exhaustions", "wire_requests_parked", "wire_requests_refused_while_full"}},
				{Name: "long-history", Variant: "plain", Cases: 2, Shards: 2, Run: c08longHistory, CaseTimeout: 40 * time.Minute, Required: []string{"long_history_calls"}},
			}
		},
	})
}

type c08op struct {
	kind string // get | rel (release the id this task acquired last) | clr (Clear a fixed id)
	id   int
}

type c08cfg struct {
	name  string
	proto int
	free  []int     // ids free at the start (everything else is pre-held for the whole run)
	own   [][]int   // ids each task owns at the start (were acquired for it)
	progs [][]c08op // per task
	limit int
}

func capOf(proto int) int {
	if proto > 2 {
		return 32768
	}
	return 128
}

func c08configs(tier string) []c08cfg {
	G, R := c08op{kind: "get"}, c08op{kind: "rel"}
	clr := func(id int) c08op { return c08op{kind: "clr", id: id} }
	var out []c08cfg
	for _, proto := range []int{2} {
		last := capOf(proto) - 1 // 127: last bit of the last word
		sets := [][]int{{last}, {last - 1, last}, {1, 2}, {63, 64}, {1, last}, {5}}
		for _, free := range sets {
			fs := fmt.Sprint(free)
			out = append(out,
				c08cfg{name: "get|get free=" + fs, proto: proto, free: free, progs: [][]c08op{{G}, {G}}},
				c08cfg{name: "get,rel|get free=" + fs, proto: proto, free: free, progs: [][]c08op{{G, R}, {G}}},
				c08cfg{name: "get,rel|get,rel free=" + fs, proto: proto, free: free, progs: [][]c08op{{G, R}, {G, R}}},
			)
		}
		// release racing acquire on the same word; double release of one id
		out = append(out,
			c08cfg{name: "rel(own 126)|get free=[]", proto: proto, free: nil, own: [][]int{{126}, nil}, progs: [][]c08op{{R}, {G}}},
			c08cfg{name: "rel(own 126)|get,get free=[127]", proto: proto, free: []int{127}, own: [][]int{{126}, nil}, progs: [][]c08op{{R}, {G, G}}},
			c08cfg{name: "rel(own 3)|rel(own 4) same word", proto: proto, free: []int{9}, own: [][]int{{3}, {4}}, progs: [][]c08op{{R}, {R}}},
			c08cfg{name: "clr 7|clr 7 double release", proto: proto, free: []int{9}, own: [][]int{{7}, nil}, progs: [][]c08op{{clr(7)}, {clr(7)}}},
			c08cfg{name: "rel(own 100)|rel(own 101)|get free=[]", proto: proto, free: nil, own: [][]int{{100}, {101}, nil}, progs: [][]c08op{{R}, {R}, {G}}, limit: 400000},
			c08cfg{name: "get|get|get free=[126,127]", proto: proto, free: []int{126, 127}, progs: [][]c08op{{G}, {G}, {G}}, limit: 400000},
		)
	}
	// every exploration is bounded: a change to the allocator that adds atomic steps (or a retry loop) multiplies the
	// number of interleavings, and the check has to end; an exploration cut short is reported as incomplete
	for i := range out {
		if out[i].limit == 0 {
			out[i].limit = 1000000
		}
	}
	if tier == "thorough" {
		for i := range out {
			out[i].limit = 6000000
		}
	}
	return out
}

type c08event struct {
	task       int
	kind       string
	id         int
	ok         bool
	start, end int
}

type c08run struct {
	cfg      *c08cfg
	events   []c08event
	panicked string
	avail    int
	heldEnd  int
}

// c08execute runs one schedule of cfg on a fresh generator.
func c08execute(cfg *c08cfg, choose func(enabled []int) int) (*c08run, *detsched.Sched) {
	g := gocql.VerifNewStreams(cfg.proto)
	n := capOf(cfg.proto) - 1
	// pre-fill sequentially with the real code: acquire everything, then free what the configuration wants free
	for i := 0; i < n; i++ {
		g.GetStream()
	}
	for _, id := range cfg.free {
		g.Clear(id)
	}
	s := detsched.New()
	s.Choose = choose
	run := &c08run{cfg: cfg}
	for ti, prog := range cfg.progs {
		ti, prog := ti, prog
		var own []int
		if ti < len(cfg.own) {
			own = append(own, cfg.own[ti]...)
		}
		s.Add(func(t *detsched.Task) {
			defer func() {
				if r := recover(); r != nil {
					run.panicked = fmt.Sprint(r)
				}
			}()
			for _, op := range prog {
				ev := c08event{task: ti, kind: op.kind, start: s.Clock}
				switch op.kind {
				case "get":
					ev.id, ev.ok = g.GetStream()
					if ev.ok {
						own = append(own, ev.id)
					}
				case "rel":
					if len(own) == 0 {
						continue
					}
					ev.id = own[len(own)-1]
					own = own[:len(own)-1]
					ev.ok = g.Clear(ev.id)
				case "clr":
					ev.id = op.id
					ev.ok = g.Clear(op.id)
				}
				ev.end = s.Clock
				run.events = append(run.events, ev)
			}
		})
	}
	gocql.VerifSetStreamYield(s.Yield)
	s.Run()
	gocql.VerifSetStreamYield(nil)
	run.avail = g.Available()
	return run, s
}

// c08check applies the monitors to one serialized execution. Returns (key, description).
func c08check(run *c08run) (string, string) {
	cfg := run.cfg
	n := capOf(cfg.proto) - 1
	if run.panicked != "" {
		return "C08:panic", "allocator panicked: " + run.panicked
	}
	permanently := func(id int) bool { // held by the harness for the whole run
		for _, f := range cfg.free {
			if f == id {
				return false
			}
		}
		for _, o := range cfg.own {
			for _, x := range o {
				if x == id {
					return false
				}
			}
		}
		return true
	}
	type hold struct{ from, to, strictFrom, strictTo int } // conservative and strict intervals
	holds := map[int][]hold{}
	const inf = 1 << 30
	// acquisitions: ids owned from the start, and every successful GetStream
	type acq struct {
		task             int
		start, end       int
		relStart, relEnd int
	}
	acqs := map[int][]*acq{}
	for ti, o := range cfg.own {
		for _, id := range o {
			acqs[id] = append(acqs[id], &acq{task: ti, start: -1, end: -1, relStart: inf, relEnd: inf})
		}
	}
	evs := append([]c08event{}, run.events...)
	sort.SliceStable(evs, func(i, j int) bool { return evs[i].start < evs[j].start })
	for _, e := range evs {
		if e.kind == "get" && e.ok {
			if e.id <= 0 || e.id > n {
				return "C08:id-out-of-range", fmt.Sprintf("GetStream returned %d (valid: 1..%d)", e.id, n)
			}
			if permanently(e.id) {
				return "C08:duplicate-id", fmt.Sprintf("GetStream returned id %d which was handed out earlier and never released", e.id)
			}
			acqs[e.id] = append(acqs[e.id], &acq{task: e.task, start: e.start, end: e.end, relStart: inf, relEnd: inf})
		}
	}
	// successful releases close the earliest still-open acquisition of that id that began before them
	for _, e := range evs {
		if (e.kind == "rel" || e.kind == "clr") && e.ok {
			closed := false
			for _, a := range acqs[e.id] {
				// a task releases what it acquired itself; a fixed-id Clear releases whoever holds the id
				if a.relStart == inf && a.end <= e.end && (e.kind == "clr" || a.task == e.task) {
					a.relStart, a.relEnd = e.start, e.end
					closed = true
					break
				}
			}
			if !closed {
				return "C08:release-of-free-id-reports-in-use", fmt.Sprintf("Clear(%d) returned true although nobody held the id", e.id)
			}
		}
		if e.kind == "rel" && !e.ok {
			return "C08:release-reports-not-in-use", fmt.Sprintf("Clear(%d) by its only owner returned false", e.id)
		}
	}
	for id, l := range acqs {
		for _, a := range l {
			holds[id] = append(holds[id], hold{from: a.start, to: a.relEnd, strictFrom: a.end, strictTo: a.relStart})
		}
		// two owners at once: strict intervals [GetStream returned, Clear called] must not overlap
		for x := 0; x < len(l); x++ {
			for y := x + 1; y < len(l); y++ {
				if l[x].end <= l[y].relStart && l[y].end <= l[x].relStart && l[x].end < l[x].relStart && l[y].end < l[y].relStart {
					return "C08:duplicate-id", fmt.Sprintf("id %d was owned by task %d (steps %d..%d) and task %d (steps %d..%d) at the same time", id, l[x].task, l[x].end, l[x].relStart, l[y].task, l[y].end, l[y].relStart)
				}
			}
		}
	}
	// double clear: of the concurrent Clear(id) calls on one held id exactly one reports true
	clears := map[int][2]int{}
	for _, e := range run.events {
		if e.kind == "clr" {
			c := clears[e.id]
			c[0]++
			if e.ok {
				c[1]++
			}
			clears[e.id] = c
		}
	}
	for id, c := range clears {
		heldAtStart := false
		for _, o := range cfg.own {
			for _, x := range o {
				if x == id {
					heldAtStart = true
				}
			}
		}
		want := 0
		if heldAtStart {
			want = 1
		}
		reacquired := false
		for _, e := range run.events {
			if e.kind == "get" && e.ok && e.id == id {
				reacquired = true
			}
		}
		if !reacquired && c[1] != want {
			return "C08:double-release", fmt.Sprintf("%d concurrent Clear(%d) calls: %d reported 'was in use', want %d", c[0], id, c[1], want)
		}
	}
	// false exhaustion: a failed GetStream although some id was free for its whole duration
	for _, e := range run.events {
		if e.kind != "get" || e.ok {
			continue
		}
		cands := append([]int{}, cfg.free...)
		for _, o := range cfg.own {
			cands = append(cands, o...)
		}
		for _, id := range cands {
			freeThroughout := true
			for _, h := range holds[id] {
				if h.from <= e.end && e.start <= h.to {
					freeThroughout = false
				}
			}
			if freeThroughout {
				return "C08:false-exhaustion", fmt.Sprintf("GetStream (steps %d..%d) reported exhaustion although id %d was free for the whole duration of the call", e.start, e.end, id)
			}
		}
	}
	// count at quiescence
	held := 0
	for id := 1; id <= n; id++ {
		if permanently(id) {
			held++
			continue
		}
		for _, h := range holds[id] {
			if h.to == inf {
				held++
				break
			}
		}
	}
	if run.avail != n-held {
		return "C08:available-count", fmt.Sprintf("Available() = %d at quiescence, but %d of %d ids are handed out", run.avail, held, n)
	}
	return "", ""
}

func c08witness(run *c08run, s *detsched.Sched) map[string]interface{} {
	var evs []string
	for _, e := range run.events {
		evs = append(evs, fmt.Sprintf("task%d %s id=%d ok=%v steps[%d,%d]", e.task, e.kind, e.id, e.ok, e.start, e.end))
	}
	return map[string]interface{}{"config": run.cfg.name, "schedule": s.Trace, "events": evs}
}

func c08dfs(c *runner.Ctx, i int) {
	cfgs := c08configs(c.Tier)
	cfg := &cfgs[i]
	d := &detsched.DFS{Limit: cfg.limit}
	states := 0
	var bad bool
	var last *detsched.Sched
	n, complete := d.Explore(func(choose func([]int) int) {
		if bad {
			return
		}
		run, s := c08execute(cfg, choose)
		last = s
		states += s.Clock
		if s.Overrun {
			c.Inconclusive("schedule-overrun", cfg.name)
		}
		if key, what := c08check(run); key != "" {
			c.Violation(key, what+" [config "+cfg.name+"]", c08witness(run, s))
			bad = true
		}
	})
	c.Add("schedules", int64(n))
	c.Add("transitions", int64(states))
	if complete && !bad {
		c.Add("exhaustive_configs", 1)
		c.SetAdd("exhaustively_enumerated", fmt.Sprintf("%s: %d schedules", cfg.name, n))
	} else {
		c.SetAdd("bounded_enumeration", fmt.Sprintf("%s: first %d schedules (DFS order)", cfg.name, n))
	}
	for k := 0; k < n; k += 1 + n/2000 {
		c.Eval(runner.H("dfs", cfg.name, k), true)
	}
	if last != nil && c.WantSample() {
		c.Sample(map[string]interface{}{"config": cfg.name, "schedules": n, "complete": complete, "last_schedule": last.Trace})
	}
}

func c08random(c *runner.Ctx, i int) {
	r := c.Rng
	proto := 2
	nt := 2 + r.Intn(3)
	n := capOf(proto) - 1
	// random free set around word boundaries
	var free []int
	for k := 0; k <= r.Intn(3); k++ {
		free = append(free, []int{1, 2, 62, 63, 64, 65, 126, 127, 1 + r.Intn(n)}[r.Intn(9)])
	}
	sort.Ints(free)
	free = uniqInts(free)
	cfg := &c08cfg{name: fmt.Sprintf("random tasks=%d free=%v", nt, free), proto: proto, free: free}
	for t := 0; t < nt; t++ {
		var p []c08op
		for k := 0; k < 1+r.Intn(3); k++ {
			if r.Intn(3) == 0 {
				p = append(p, c08op{kind: "rel"})
			} else {
				p = append(p, c08op{kind: "get"})
			}
		}
		cfg.progs = append(cfg.progs, p)
	}
	iters := 400
	for k := 0; k < iters; k++ {
		// PCT-like: random priorities with occasional priority changes, or uniform random
		var choose func([]int) int
		if k%2 == 0 {
			choose = func(en []int) int { return r.Intn(len(en)) }
		} else {
			prio := r.Perm(nt)
			change := r.Intn(40)
			step := 0
			choose = func(en []int) int {
				step++
				if step == change {
					prio = r.Perm(nt)
				}
				best := 0
				for x := range en {
					if prio[en[x]] > prio[en[best]] {
						best = x
					}
				}
				return best
			}
		}
		run, s := c08execute(cfg, choose)
		c.Add("schedules", 1)
		c.Add("transitions", int64(s.Clock))
		c.Eval(runner.H("rnd", cfg.name, fmt.Sprint(s.Trace)), true)
		if key, what := c08check(run); key != "" {
			c.Violation(key, what+" [config "+cfg.name+"]", c08witness(run, s))
			return
		}
	}
}

func uniqInts(a []int) []int {
	var o []int
	for i, x := range a {
		if i == 0 || x != a[i-1] {
			o = append(o, x)
		}
	}
	return o
}

// c08threads: real goroutines, atomic owner table.
func c08threads(c *runner.Ctx, i int) {
	r := c.Rng
	proto := 2 + (i%2)*2
	n := capOf(proto) - 1
	g := gocql.VerifNewStreams(proto)
	owners := make([]int32, n+2)
	// keep the allocator nearly full so that goroutines fight for the last free ids
	keep := n - (2 + r.Intn(40))
	if i%4 == 3 {
		keep = 0
	}
	for k := 0; k < keep; k++ {
		id, ok := g.GetStream()
		if ok {
			atomic.StoreInt32(&owners[id], -1)
		}
	}
	ng := []int{2, 4, 8, 16, 64}[r.Intn(5)]
	ops := 200000 / ng
	if c.Tier == "thorough" {
		ops = 2000000 / ng
	}
	var wg sync.WaitGroup
	var bad atomic.Value
	var total int64
	for t := 1; t <= ng; t++ {
		wg.Add(1)
		go func(t int32) {
			defer wg.Done()
			defer func() {
				if rec := recover(); rec != nil {
					bad.Store("C08:panic|allocator panicked: " + fmt.Sprint(rec))
				}
			}()
			var mine []int
			rr := rand.New(rand.NewSource(int64(t)*7919 + int64(i)))
			for k := 0; k < ops && bad.Load() == nil; k++ {
				if len(mine) > 0 && (rr.Intn(2) == 0 || len(mine) > 6) {
					id := mine[len(mine)-1]
					mine = mine[:len(mine)-1]
					if !atomic.CompareAndSwapInt32(&owners[id], t, 0) {
						bad.Store(fmt.Sprintf("C08:duplicate-id|owner table for id %d changed under its owner", id))
						return
					}
					if !g.Clear(id) {
						bad.Store(fmt.Sprintf("C08:release-reports-not-in-use|Clear(%d) by its owner returned false", id))
						return
					}
					continue
				}
				id, ok := g.GetStream()
				if !ok {
					continue
				}
				if id <= 0 || id > n {
					bad.Store(fmt.Sprintf("C08:id-out-of-range|GetStream returned %d", id))
					return
				}
				if !atomic.CompareAndSwapInt32(&owners[id], 0, t) {
					bad.Store(fmt.Sprintf("C08:duplicate-id|GetStream returned id %d which is currently handed out (owner %d)", id, atomic.LoadInt32(&owners[id])))
					return
				}
				mine = append(mine, id)
			}
			for _, id := range mine {
				atomic.StoreInt32(&owners[id], 0)
				g.Clear(id)
			}
			atomic.AddInt64(&total, int64(ops))
		}(int32(t))
	}
	wg.Wait()
	c.Add("thread_ops", atomic.LoadInt64(&total))
	c.Eval(runner.H("threads", proto, ng, keep, i), true)
	if b, _ := bad.Load().(string); b != "" {
		p := strings.SplitN(b, "|", 2)
		c.Violation(p[0], p[1]+" [real threads]", map[string]interface{}{"proto": proto, "goroutines": ng, "pre_held": keep})
		return
	}
	held := 0
	for id := 1; id <= n; id++ {
		if atomic.LoadInt32(&owners[id]) != 0 {
			held++
		}
	}
	if g.Available() != n-held {
		c.Violation("C08:available-count", fmt.Sprintf("Available() = %d at quiescence, but %d of %d ids are handed out [real threads]", g.Available(), held, n), nil)
	}
	if c.WantSample() {
		c.Sample(map[string]interface{}{"threads": ng, "ops": total, "proto": proto, "pre_held": keep})
	}
}

// c08sweep: sequential use hands out every non-reserved id exactly once before failing.
func c08sweep(c *runner.Ctx, i int) {
	proto := 1 + i%5
	n := capOf(proto) - 1
	g := gocql.VerifNewStreams(proto)
	r := c.Rng
	for round := 0; round < 3; round++ {
		seen := map[int]bool{}
		for {
			id, ok := g.GetStream()
			if !ok {
				break
			}
			if id <= 0 || id > n || seen[id] {
				c.Violation("C08:sweep:bad-id", fmt.Sprintf("sequential GetStream returned %d (valid 1..%d, seen before: %v)", id, n, seen[id]), nil)
				return
			}
			seen[id] = true
		}
		if len(seen) != n {
			c.Violation("C08:sweep:premature-exhaustion", fmt.Sprintf("sequential use handed out %d of %d ids before reporting exhaustion", len(seen), n), map[string]interface{}{"proto": proto})
			return
		}
		if g.Available() != 0 {
			c.Violation("C08:available-count", fmt.Sprintf("Available() = %d when every id is handed out", g.Available()), nil)
		}
		ids := make([]int, 0, n)
		for id := range seen {
			ids = append(ids, id)
		}
		r.Shuffle(len(ids), func(a, b int) { ids[a], ids[b] = ids[b], ids[a] })
		for k, id := range ids {
			if !g.Clear(id) {
				c.Violation("C08:release-reports-not-in-use", fmt.Sprintf("Clear(%d) of a held id returned false", id), nil)
				return
			}
			if k%97 == 0 && g.Clear(id) {
				c.Violation("C08:double-release", fmt.Sprintf("second Clear(%d) returned true", id), nil)
				return
			}
		}
		if g.Available() != n {
			c.Violation("C08:available-count", fmt.Sprintf("Available() = %d after releasing everything, want %d", g.Available(), n), nil)
		}
		c.Add("sweep_ids", int64(n))
	}
	c.Eval(runner.H("sweep", proto), true)
}

// c08longHistory: one generator used for longer than any counter inside it can count: 2^32 and some sequential
// acquire/release pairs (a connection at 20k requests/s gets there in two and a half days). Every call must hand out a
// valid id - the generator is never more than one id short of empty.
func c08longHistory(c *runner.Ctx, i int) {
	proto := []int{4, 2}[i%2]
	n := capOf(proto) - 1
	g := gocql.VerifNewStreams(proto)
	total := uint64(1)<<32 + 8*uint64(capOf(proto))
	// a few ids stay held throughout, so that the scan has something to step over
	var held []int
	for k := 0; k < 3; k++ {
		id, ok := g.GetStream()
		if !ok {
			c.Violation("C08:long-history:exhaustion-with-free-ids", "GetStream failed on a fresh generator", nil)
			return
		}
		held = append(held, id)
	}
	for k := uint64(0); k < total; k++ {
		id, ok := g.GetStream()
		if !ok {
			c.Violation("C08:long-history:exhaustion-with-free-ids", fmt.Sprintf("GetStream number %d on one generator reported exhaustion although %d of %d ids are free", k+4, g.Available(), n), map[string]interface{}{"proto": proto, "call": k + 4})
			return
		}
		if id <= 0 || id > n || id == held[0] || id == held[1] || id == held[2] {
			c.Violation("C08:long-history:bad-id", fmt.Sprintf("GetStream number %d returned %d (valid 1..%d, held %v)", k+4, id, n, held), map[string]interface{}{"proto": proto, "call": k + 4})
			return
		}
		if !g.Clear(id) {
			c.Violation("C08:release-reports-not-in-use", fmt.Sprintf("Clear(%d) of the id just handed out (call %d) returned false", id, k+4), nil)
			return
		}
		if k&(1<<22-1) == 0 {
			c.Touch()
			if a := g.Available(); a != n-3 {
				c.Violation("C08:available-count", fmt.Sprintf("Available() = %d with 3 ids held, want %d (after %d calls)", a, n-3, k+4), nil)
				return
			}
		}
	}
	c.Add("long_history_calls", int64(total))
	c.Eval(runner.H("long-history", proto), true)
}

// c08wire: the ids as they appear on a real connection that runs out of them. Every stream id of a protocol 1/2
// connection (127 usable) is parked on a request the node does not answer yet; further requests are refused
// locally; the node never sees id 0, an id out of range or an id that is still waiting for its answer.
func c08wire(c *runner.Ctx, i int) {
	version := 1 + i%2
	cl := fakenode.NewCluster(1)
	var mu sync.Mutex
	var held []*fakenode.Req
	var heldConn []*fakenode.ServerConn
	var problems []string
	inflight := map[*fakenode.ServerConn]map[int]bool{}
	cl.Nodes[0].Handler = func(sc *fakenode.ServerConn, req *fakenode.Req) {
		st := int(req.Header.Stream)
		mu.Lock()
		if inflight[sc] == nil {
			inflight[sc] = map[int]bool{}
		}
		switch {
		case st == 0:
			problems = append(problems, fmt.Sprintf("a request (%q) arrived on stream id 0", req.Statement))
		case st < 0 || st > 127:
			problems = append(problems, fmt.Sprintf("a request (%q) arrived on stream id %d (valid 1..127)", req.Statement, st))
		case inflight[sc][st]:
			problems = append(problems, fmt.Sprintf("a request (%q) arrived on stream id %d while the previous request on that id is still unanswered", req.Statement, st))
		}
		if strings.HasPrefix(req.Statement, "HOLD") {
			inflight[sc][st] = true
			held = append(held, req)
			heldConn = append(heldConn, sc)
			mu.Unlock()
			return
		}
		mu.Unlock()
		sc.ReplyVoid(req)
	}
	cfg := newCfg(cl, version)
	cfg.NumConns = 1
	cfg.Timeout = 20 * time.Second
	sess, err := cfg.CreateSession()
	if err != nil {
		c.Inconclusive("c08-wire-session", err.Error())
		return
	}
	defer sess.Close()
	var wg sync.WaitGroup
	var okN, failN int64
	hold := func(k int) {
		defer wg.Done()
		if err := sess.Query(fmt.Sprintf("HOLD %d", k)).Exec(); err == nil {
			atomic.AddInt64(&okN, 1)
		} else {
			atomic.AddInt64(&failN, 1)
		}
	}
	waitParked := func(n int) int {
		parked := 0
		for w := 0; w < 2000; w++ {
			mu.Lock()
			parked = len(held)
			mu.Unlock()
			if parked+int(atomic.LoadInt64(&failN)) >= n {
				break
			}
			time.Sleep(2 * time.Millisecond)
		}
		return parked
	}
	// all ids but a few are parked ...
	first := 127 - 1 - i%3
	for k := 0; k < first; k++ {
		wg.Add(1)
		go hold(k)
	}
	waitParked(first)
	// ... and many callers at once go for the last ones: the pool hands the connection to all of them (it has ids
	// left when they look), a few get an id, the others are refused inside the connection
	var start int32
	for k := first; k < first+24; k++ {
		wg.Add(1)
		go func(k int) {
			for atomic.LoadInt32(&start) == 0 {
				runtime.Gosched()
			}
			hold(k)
		}(k)
	}
	atomic.StoreInt32(&start, 1)
	parked := waitParked(first + 24)
	// ... several times over: a few parked requests are answered (their ids come back) and the next crowd arrives
	next := first + 24
	for round := 0; round < 6; round++ {
		mu.Lock()
		nrel := 1 + (round+i)%3
		if nrel > len(held) {
			nrel = len(held)
		}
		rel, relc := append([]*fakenode.Req{}, held[:nrel]...), append([]*fakenode.ServerConn{}, heldConn[:nrel]...)
		held, heldConn = held[nrel:], heldConn[nrel:]
		for k, rq := range rel {
			delete(inflight[relc[k]], int(rq.Header.Stream))
		}
		mu.Unlock()
		for k, rq := range rel {
			relc[k].ReplyVoid(rq)
		}
		time.Sleep(time.Millisecond)
		var go2 int32
		for k := 0; k < 16; k++ {
			wg.Add(1)
			go func(k int) {
				for atomic.LoadInt32(&go2) == 0 {
					runtime.Gosched()
				}
				hold(k)
			}(next + k)
		}
		atomic.StoreInt32(&go2, 1)
		next += 16
		time.Sleep(3 * time.Millisecond)
	}
	time.Sleep(20 * time.Millisecond)
	mu.Lock()
	parked = len(held)
	mu.Unlock()
	// the connection is full (its heartbeat may hold one of the ids): more requests are refused, and refused again
	refused := 0
	for k := 0; k < 6; k++ {
		if err := sess.Query(fmt.Sprintf("EXTRA %d", k)).Exec(); err != nil {
			refused++
		}
	}
	mu.Lock()
	hs, hc := held, heldConn
	held, heldConn = nil, nil
	for _, m := range inflight {
		for k := range m {
			delete(m, k)
		}
	}
	mu.Unlock()
	for k, rq := range hs {
		hc[k].ReplyVoid(rq)
	}
	wg.Wait()
	c.Add("wire_exhaustions", 1)
	c.Add("wire_requests_parked", int64(parked))
	c.Add("wire_requests_refused_while_full", int64(refused))
	c.Eval(runner.H("c08wire", version, parked, refused), true)
	mu.Lock()
	defer mu.Unlock()
	for _, p := range problems {
		c.Violation("C08:wire:bad-stream-id", fmt.Sprintf("%s (protocol %d connection with %d requests parked, %d refused)", p, version, parked, refused), map[string]interface{}{"parked": parked, "refused": refused})
		break
	}
}
