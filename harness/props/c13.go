package props

import (
	"context"
	"errors"
	"fmt"
	"sort"
	"strings"
	"sync"
	"sync/atomic"
	"time"

	"github.com/gocql/gocql"

	"verifharness/cqlref"
	"verifharness/fakenode"
	"verifharness/runner"
)

// C13: retries, idempotence and speculative execution follow the documented contract.

func init() {
	runner.Register(&runner.Prop{
		ID: "C13", Level: "exploration",
		Technique: "runtime monitor: per-attempt outcomes are scripted at the nodes; the arrival log at the nodes (host, token, order, consistency) and the logged decisions of the (wrapped) retry policy feed an executable model of the documented contract that validates the executor's decisions; race detector",
		Rule: "case = one query or batch (idempotent or not) against 1..5 scripted nodes offered in a fixed order, with a script of per-attempt outcomes (success, Unavailable, Read/WriteTimeout, Overloaded, server error, no answer, connection drop, host down), a retry policy in {none, Simple(0..4), Exponential, DowngradingConsistency, seeded decision table}, a speculative policy (0..3 extra executions, 0.5..20 ms) and optionally a context cancelled at a given attempt; " +
			"distinct = hash(script, policies, idempotence); non-trivial = at least one attempt fails or a speculative policy is set",
		Assumptions: []string{
			"the model consumes the outcomes and decisions that were actually observed, so a late reply on a slow machine changes the oracle's input, not its verdict",
			"a host offered by the selection policy may be skipped without an attempt when it is down or has no connection; the strict same-host / next-host rules are asserted only in scenarios without connection drops",
			"with speculative executions the attempt budget is shared; the bound asserted is arrivals <= retries + 2 x (1 + speculative executions)",
		},
		RaceOwner: func(fns []string) bool {
			for _, f := range fns {
				if strings.Contains(f, "queryExecutor") || strings.Contains(f, "queryMetrics") || strings.Contains(f, "(*Query)") || strings.Contains(f, "(*Batch)") || strings.Contains(f, "RetryPolicy") {
					return true
				}
			}
			return false
		},
		Phases: func(tier string) []runner.Phase {
			n := 3000
			if tier == "thorough" {
				n = 100000
			}
			return []runner.Phase{
				{Name: "attempt-accounting", Variant: "race", Cases: n / 100, Run: c13accounting, CaseTimeout: 120 * time.Second, Required: []string{"attempts_recorded_concurrently"}},
				{Name: "scenarios", Variant: "race", Cases: n, Run: c13case, CaseTimeout: 120 * time.Second,
					Required: []string{"retry_same_host", "retry_next_host", "rethrow_or_ignore", "non_idempotent", "speculative", "ctx_cancelled", "budget_exhausted", "batches", "host_down_while_in_flight", "batch_reused_after_entries_changed", "speculative_batch_executions_seen", "sessions_with_cluster_retry_policy", "ctx_cancelled_between_attempts", "executions_without_observer", "downgrading_policy_final_errors", "overlapping_executions_of_WithContext_copies"}},
			}
		},
	})
}

// fixed-order host selection policy
type c13policy struct {
	mu    sync.Mutex
	hosts []*gocql.HostInfo
}

func (p *c13policy) AddHost(h *gocql.HostInfo) {
	p.mu.Lock()
	defer p.mu.Unlock()
	for _, x := range p.hosts {
		if x.ConnectAddress().Equal(h.ConnectAddress()) {
			return
		}
	}
	p.hosts = append(p.hosts, h)
	sort.Slice(p.hosts, func(i, j int) bool {
		return p.hosts[i].ConnectAddress().String() < p.hosts[j].ConnectAddress().String()
	})
}
func (p *c13policy) RemoveHost(h *gocql.HostInfo) {
	p.mu.Lock()
	defer p.mu.Unlock()
	for i, x := range p.hosts {
		if x.ConnectAddress().Equal(h.ConnectAddress()) {
			p.hosts = append(p.hosts[:i:i], p.hosts[i+1:]...)
			return
		}
	}
}
func (p *c13policy) HostUp(h *gocql.HostInfo)                  { p.AddHost(h) }
func (p *c13policy) HostDown(h *gocql.HostInfo)                {}
func (p *c13policy) SetPartitioner(string)                     {}
func (p *c13policy) KeyspaceChanged(gocql.KeyspaceUpdateEvent) {}
func (p *c13policy) Init(*gocql.Session)                       {}
func (p *c13policy) IsLocal(*gocql.HostInfo) bool              { return true }

type c13sel struct{ h *gocql.HostInfo }

func (s c13sel) Info() *gocql.HostInfo { return s.h }
func (s c13sel) Mark(error)            {}

func (p *c13policy) Pick(gocql.ExecutableQuery) gocql.NextHost {
	p.mu.Lock()
	l := append([]*gocql.HostInfo{}, p.hosts...)
	p.mu.Unlock()
	i := 0
	return func() gocql.SelectedHost {
		if i >= len(l) {
			return nil
		}
		i++
		return c13sel{l[i-1]}
	}
}

// retry policy wrapper that logs every decision
type c13retry struct {
	inner    gocql.RetryPolicy
	table    map[string]gocql.RetryType // seeded decision table (inner == nil)
	max      int
	mu       sync.Mutex
	attempts []int // q.Attempts() seen by Attempt, and its answer
	allowed  []bool
	kinds    []string // error kind seen by GetRetryType
	types    []gocql.RetryType
}

func errKind(err error) string {
	switch e := err.(type) {
	case *gocql.RequestErrUnavailable:
		return fmt.Sprintf("unavailable(alive=%d)", e.Alive)
	case *gocql.RequestErrReadTimeout:
		return "read-timeout"
	case *gocql.RequestErrWriteTimeout:
		return fmt.Sprintf("write-timeout(%s,%d)", e.WriteType, e.Received)
	}
	if err == nil {
		return "ok"
	}
	s := err.Error()
	switch {
	case errors.Is(err, gocql.ErrTimeoutNoResponse):
		return "driver-timeout"
	case strings.Contains(s, "overloaded"):
		return "overloaded"
	case strings.Contains(s, "scripted server error"):
		return "server-error"
	case errors.Is(err, context.Canceled), errors.Is(err, context.DeadlineExceeded):
		return "ctx"
	}
	return "conn:" + classifyErr(err)
}

func (p *c13retry) Attempt(q gocql.RetryableQuery) bool {
	var ok bool
	if p.inner != nil {
		ok = p.inner.Attempt(q)
	} else {
		ok = q.Attempts() <= p.max
	}
	p.mu.Lock()
	p.attempts = append(p.attempts, q.Attempts())
	p.allowed = append(p.allowed, ok)
	p.mu.Unlock()
	return ok
}

func (p *c13retry) GetRetryType(err error) gocql.RetryType {
	var t gocql.RetryType
	if p.inner != nil {
		t = p.inner.GetRetryType(err)
	} else {
		k := errKind(err)
		if i := strings.Index(k, "("); i > 0 {
			k = k[:i]
		}
		t = p.table[k]
	}
	p.mu.Lock()
	p.kinds = append(p.kinds, errKind(err))
	p.types = append(p.types, t)
	p.mu.Unlock()
	return t
}

type c13arrival struct {
	node  int
	seq   int64
	cons  int
	n     int // arrival number for this token on this node
	kind  string
	t     time.Time
	doneT time.Time
}

type c13nodeState struct {
	mu          sync.Mutex
	script      map[string][]string // token -> outcomes in order of global arrival
	arrivals    map[string][]*c13arrival
	seq         int64
	cancelAt    map[string]int // token -> cancel the context at this arrival index (0-based), -1 none
	cancels     map[string]context.CancelFunc
	cancelSeq   map[string]int64
	sess        *gocql.Session
	hostDowns   int64
	cancelAfter map[string]bool      // cancel a moment after the failing answer was sent (between attempts) instead of before it
	cancelT     map[string]time.Time // when cancel() had returned
}

func c13outcome(sc *fakenode.ServerConn, req *fakenode.Req, kind string) {
	switch {
	case kind == "ok":
		sc.ReplyVoid(req)
	case strings.HasPrefix(kind, "unavailable"):
		alive := int32(1)
		if strings.Contains(kind, "alive=0") {
			alive = 0
		}
		sc.ReplyError(req, &cqlref.ErrSpec{Code: 0x1000, Message: "unavailable", Consistency: 4, Required: 2, Alive: alive})
	case kind == "read-timeout":
		sc.ReplyError(req, &cqlref.ErrSpec{Code: 0x1200, Message: "read timeout", Consistency: 4, Received: 1, BlockFor: 2, DataPresent: 0})
	case strings.HasPrefix(kind, "write-timeout"):
		wt := "SIMPLE"
		recv := int32(0)
		fmt.Sscanf(kind, "write-timeout(%s", &wt)
		p := strings.Split(strings.TrimSuffix(strings.TrimPrefix(kind, "write-timeout("), ")"), ",")
		if len(p) == 2 {
			wt = p[0]
			fmt.Sscan(p[1], &recv)
		}
		sc.ReplyError(req, &cqlref.ErrSpec{Code: 0x1100, Message: "write timeout", Consistency: 4, Received: recv, BlockFor: 2, WriteType: wt})
	case kind == "overloaded":
		sc.ReplyError(req, &cqlref.ErrSpec{Code: 0x1001, Message: "overloaded"})
	case kind == "server-error":
		sc.ReplyError(req, &cqlref.ErrSpec{Code: 0x0000, Message: "scripted server error"})
	case kind == "no-answer":
		// the driver's timeout ends it
	case kind == "drop":
		sc.Close()
	case kind == "host-down":
		// never answered by the node; the driver itself closes this host's connections (see the handler)
	}
}

func (ns *c13nodeState) handler(idx int) fakenode.Handler {
	return func(sc *fakenode.ServerConn, req *fakenode.Req) {
		stmt := req.Statement
		cons := 0
		if req.Params != nil {
			cons = req.Params.Consistency
		}
		if req.Header.Op == cqlref.OpBatch {
			if len(req.BatchStmts) > 0 {
				stmt = req.BatchStmts[0].Statement
			}
			cons = req.BatchCons
		}
		if !strings.HasPrefix(stmt, "RETRY ") {
			sc.ReplyVoid(req)
			return
		}
		token := strings.TrimPrefix(stmt, "RETRY ")
		ns.mu.Lock()
		ns.seq++
		all := 0
		for _, a := range ns.arrivals[token] {
			_ = a
			all++
		}
		sc2 := ns.script[token]
		kind := "ok"
		if all < len(sc2) {
			kind = sc2[all]
		}
		a := &c13arrival{node: idx, seq: ns.seq, cons: cons, n: all, kind: kind, t: time.Now()}
		ns.arrivals[token] = append(ns.arrivals[token], a)
		cancel := ns.cancels[token]
		doCancel := false
		cancelLater := false
		if at, ok := ns.cancelAt[token]; ok && at == all {
			if ns.cancelAfter[token] {
				cancelLater = true
			} else {
				doCancel = true
				ns.cancelSeq[token] = ns.seq
			}
		}
		ns.mu.Unlock()
		if cancelLater && cancel != nil {
			// the context ends between two attempts (e.g. during the retry policy's back-off), with no request in flight
			defer func() {
				go func() {
					time.Sleep(time.Duration(60+all*40) * time.Microsecond)
					cancel()
					now := time.Now()
					ns.mu.Lock()
					ns.cancelT[token] = now
					ns.mu.Unlock()
				}()
			}()
		}
		if doCancel && cancel != nil {
			cancel()
			time.Sleep(2 * time.Millisecond) // let the caller notice before the (failing) answer arrives
		}
		if kind == "slow-overloaded" {
			// a failing answer that takes a while (other executions of the same statement start meanwhile)
			time.AfterFunc(6*time.Millisecond, func() {
				ns.mu.Lock()
				a.doneT = time.Now()
				ns.mu.Unlock()
				sc.ReplyError(req, &cqlref.ErrSpec{Code: 0x1001, Message: "overloaded"})
			})
			return
		}
		if strings.HasPrefix(kind, "slow-ok") {
			// a successful answer that takes a while (speculative executions overlap it)
			time.AfterFunc(8*time.Millisecond, func() {
				ns.mu.Lock()
				a.doneT = time.Now()
				ns.mu.Unlock()
				sc.ReplyVoid(req)
			})
			return
		}
		// stamped before the answer leaves: whatever the driver does in reaction to it comes later
		ns.mu.Lock()
		a.doneT = time.Now()
		sess := ns.sess
		ns.mu.Unlock()
		if kind == "host-down" && sess != nil {
			// the cluster reports this node DOWN while the request is in flight on it: the driver closes the
			// host's pool itself, the waiting request ends with "connection closed" (delivered the way the
			// event debouncer would, without its one-second delay)
			atomic.AddInt64(&ns.hostDowns, 1)
			ip := sc.Node.IP
			go gocql.VerifHandleNodeEvents(sess, []gocql.VerifNodeEvent{{Change: "DOWN", Host: ip, Port: 9042}})
			return
		}
		c13outcome(sc, req, kind)
	}
}

var c13failKinds = []string{"unavailable(alive=1)", "unavailable(alive=0)", "read-timeout", "write-timeout(SIMPLE,1)", "write-timeout(SIMPLE,0)", "write-timeout(UNLOGGED_BATCH,0)", "write-timeout(CAS,0)", "write-timeout(BATCH_LOG,0)", "write-timeout(VIEW,1)", "write-timeout(CDC,0)", "write-timeout(COUNTER,1)", "write-timeout(BATCH,1)", "overloaded", "server-error", "no-answer"}

func c13case(c *runner.Ctx, i int) {
	r := c.Rng
	version := 3 + i%3
	nn := 1 + r.Intn(5)
	cl := fakenode.NewCluster(nn)
	ns := &c13nodeState{script: map[string][]string{}, arrivals: map[string][]*c13arrival{}, cancelAt: map[string]int{}, cancels: map[string]context.CancelFunc{}, cancelSeq: map[string]int64{}, cancelAfter: map[string]bool{}, cancelT: map[string]time.Time{}}
	for k, nd := range cl.Nodes {
		nd.Handler = ns.handler(k)
	}
	pol := &c13policy{}
	cfg := newCfg(cl, version)
	cfg.Timeout = 40 * time.Millisecond
	cfg.PoolConfig.HostSelectionPolicy = pol
	cfg.PageSize = 0
	cfg.DefaultTimestamp = false
	clusterPolicy := r.Intn(4) == 0
	if clusterPolicy {
		// a session-wide retry policy; queries and batches that set their own (or none: RetryPolicy(nil)) override it
		cfg.RetryPolicy = &gocql.SimpleRetryPolicy{NumRetries: 3}
		c.Add("sessions_with_cluster_retry_policy", 1)
	}
	sess, err := cfg.CreateSession()
	if err != nil {
		c.Inconclusive("c13-session", err.Error())
		return
	}
	defer sess.Close()
	ns.mu.Lock()
	ns.sess = sess
	ns.mu.Unlock()
	defer func() { c.Add("host_down_while_in_flight", atomic.LoadInt64(&ns.hostDowns)) }()
	// node order as the policy offers it (by address) == cluster order
	nq := 6 + r.Intn(6)
	drops := false // sticky: once a connection was dropped, later queries may meet closed connections
	for k := 0; k < nq; k++ {
		token := fmt.Sprintf("r%d_%d", i, k)
		// script
		nfail := r.Intn(6)
		if r.Intn(4) == 0 {
			nfail = 0
		}
		var script []string
		for x := 0; x < nfail; x++ {
			kd := c13failKinds[r.Intn(len(c13failKinds))]
			if r.Intn(25) == 0 && nn > 1 {
				kd = "drop"
				drops = true
			}
			if r.Intn(20) == 0 && nn > 1 {
				kd = "host-down"
				drops = true
			}
			script = append(script, kd)
		}
		final := "ok"
		idem := r.Intn(3) != 0
		// retry policy
		var rp *c13retry
		maxRetries := 0
		polName := "none"
		switch r.Intn(6) {
		case 0:
		case 1:
			maxRetries = r.Intn(5)
			rp = &c13retry{inner: &gocql.SimpleRetryPolicy{NumRetries: maxRetries}}
			polName = fmt.Sprintf("simple(%d)", maxRetries)
		case 2:
			maxRetries = r.Intn(4)
			rp = &c13retry{inner: &gocql.ExponentialBackoffRetryPolicy{NumRetries: maxRetries, Min: 200 * time.Microsecond, Max: time.Millisecond}}
			polName = fmt.Sprintf("exponential(%d)", maxRetries)
		case 3:
			levels := []gocql.Consistency{gocql.Two, gocql.One, gocql.Any}[:1+r.Intn(3)]
			maxRetries = len(levels)
			rp = &c13retry{inner: &gocql.DowngradingConsistencyRetryPolicy{ConsistencyLevelsToTry: levels}}
			polName = fmt.Sprintf("downgrading(%d)", len(levels))
		default:
			maxRetries = r.Intn(5)
			tb := map[string]gocql.RetryType{}
			for _, kd := range []string{"unavailable", "read-timeout", "write-timeout", "overloaded", "server-error", "driver-timeout", "conn:conn-closed", "conn:no-connections", "ctx"} {
				tb[kd] = []gocql.RetryType{gocql.Retry, gocql.RetryNextHost, gocql.RetryNextHost, gocql.Ignore, gocql.Rethrow}[r.Intn(5)]
			}
			rp = &c13retry{table: tb, max: maxRetries}
			polName = fmt.Sprintf("table(%d)", maxRetries)
		}
		spec := 0
		var sp gocql.SpeculativeExecutionPolicy
		if r.Intn(4) == 0 {
			spec = 1 + r.Intn(3)
			sp = &gocql.SimpleSpeculativeExecution{NumAttempts: spec, TimeoutDelay: time.Duration(500+r.Intn(4000)) * time.Microsecond}
			if r.Intn(2) == 0 {
				final = "slow-ok"
			}
		}
		script = append(script, final)
		batch := r.Intn(5) == 0
		cancelAt := -1
		if spec == 0 && nfail > 0 && r.Intn(6) == 0 {
			cancelAt = r.Intn(nfail)
		}
		ctx, cancel := context.WithCancel(context.Background())
		ns.mu.Lock()
		ns.script[token] = script
		cancelAfter := cancelAt >= 0 && r.Intn(2) == 0
		if cancelAt >= 0 {
			ns.cancelAt[token] = cancelAt
			ns.cancels[token] = cancel
			ns.cancelAfter[token] = cancelAfter
		}
		ns.mu.Unlock()
		obs := &c13observer{}
		// nobody observes this execution (attempts are counted for the policies all the same)
		noObs := r.Intn(4) == 0
		if noObs {
			c.Add("executions_without_observer", 1)
		}
		var execErr error
		lastArrivals := -1
		stmt := "RETRY " + token
		if batch {
			c.Add("batches", 1)
			b := sess.NewBatch(gocql.UnloggedBatch).WithContext(ctx)
			b.Entries = append(b.Entries, gocql.BatchEntry{Stmt: stmt, Idempotent: idem})
			if rp != nil {
				b.RetryPolicy(rp)
			} else if clusterPolicy {
				b.RetryPolicy(nil)
			}
			if sp != nil {
				b.SpeculativeExecutionPolicy(sp)
			}
			if !noObs {
				b.Observer(obs)
			}
			c.Guard("ExecuteBatch", func() { execErr = sess.ExecuteBatch(b) })
		} else {
			q := sess.Query(stmt).WithContext(ctx).Idempotent(idem)
			if !noObs {
				q.Observer(obs)
			}
			if rp != nil {
				q.RetryPolicy(rp)
			} else if clusterPolicy {
				q.RetryPolicy(nil)
			}
			if sp != nil {
				q.SetSpeculativeExecutionPolicy(sp)
			}
			c.Guard("Query.Exec", func() { execErr = q.Exec() })
		}
		cancel()
		// speculative executions may still be running: wait for the arrivals to settle
		if spec > 0 {
			time.Sleep(30 * time.Millisecond)
		}
		// The nodes must have read everything the driver wrote before their logs are judged (a request
		// the driver already gave up on may still sit in the pipe on a loaded machine).
		for settle, quiet := 0, 0; settle < 1000 && quiet < 3; settle++ {
			pending := 0
			for _, sc := range cl.AllConns() {
				pending += sc.C.Pending()
			}
			ns.mu.Lock()
			cur := len(ns.arrivals[token])
			ns.mu.Unlock()
			if pending == 0 && cur == lastArrivals {
				quiet++
			} else {
				quiet = 0
			}
			lastArrivals = cur
			time.Sleep(2 * time.Millisecond)
		}
		ns.mu.Lock()
		var arr []*c13arrival
		for _, a := range ns.arrivals[token] {
			cp := *a // value copy: the node's goroutines may still stamp doneT
			arr = append(arr, &cp)
		}
		cseq := ns.cancelSeq[token]
		ns.mu.Unlock()
		key := fmt.Sprintf("v%d nodes=%d script=%v policy=%s spec=%d idem=%v batch=%v cancelAt=%d", version, nn, script, polName, spec, idem, batch, cancelAt)
		c.Eval(runner.H("c13", key), nfail > 0 || spec > 0)
		var as []string
		for _, a := range arr {
			as = append(as, fmt.Sprintf("node%d:%s(cons %#x)", a.node, a.kind, a.cons))
		}
		wit := map[string]interface{}{"scenario": key, "arrivals": as, "result": fmt.Sprint(execErr)}
		if rp != nil {
			rp.mu.Lock()
			wit["policy_attempt_calls"] = fmt.Sprint(rp.attempts, rp.allowed)
			wit["policy_decisions"] = fmt.Sprint(rp.kinds, rp.types)
			rp.mu.Unlock()
		}
		fail := func(k, what string) { c.Violation("C13:"+k, what, wit) }
		if !idem {
			c.Add("non_idempotent", 1)
		}
		if spec > 0 {
			c.Add("speculative", 1)
		}
		if cancelAt >= 0 {
			c.Add("ctx_cancelled", 1)
		}
		if len(arr) == 0 {
			if drops || classifyErr(execErr) == "no-connections" || classifyErr(execErr) == "conn-closed" {
				// nobody to send it to (scripted): not a finding
			} else if loadLike(execErr) {
				// a starved machine: the driver's timeout expired before the request got anywhere
				c.Inconclusive("c13-timeout", "the query reached no server: "+fmt.Sprint(execErr))
			} else {
				fail("never-sent", "the query reached no server at all: "+fmt.Sprint(execErr))
			}
			continue
		}
		// the attempts as the driver itself reports them (includes attempts that never reached a node)
		obs.mu.Lock()
		att := append([]c13attempt{}, obs.att...)
		obs.mu.Unlock()
		hostIdx := func(a c13attempt) int {
			for x, nd := range cl.Nodes {
				if nd.IP.String() == a.host {
					return x
				}
			}
			return -1
		}
		wit["attempts_observed"] = fmt.Sprint(att)
		// --- the contract
		if !idem {
			// never executed speculatively, never retried
			if len(arr) != 1 {
				// Retried one attempt after the other, or executed concurrently (speculatively)? Decided on the
				// driver's own record of its attempts: two attempts overlap only if the driver ran them at the
				// same time. (The nodes' clocks cannot tell: under load an answer can outlive the driver's
				// timeout, and the retry then reaches the next node while the first is still answering.)
				seq := rp != nil
				for x := range att {
					for y := x + 1; y < len(att); y++ {
						if att[x].start.Before(att[y].end) && att[y].start.Before(att[x].end) {
							seq = false
						}
					}
				}
				if seq {
					fail("non-idempotent-retried", fmt.Sprintf("a query not marked idempotent was retried by the retry policy: it reached servers %d times", len(arr)))
				} else {
					fail("non-idempotent-executed-concurrently", fmt.Sprintf("a query not marked idempotent reached servers %d times, not explained by sequential retries", len(arr)))
				}
			}
			if execErr != nil && len(att) == 1 && att[0].kind == "ok" {
				fail("wrong-result", fmt.Sprintf("the only attempt succeeded but the caller got %v", execErr))
			}
			continue
		}
		if rp == nil && spec == 0 && len(arr) != 1 {
			fail("retried-without-policy", fmt.Sprintf("no retry or speculative policy, yet the query reached servers %d times", len(arr)))
			continue
		}
		if spec == 0 {
			// sequential executor: replay the decisions
			if len(arr) > 1+maxRetries {
				fail("attempt-budget-exceeded", fmt.Sprintf("%d arrivals with a policy that allows %d retries", len(arr), maxRetries))
			}
			// (a scripted success that reaches the driver after its timeout is a timeout for the driver: judged on what
			// the driver itself recorded for that attempt)
			for x := 0; x+1 < len(arr) && len(att) == len(arr); x++ {
				if arr[x].kind == "ok" && att[x].kind == "ok" {
					fail("retried-after-success", fmt.Sprintf("attempt %d succeeded but another attempt followed", x))
					break
				}
			}
			if rp != nil {
				rp.mu.Lock()
				types := append([]gocql.RetryType{}, rp.types...)
				allowed := append([]bool{}, rp.allowed...)
				rp.mu.Unlock()
				// each failed attempt x is followed by Attempt() and, if allowed, by GetRetryType()
				ti := 0
				for x := 0; x < len(arr); x++ {
					if arr[x].kind == "ok" {
						break
					}
					if cancelAt >= 0 && x >= cancelAt {
						break
					}
					if x >= len(allowed) {
						break
					}
					if !allowed[x] {
						c.Add("budget_exhausted", 1)
						if x+1 < len(arr) {
							fail("retry-after-budget", fmt.Sprintf("the policy refused a further attempt after attempt %d, yet attempt %d arrived", x, x+1))
						}
						break
					}
					if ti >= len(types) {
						break
					}
					t := types[ti]
					ti++
					switch t {
					case gocql.Retry:
						c.Add("retry_same_host", 1)
						if x+1 < len(arr) && !drops && len(att) == len(arr) && hostIdx(att[x+1]) != hostIdx(att[x]) {
							fail("retry-wrong-host", fmt.Sprintf("decision Retry (same host) after attempt %d on node %d, but the next attempt went to node %d", x, hostIdx(att[x]), hostIdx(att[x+1])))
						}
						if x+1 >= len(arr) && !drops && cancelAt < 0 && len(att) == len(arr) {
							fail("retry-dropped", fmt.Sprintf("decision Retry after attempt %d but no further attempt arrived (result %v)", x, execErr))
						}
					case gocql.RetryNextHost:
						c.Add("retry_next_host", 1)
						if x+1 < len(arr) && !drops && len(att) == len(arr) && hostIdx(att[x+1]) != hostIdx(att[x])+1 {
							fail("retry-wrong-host", fmt.Sprintf("decision RetryNextHost after attempt %d on node %d, but the next attempt went to node %d", x, hostIdx(att[x]), hostIdx(att[x+1])))
						}
					case gocql.Rethrow, gocql.Ignore:
						c.Add("rethrow_or_ignore", 1)
						if x+1 < len(arr) {
							fail("retry-after-rethrow", fmt.Sprintf("decision %v after attempt %d, yet attempt %d arrived", t, x, x+1))
						}
					}
					if t == gocql.Rethrow || t == gocql.Ignore {
						break
					}
				}
				// downgrading policy, as documented: of the write timeouts only an UNLOGGED_BATCH one is retried, and an
				// Unavailable only if a replica is alive - whatever else the policy makes of such an error, it is not
				// another attempt (decided on the errors the policy itself was shown)
				if _, ok := rp.inner.(*gocql.DowngradingConsistencyRetryPolicy); ok {
					rp.mu.Lock()
					kinds := append([]string{}, rp.kinds...)
					rp.mu.Unlock()
					for x, k := range kinds {
						if x >= len(types) {
							break
						}
						if (strings.HasPrefix(k, "write-timeout(") && !strings.HasPrefix(k, "write-timeout(UNLOGGED_BATCH")) || k == "unavailable(alive=0)" {
							c.Add("downgrading_policy_final_errors", 1)
							if types[x] == gocql.Retry || types[x] == gocql.RetryNextHost {
								fail("downgrading:retried-after:"+strings.SplitN(k, ",", 2)[0], fmt.Sprintf("the downgrading-consistency policy answered %v to %s, which it documents as not retried", types[x], k))
								break
							}
						}
					}
				}
				// downgrading policy: retry k carries consistency level k-1 of the list
				if d, ok := rp.inner.(*gocql.DowngradingConsistencyRetryPolicy); ok && !batch && len(att) == len(arr) {
					for x := 1; x < len(arr) && x-1 < len(d.ConsistencyLevelsToTry); x++ {
						if arr[x].cons != int(d.ConsistencyLevelsToTry[x-1]) {
							fail("downgrade-consistency", fmt.Sprintf("retry %d carries consistency %#x, the policy set %#x", x, arr[x].cons, int(d.ConsistencyLevelsToTry[x-1])))
							break
						}
					}
				}
			}
			// context cancellation stops further attempts
			if cancelAt >= 0 && cancelAfter {
				c.Add("ctx_cancelled_between_attempts", 1)
				ns.mu.Lock()
				ct, has := ns.cancelT[token]
				ns.mu.Unlock()
				if has && !noObs {
					// attempts the driver itself records as started after cancel() had returned cannot have put a request
					// on the wire: at most as many requests reach servers as attempts were started up to then
					allowed := 0
					for _, a := range att {
						if !a.start.After(ct) {
							allowed++
						}
					}
					if len(arr) > allowed {
						fail("attempt-after-cancel:between-attempts", fmt.Sprintf("%d requests reached servers although only %d attempts had been started when the context was cancelled (between attempts)", len(arr), allowed))
					}
				}
			} else if cancelAt >= 0 {
				for _, a := range arr {
					if a.seq > cseq && cseq > 0 {
						fail("attempt-after-cancel", fmt.Sprintf("the context was cancelled during attempt %d, yet a later attempt arrived on node %d", cancelAt, a.node))
						break
					}
				}
				if execErr == nil {
					fail("cancel-ignored", "the context was cancelled while every attempt so far had failed, yet the caller got no error")
				}
			} else {
				// the caller's error is the last attempt's, as the driver itself observed that attempt
				// (a scripted success that arrives after the driver's timeout IS a timeout for the driver)
				if len(att) > 0 {
					last := att[len(att)-1]
					got := errKind(execErr)
					switch {
					case last.kind == "ok":
						if execErr != nil {
							fail("wrong-result", fmt.Sprintf("the last attempt succeeded but the caller got %v", execErr))
						}
					case strings.HasPrefix(last.kind, "conn:"):
					default:
						if execErr == nil {
							fail("error-swallowed", fmt.Sprintf("the last attempt failed with %s but the caller got no error", last.kind))
						} else if got != last.kind && !strings.HasPrefix(got, "conn:") {
							fail("wrong-error", fmt.Sprintf("the last attempt failed with %s but the caller got %q", last.kind, execErr.Error()))
						}
					}
				}
			}
		} else {
			// speculative executions
			bound := maxRetries + 2*(1+spec)
			if rp == nil {
				bound = 1 + spec // no retry policy: one arrival per execution, 1 + N executions
			}
			if len(arr) > bound {
				fail("attempt-budget-exceeded", fmt.Sprintf("%d arrivals with %d retries and %d speculative executions allowed (bound %d)", len(arr), maxRetries, spec, bound))
			}
			okSeen := false
			for _, a := range arr {
				if a.kind == "ok" || a.kind == "slow-ok" {
					okSeen = true
				}
			}
			if okSeen && execErr != nil && !errors.Is(execErr, context.Canceled) {
				// some execution succeeded; the first to complete wins, which may legitimately be a failed one
				c.SetAdd("speculative_results", "error-although-one-succeeded:"+errKind(execErr))
			}
		}
		if c.WantSample() {
			c.Sample(wit)
		}
	}
	// a Batch object that is executed, changed through its exported Entries field, and executed again: whether
	// copies of one Query / Batch made with WithContext (they share the original's attempt accounting), executed at
	// overlapping times, each with its own consistency level so that the nodes can tell them apart: none of them
	// reaches servers more often than the retry policy allows one execution
	if !drops && i%3 == 1 {
		tok := fmt.Sprintf("wc%d", i)
		var script []string
		for k := 0; k < 40; k++ {
			script = append(script, "slow-overloaded")
		}
		ns.mu.Lock()
		ns.script[tok] = script
		ns.mu.Unlock()
		retries := 1 + r.Intn(2)
		levels := []gocql.Consistency{gocql.One, gocql.Two, gocql.Three, gocql.Quorum, gocql.LocalQuorum}[:3+r.Intn(3)]
		asBatch := version >= 2 && r.Intn(2) == 0
		baseQ := sess.Query("RETRY " + tok).Idempotent(true).RetryPolicy(&gocql.SimpleRetryPolicy{NumRetries: retries})
		baseB := sess.NewBatch(gocql.UnloggedBatch).RetryPolicy(&gocql.SimpleRetryPolicy{NumRetries: retries})
		baseB.Entries = append(baseB.Entries, gocql.BatchEntry{Stmt: "RETRY " + tok, Idempotent: true})
		var wg sync.WaitGroup
		for k, cn := range levels {
			wg.Add(1)
			go func(k int, cn gocql.Consistency) {
				defer wg.Done()
				time.Sleep(time.Duration(k*3) * time.Millisecond)
				if asBatch {
					b := baseB.WithContext(context.Background())
					b.Cons = cn
					c.Guard("ExecuteBatch", func() { sess.ExecuteBatch(b) })
				} else {
					q := baseQ.WithContext(context.Background())
					q.Consistency(cn)
					c.Guard("Query.Exec", func() { q.Exec() })
				}
			}(k, cn)
		}
		wg.Wait()
		time.Sleep(15 * time.Millisecond)
		per := map[int]int{}
		ns.mu.Lock()
		for _, a := range ns.arrivals[tok] {
			per[a.cons]++
		}
		ns.mu.Unlock()
		c.Add("overlapping_executions_of_WithContext_copies", int64(len(levels)))
		for _, cn := range levels {
			if per[int(cn)] > 1+retries {
				c.Violation("C13:attempt-budget-exceeded:with-context-copies", fmt.Sprintf("the execution at consistency %v reached servers %d times, its retry policy allows %d retries (copies of one %s made with WithContext, executed at overlapping times)", cn, per[int(cn)], retries, map[bool]string{true: "Batch", false: "Query"}[asBatch]),
					map[string]interface{}{"arrivals_per_consistency": fmt.Sprint(per), "retries_allowed": retries})
				break
			}
		}
	}
	// it may be executed speculatively is a property of the entries it holds at that time
	if nn >= 2 && !drops {
		ta, tb := fmt.Sprintf("rb%d_a", i), fmt.Sprintf("rb%d_b", i)
		ns.mu.Lock()
		ns.script[ta] = []string{"slow-ok", "slow-ok", "slow-ok", "slow-ok"}
		ns.script[tb] = []string{"slow-ok", "slow-ok", "slow-ok", "slow-ok"}
		ns.mu.Unlock()
		b := sess.NewBatch(gocql.UnloggedBatch)
		// (the first execution must leave nothing behind that could still read the batch when its entries are
		// changed: its speculative executions are a matter of timers, so their delay is out of reach for that one)
		spol := &c13specDelay{attempts: 2}
		spol.set(time.Hour)
		b.SpeculativeExecutionPolicy(spol)
		// no retry policy (the session may have a default one): a driver timeout on a starved machine must not
		// add arrivals that would be mistaken for speculative executions
		b.RetryPolicy(nil)
		b.Entries = append(b.Entries, gocql.BatchEntry{Stmt: "RETRY " + ta, Idempotent: true})
		var e1, e2 error
		c.Guard("ExecuteBatch", func() { e1 = sess.ExecuteBatch(b) })
		spol.set(time.Millisecond)
		switch r.Intn(3) {
		case 0:
			b.Entries = append(b.Entries[:0], gocql.BatchEntry{Stmt: "RETRY " + tb, Idempotent: false})
		case 1:
			b.Entries = []gocql.BatchEntry{{Stmt: "RETRY " + tb, Idempotent: true}, {Stmt: "RETRY other", Idempotent: false}}
		default:
			b.Entries[0] = gocql.BatchEntry{Stmt: "RETRY " + tb, Idempotent: false}
		}
		c.Guard("ExecuteBatch", func() { e2 = sess.ExecuteBatch(b) })
		time.Sleep(30 * time.Millisecond)
		for settle, quiet, last := 0, 0, -1; settle < 1000 && quiet < 3; settle++ {
			pending := 0
			for _, sc := range cl.AllConns() {
				pending += sc.C.Pending()
			}
			ns.mu.Lock()
			cur := len(ns.arrivals[tb])
			ns.mu.Unlock()
			if pending == 0 && cur == last {
				quiet++
			} else {
				quiet = 0
			}
			last = cur
			time.Sleep(2 * time.Millisecond)
		}
		ns.mu.Lock()
		na, nb := len(ns.arrivals[ta]), len(ns.arrivals[tb])
		ns.mu.Unlock()
		c.Add("batch_reused_after_entries_changed", 1)
		if na != 1 {
			c.Inconclusive("c13-reused-batch", fmt.Sprintf("the first execution (speculative delay: one hour) reached servers %d times", na))
		}
		if nb == 1 {
			// and once more with idempotent entries only: now the speculative executions do happen
			tc := fmt.Sprintf("rb%d_c", i)
			ns.mu.Lock()
			ns.script[tc] = []string{"slow-ok", "slow-ok", "slow-ok", "slow-ok"}
			ns.mu.Unlock()
			b.Entries = []gocql.BatchEntry{{Stmt: "RETRY " + tc, Idempotent: true}}
			c.Guard("ExecuteBatch", func() { sess.ExecuteBatch(b) })
			time.Sleep(20 * time.Millisecond)
			ns.mu.Lock()
			nc := len(ns.arrivals[tc])
			ns.mu.Unlock()
			if nc > 1 {
				c.Add("speculative_batch_executions_seen", 1)
			}
		}
		if nb > 1 {
			c.Violation("C13:non-idempotent-executed-concurrently:reused-batch", fmt.Sprintf("a batch holding an entry not marked idempotent reached servers %d times: it was executed speculatively because the same Batch object was all-idempotent when it was executed before", nb),
				map[string]interface{}{"first_execution_arrivals": na, "second_execution_arrivals": nb, "results": fmt.Sprint(e1, e2)})
		}
	}
	for _, b := range cl.BadFrames {
		c.Violation("C13:malformed-request", clipS(b), nil)
	}
}

type c13attempt struct {
	host       string
	kind       string
	n          int
	start, end time.Time // the driver's own record of the attempt
}

func (a c13attempt) String() string { return fmt.Sprintf("{%s %s %d}", a.host, a.kind, a.n) }

type c13observer struct {
	n   int64
	mu  sync.Mutex
	att []c13attempt
}

func (o *c13observer) add(h *gocql.HostInfo, err error, n int, start, end time.Time) {
	atomic.AddInt64(&o.n, 1)
	a := c13attempt{kind: errKind(err), n: n, start: start, end: end}
	if h != nil {
		a.host = h.ConnectAddress().String()
	}
	o.mu.Lock()
	o.att = append(o.att, a)
	o.mu.Unlock()
}

func (o *c13observer) ObserveQuery(ctx context.Context, q gocql.ObservedQuery) {
	o.add(q.Host, q.Err, q.Attempt, q.Start, q.End)
}
func (o *c13observer) ObserveBatch(ctx context.Context, b gocql.ObservedBatch) {
	o.add(b.Host, b.Err, b.Attempt, b.Start, b.End)
}

// c13accounting: every retry policy decides on the query's attempt count, and concurrent (speculative) executions of
// one query record their attempts at the same time. Driven through the executor's own bookkeeping call from several
// goroutines: no attempt may get lost, and every attempt gets its own number.
func c13accounting(c *runner.Ctx, i int) {
	r := c.Rng
	cl := fakenode.NewCluster(1)
	cfg := newCfg(cl, 4)
	sess, err := cfg.CreateSession()
	if err != nil {
		c.Inconclusive("c13-session", err.Error())
		return
	}
	defer sess.Close()
	hosts := []*gocql.HostInfo{gocql.VerifNewHostInfo("h1", []byte{10, 0, 0, 1}, 9042, "dc", "r", nil, true), gocql.VerifNewHostInfo("h2", []byte{10, 0, 0, 2}, 9042, "dc", "r", nil, true)}
	ng := 2 + r.Intn(7)
	per := 1000 + r.Intn(3000)
	for _, kind := range []string{"query", "batch"} {
		obs := &c13numbers{seen: map[int]int{}}
		var eq gocql.ExecutableQuery
		var attempts func() int
		if kind == "query" {
			q := sess.Query("RETRY accounting").Observer(obs)
			eq, attempts = q, q.Attempts
		} else {
			b := sess.NewBatch(gocql.UnloggedBatch).Observer(obs)
			eq, attempts = b, b.Attempts
		}
		var wg sync.WaitGroup
		start := make(chan struct{})
		for g := 0; g < ng; g++ {
			wg.Add(1)
			go func(g int) {
				defer wg.Done()
				<-start
				for k := 0; k < per; k++ {
					gocql.VerifRecordAttempt(eq, hosts[(g+k)%2])
				}
			}(g)
		}
		close(start)
		wg.Wait()
		want := ng * per
		c.Add("attempts_recorded_concurrently", int64(want))
		c.Eval(runner.H("c13acc", kind, ng, per), true)
		wit := map[string]interface{}{"kind": kind, "goroutines": ng, "attempts_each": per}
		if got := attempts(); got != want {
			c.Violation("C13:attempt-count-lost-update:"+kind, fmt.Sprintf("%d attempts were recorded by %d concurrent executions but Attempts() = %d: retry policies would allow %d attempts too many", want, ng, got, want-got), wit)
		}
		obs.mu.Lock()
		dups, n := 0, 0
		for _, k := range obs.seen {
			n += k
			if k > 1 {
				dups++
			}
		}
		obs.mu.Unlock()
		if n != want || dups > 0 {
			c.Violation("C13:attempt-number-not-unique:"+kind, fmt.Sprintf("the observer saw %d attempts (want %d), %d attempt numbers were handed out more than once", n, want, dups), wit)
		}
	}
}

type c13numbers struct {
	mu   sync.Mutex
	seen map[int]int
}

func (o *c13numbers) ObserveQuery(ctx context.Context, q gocql.ObservedQuery) {
	o.mu.Lock()
	o.seen[q.Attempt]++
	o.mu.Unlock()
}
func (o *c13numbers) ObserveBatch(ctx context.Context, b gocql.ObservedBatch) {
	o.mu.Lock()
	o.seen[b.Attempt]++
	o.mu.Unlock()
}

// c13specDelay: a speculative execution policy whose delay the scenario can change between two executions.
type c13specDelay struct {
	attempts int
	delay    int64
}

func (p *c13specDelay) set(d time.Duration)  { atomic.StoreInt64(&p.delay, int64(d)) }
func (p *c13specDelay) Attempts() int        { return p.attempts }
func (p *c13specDelay) Delay() time.Duration { return time.Duration(atomic.LoadInt64(&p.delay)) }
