package props

import (
	"fmt"
	"math/rand"
	"net"
	"sort"
	"strings"
	"sync"
	"sync/atomic"
	"time"

	"github.com/gocql/gocql"

	"verifharness/cqlref"
	"verifharness/fakenode"
	"verifharness/perturb"
	"verifharness/runner"
)

// C16: the driver's picture of the cluster follows what the cluster reports.

func init() {
	runner.Register(&runner.Prop{
		ID: "C16", Level: "exploration",
		Technique: "runtime monitor: a scripted cluster's membership table is mutated by a generated history; after every step, at quiescence, the session's ring indexes (by id, by address, ordered list), connection pools, the selection policy's offer and the nodes' own connection tables are compared with a model of what the cluster last reported; race detector",
		Rule: "case = one session over 2..5 scripted nodes and a history of 10..16 steps drawn from {node added, node removed, node changes address, host id replaced on the same address, invalid peer rows, duplicated peer row, DOWN / UP status events with the node really going down / up, events for unknown addresses, failing peers query, control connection lost, queries}; direct histories deliver refreshes and event batches through verif hooks (no 1 s debounce), real-time histories push EVENT frames on the control connection; " +
			"distinct = hash of the history; non-trivial = the history contains at least one membership change",
		Assumptions: []string{
			"quiescence is operational: no dial in progress, node-side connection tables and pool snapshots unchanged for 40 ms, bounded by 4 s (all driver timeouts in these scenarios are <= 200 ms); a mismatch must persist over that wait to count",
			"the model: nodes known = local node + valid peers (rpc_address, host_id, data_center, rack, tokens all present); a duplicated row counts once",
		},
		RaceOwner: func(fns []string) bool {
			for _, f := range fns {
				if strings.Contains(f, "(*ring)") || strings.Contains(f, "refreshRing") || strings.Contains(f, "handleNode") || strings.Contains(f, "ringDescriber") || strings.Contains(f, "HostInfo") || strings.Contains(f, "policyConnPool") {
					return true
				}
			}
			return false
		},
		Phases: func(tier string) []runner.Phase {
			n, rt := 160, 8
			if tier == "thorough" {
				n, rt = 6000, 64
			}
			return []runner.Phase{
				{Name: "direct", Variant: "race", Cases: n, Run: c16direct, CaseTimeout: 180 * time.Second,
					Required: []string{"steps", "sessions_with_token_aware_policy", "step_down_vanish_return", "step_leave_while_reconnecting", "step_add", "step_remove", "step_readdress", "step_replace_id", "step_invalid_rows", "step_duplicate_row", "step_down", "step_up", "step_refresh_failure", "step_control_loss", "step_flap", "step_event_for_removed", "step_peer_address_change", "step_join_during_control_outage", "step_filter_rejects_known_node", "step_join_announced_by_up_only", "step_removed_event_for_live_address", "step_join_listed_after_duplicate", "sessions_with_host_filter", "consistency_checks"}},
				{Name: "realtime", Variant: "race", Cases: rt, Shards: 8, Run: c16realtime, CaseTimeout: 180 * time.Second, Required: []string{"event_bursts", "refresh_overlaps"}},
			}
		},
	})
}

type c16model struct {
	downSeen   map[*fakenode.Node]bool // down nodes whose state has been verified once since they went down
	tokenAware bool                    // the session uses a token-aware policy over the keyspace ks1 (replication factor 1)
	cl         *fakenode.Cluster
	mu         sync.Mutex // dup, extra: read by the nodes' goroutines
	down       map[*fakenode.Node]bool
	extra      []fakenode.PeerRow // invalid rows currently reported
	dup        *fakenode.Node     // node whose row is reported twice
	nextIP     int
	nextID     int
	removed    []*fakenode.Node
	oldIDs     []string
	oldIPs     []string
	denied     map[string]bool // connect addresses the session's HostFilter rejects at the moment (nil = no filter configured)
}

// peerAddr is the address the ring indexes a node by (its node-to-node address).
func peerAddr(n *fakenode.Node) net.IP {
	if n.PeerIP != nil {
		return n.PeerIP
	}
	return n.IP
}

func uuidString(b [16]byte) string {
	return fmt.Sprintf("%x-%x-%x-%x-%x", b[0:4], b[4:6], b[6:8], b[8:10], b[10:16])
}

func c16id(k int) (u [16]byte) {
	for i := range u {
		u[i] = byte(0xc0 + k%32)
	}
	u[14], u[15] = byte(k>>8), byte(k)
	u[6] = u[6]&0x0f | 0x40
	u[8] = u[8]&0x3f | 0x80
	return
}

func (m *c16model) isDenied(n *fakenode.Node) bool {
	m.mu.Lock()
	defer m.mu.Unlock()
	return m.denied != nil && m.denied[n.IP.String()]
}

func (m *c16model) peersView(n *fakenode.Node) []fakenode.PeerRow {
	var rows []fakenode.PeerRow
	for _, o := range m.cl.Snapshot() {
		if o == n {
			continue
		}
		r := m.cl.RowFor(o)
		rows = append(rows, r)
		m.mu.Lock()
		d := m.dup == o
		m.mu.Unlock()
		if d {
			rows = append(rows, r)
		}
	}
	m.mu.Lock()
	rows = append(rows, m.extra...)
	m.mu.Unlock()
	return rows
}

// c16wait waits for the session to settle; returns a description of what is still wrong after the bound.
func c16quiesce(sess *gocql.Session, m *c16model) {
	sig := func() string {
		var s []string
		for _, n := range m.cl.Snapshot() {
			s = append(s, fmt.Sprintf("%s:%d", n.IP, len(n.OpenConns())))
		}
		for _, p := range gocql.VerifPoolSnapshot(sess) {
			s = append(s, fmt.Sprintf("%s/%d/%v", p.HostID, len(p.Conns), p.Filling))
		}
		s = append(s, fmt.Sprint(atomic.LoadInt64(&m.cl.Dials)))
		sort.Strings(s)
		return strings.Join(s, ",")
	}
	last := sig()
	stable := 0
	deadline := time.Now().Add(4 * time.Second)
	for time.Now().Before(deadline) {
		time.Sleep(10 * time.Millisecond)
		cur := sig()
		filling := false
		for _, p := range gocql.VerifPoolSnapshot(sess) {
			if p.Filling {
				filling = true
			}
		}
		// every up node the driver should know has a connection?
		settled := !filling
		if settled {
			for _, n := range m.cl.Snapshot() {
				if !m.down[n] && !m.isDenied(n) && n.DataConnsOpen() == 0 {
					settled = false
				}
			}
		}
		if cur == last && settled {
			stable++
			// gocql's own back-off sleeps after a failed pool fill are up to 131 ms; a settled picture has to outlast them
			if stable >= 17 {
				return
			}
		} else {
			stable = 0
		}
		last = cur
	}
}

// c16settle lets reconnect attempts that the driver started on its own (after connections
// were lost) run to completion, including gocql's back-off sleeps, without judging the result.
func c16settle(sess *gocql.Session, m *c16model) {
	last := ""
	stable := 0
	for i := 0; i < 200 && stable < 20; i++ {
		time.Sleep(10 * time.Millisecond)
		cur := fmt.Sprint(atomic.LoadInt64(&m.cl.Dials))
		for _, p := range gocql.VerifPoolSnapshot(sess) {
			cur += fmt.Sprintf("|%s/%d/%v", p.HostID, len(p.Conns), p.Filling)
		}
		if cur == last {
			stable++
		} else {
			stable = 0
		}
		last = cur
	}
}

var c16patience int32 // mismatches this worker process has waited out so far

// c16verify compares the session's view with the model. Returns problems (key, text).
func c16verify(sess *gocql.Session, m *c16model, pol gocql.HostSelectionPolicy) [][2]string {
	var out [][2]string
	add := func(k, f string, a ...interface{}) { out = append(out, [2]string{k, fmt.Sprintf(f, a...)}) }
	byID, byAddr, list := gocql.VerifRingSnapshot(sess)
	want := map[string]*fakenode.Node{}
	for _, n := range m.cl.Snapshot() {
		if m.isDenied(n) {
			continue // rejected by the host filter: must be absent like a node the cluster does not report
		}
		want[uuidString(n.HostID)] = n
	}
	for id, n := range want {
		h, ok := byID[id]
		if !ok {
			add("ring:node-missing", "node %s (%s) is reported by the cluster but missing from the ring (by id)", id, n.IP)
			continue
		}
		if h.Connect != n.IP.String() {
			add("ring:stale-address", "node %s is at %s but the ring records %s", id, n.IP, h.Connect)
		}
		if h.DC != n.DC || h.Rack != n.Rack {
			add("ring:stale-details", "node %s: ring has dc/rack %s/%s, cluster reports %s/%s", id, h.DC, h.Rack, n.DC, n.Rack)
		}
		pa := peerAddr(n).String()
		if got, ok := byAddr[pa]; !ok || got != id {
			add("ring:by-address-index", "address %s of node %s resolves to %q (present=%v) in the by-address index", pa, id, got, ok)
		}
		gid, found, nilHost := gocql.VerifHostByIP(sess, pa)
		if !found || nilHost || gid != id {
			add("ring:lookup-by-address", "lookup of %s gives id %q found=%v nil=%v, want %s", pa, gid, found, nilHost, id)
		}
	}
	zero := "00000000-0000-0000-0000-000000000000"
	for id, h := range byID {
		if want[id] == nil {
			if id == zero {
				add("invalid-peer-accepted:null-host-id", "a peer row with a null host_id (address %s) was taken into the ring as host 00000000-0000-0000-0000-000000000000", h.Connect)
				continue
			}
			add("ring:node-not-removed", "the ring still holds node %s (%s) which the cluster no longer reports", id, h.Connect)
		}
	}
	for a, id := range byAddr {
		n := want[id]
		if id == zero {
			continue
		}
		if n == nil || peerAddr(n).String() != a {
			add("ring:stale-address-entry", "by-address index maps %s to %s, which is not a current (address, node) pair", a, id)
		}
	}
	seen := map[string]bool{}
	for _, id := range list {
		if seen[id] {
			add("ring:list-duplicate", "node %s appears twice in the ring's ordered list", id)
		}
		seen[id] = true
		if want[id] == nil && id != zero {
			add("ring:list-stale", "the ring's ordered list still holds %s", id)
		}
	}
	for id := range want {
		if !seen[id] {
			add("ring:list-missing", "the ring's ordered list lacks %s", id)
		}
	}
	// pools
	pools := map[string]gocql.VerifPool{}
	for _, p := range gocql.VerifPoolSnapshot(sess) {
		pools[p.HostID] = p
	}
	for id, n := range want {
		p, ok := pools[id]
		if m.down[n] {
			// judged when the node has just been reported down ("... until it is connected again": a node that is
			// reachable may legitimately be connected to again later, by whatever makes the driver try)
			if ok && len(p.Conns) > 0 && !m.downSeen[n] {
				add("pool:down-node-has-connections", "node %s is down but its pool holds %d connections", id, len(p.Conns))
			}
			continue
		}
		if !ok || len(p.Conns) == 0 {
			add("pool:up-node-not-connected", "node %s (%s) is up and known but has no pooled connection", id, n.IP)
		}
	}
	for id, p := range pools {
		if want[id] == nil && !p.Closed && id != zero {
			add("pool:removed-node-has-pool", "a pool for %s (%s) exists although the cluster no longer reports that node", id, p.Addr)
		}
	}
	for _, n := range m.removed {
		for _, a := range []net.IP{n.IP, peerAddr(n)} {
			reused := false
			for _, o := range m.cl.Snapshot() {
				if o.IP.Equal(a) || peerAddr(o).Equal(a) {
					reused = true
				}
			}
			if reused {
				continue
			}
			if gid, found, nilHost := gocql.VerifHostByIP(sess, a.String()); found {
				add("ring:lookup-finds-removed-node", "lookup of %s (address of a removed node) reports found=true (id %q, nil host=%v)", a, gid, nilHost)
			}
		}
		if k := n.DataConnsOpen(); k > 0 {
			add("pool:connection-to-removed-node", "%d connections to the removed node %s are still open", k, n.IP)
		}
	}
	// the token-aware policy's own picture: a token reported by a known node is owned by that node; a token of a
	// node the cluster no longer reports is owned by somebody who is still there (an absent placement - the keyspace
	// could not be described at the time - is not judged)
	if m.tokenAware {
		// (only tokens that one node alone reports say who owns them)
		tokN := map[string]int{}
		for _, n := range m.cl.Snapshot() {
			for _, t := range n.Tokens {
				tokN[t]++
			}
		}
		for _, n := range m.removed {
			if len(n.Tokens) > 0 && tokN[n.Tokens[0]] > 0 {
				tokN[n.Tokens[0]] += 2
			}
		}
		for id, n := range want {
			if len(n.Tokens) == 0 || tokN[n.Tokens[0]] != 1 {
				continue
			}
			hs, _ := gocql.VerifTokenAwareReplicas(pol, "ks1", n.Tokens[0])
			if len(hs) > 0 && hs[0].HostID() != id {
				add("policy:token-ring:wrong-owner", "token %s is reported by node %s (%s), the token-aware policy has it owned by %s", n.Tokens[0], id, n.IP, hs[0].HostID())
			}
		}
		for _, n := range m.removed {
			rid := uuidString(n.HostID)
			if want[rid] != nil || len(n.Tokens) == 0 || tokN[n.Tokens[0]] != 0 {
				continue
			}
			hs, _ := gocql.VerifTokenAwareReplicas(pol, "ks1", n.Tokens[0])
			if len(hs) > 0 && hs[0].HostID() == rid {
				add("policy:token-ring:removed-node-owns-range", "the token-aware policy still has token %s owned by %s (%s), which the cluster no longer reports", n.Tokens[0], rid, n.IP)
			}
		}
	}
	// what the policy offers
	offered := map[string]bool{}
	nx := pol.Pick(nil)
	for i := 0; i < 64; i++ {
		sh := nx()
		if sh == nil {
			break
		}
		if sh.Info() == nil {
			add("policy:nil-host", "the selection policy offers a nil host")
			continue
		}
		offered[sh.Info().HostID()] = true
	}
	for id, n := range want {
		if m.down[n] {
			// whether the policy still lists a down node is not observable to a user; that no query reaches it is (checked by the caller)
		} else if !offered[id] {
			add("policy:up-node-not-offered", "node %s (%s) is up but the policy never offers it", id, n.IP)
		}
	}
	for id := range offered {
		if want[id] == nil && id != zero {
			add("policy:removed-node-offered", "the policy offers %s which the cluster no longer reports", id)
		}
	}
	return out
}

func c16session(c *runner.Ctx, r *rand.Rand, i int) (*gocql.Session, *c16model, gocql.HostSelectionPolicy, bool) {
	nn := 2 + r.Intn(4)
	cl := fakenode.NewCluster(nn)
	m := &c16model{cl: cl, down: map[*fakenode.Node]bool{}, nextIP: 50, nextID: 100}
	for k, n := range cl.Nodes {
		n.DC = fmt.Sprintf("dc%d", k%2)
		n.Rack = fmt.Sprintf("r%d", k%3)
		if k > 0 && r.Intn(3) == 0 {
			n.PeerIP = net.IPv4(10, 77, 0, byte(k+1)).To4() // client-facing address differs from the node-to-node one
		}
	}
	cl.PeersView = m.peersView
	var pol gocql.HostSelectionPolicy = gocql.RoundRobinHostPolicy()
	cfg := newCfg(cl, 3+i%3)
	if r.Intn(3) == 0 {
		// a token-aware policy keeps a picture of its own (hosts, token ring, placement per keyspace); the session
		// keyspace is replicated once, so the token a node reports leads to that node and to nobody else
		pol = gocql.TokenAwareHostPolicy(gocql.RoundRobinHostPolicy())
		cl.Keyspaces["ks1"] = map[string]string{"class": "org.apache.cassandra.locator.SimpleStrategy", "replication_factor": "1"}
		cfg.Keyspace = "ks1"
		m.tokenAware = true
		c.Add("sessions_with_token_aware_policy", 1)
	}
	cfg.Hosts = []string{cl.Nodes[0].IP.String()}
	cfg.PoolConfig.HostSelectionPolicy = pol
	cfg.Timeout = 200 * time.Millisecond
	cfg.ConnectTimeout = 200 * time.Millisecond
	if r.Intn(3) == 0 {
		// a host filter whose verdicts change while the session runs (a deny-list the application maintains)
		m.denied = map[string]bool{}
		byDC := r.Intn(2) == 0 // the filter also looks at the node's datacenter (every datacenter of this cluster is acceptable)
		cfg.HostFilter = gocql.HostFilterFunc(func(h *gocql.HostInfo) bool {
			if byDC && h.DataCenter() != "dc0" && h.DataCenter() != "dc1" {
				return false
			}
			m.mu.Lock()
			defer m.mu.Unlock()
			return !m.denied[h.ConnectAddress().String()]
		})
		c.Add("sessions_with_host_filter", 1)
	}
	cfg.NumConns = 1 + r.Intn(2)
	cfg.ReconnectionPolicy = &gocql.ConstantReconnectionPolicy{MaxRetries: 1, Interval: time.Millisecond}
	sess, err := cfg.CreateSession()
	if err != nil {
		c.Inconclusive("c16-session", err.Error())
		return nil, nil, nil, false
	}
	return sess, m, pol, true
}

func c16direct(c *runner.Ctx, i int) {
	r := c.Rng
	ctl := perturb.Install(c.Seed*17+int64(i), []int{0, 10, 30}[r.Intn(3)], time.Millisecond, &c.Activity)
	defer perturb.Uninstall()
	_ = ctl
	sess, m, pol, ok := c16session(c, r, i)
	if !ok {
		return
	}
	defer func() { c.Guard("Session.Close", sess.Close) }()
	cl := m.cl
	var hist []string
	changed := false
	nsteps := 10 + r.Intn(7)
	refreshOnce := func() error {
		var err error
		c.Guard("refreshRing", func() { err = gocql.VerifRefreshRing(sess) })
		return err
	}
	// A membership change reaches the driver with the next refresh that succeeds; while the
	// control connection is being re-established a refresh fails and tells the driver nothing.
	refresh := func() error {
		var err error
		for try := 0; try < 12; try++ {
			if err = refreshOnce(); err == nil {
				return nil
			}
			c.Add("refresh_retried", 1)
			c16settle(sess, m)
		}
		return err
	}
	qn := 0
	for s := 0; s < nsteps; s++ {
		nodes := cl.Snapshot()
		others := nodes[1:]
		step := r.Intn(21)
		desc := ""
		m.mu.Lock()
		if step != 5 {
			m.dup = nil
		}
		if step != 4 {
			m.extra = nil
		}
		m.mu.Unlock()
		switch {
		case step == 0 && len(nodes) < 7:
			ip := net.IPv4(10, 0, 1, byte(m.nextIP)).To4()
			m.nextIP++
			n := cl.AddNode(ip, fmt.Sprintf("dc%d", r.Intn(2)), fmt.Sprintf("r%d", r.Intn(3)), []string{fmt.Sprint(int64(m.nextIP) * 1000003)})
			n.HostID = c16id(m.nextID)
			m.nextID++
			if r.Intn(3) == 0 {
				n.PeerIP = net.IPv4(10, 77, 1, byte(m.nextIP)).To4()
			}
			desc = "add " + ip.String()
			c.Add("step_add", 1)
			changed = true
			if err := refresh(); err != nil {
				c.Inconclusive("c16-refresh-unavailable", clipS(err.Error()))
				return
			}
		case step == 1 && len(others) > 1:
			n := others[r.Intn(len(others))]
			cl.RemoveNode(n)
			m.removed = append(m.removed, n)
			delete(m.down, n)
			desc = "remove " + n.IP.String()
			c.Add("step_remove", 1)
			changed = true
			if err := refresh(); err != nil {
				c.Inconclusive("c16-refresh-unavailable", clipS(err.Error()))
				return
			}
		case step == 2 && len(others) > 0:
			n := others[r.Intn(len(others))]
			if m.down[n] {
				continue
			}
			ip := net.IPv4(10, 0, 2, byte(m.nextIP)).To4()
			m.nextIP++
			desc = fmt.Sprintf("readdress %s -> %s", n.IP, ip)
			cl.SetAddr(n, ip)
			c.Add("step_readdress", 1)
			changed = true
			// the cluster announces the move only after the node is back; by then the driver has noticed the loss
			c16settle(sess, m)
			if err := refresh(); err != nil {
				c.Inconclusive("c16-refresh-unavailable", clipS(err.Error()))
				return
			}
		case step == 3 && len(others) > 0:
			n := others[r.Intn(len(others))]
			if m.down[n] {
				continue
			}
			desc = fmt.Sprintf("replace host id at %s", n.IP)
			cl.SetHostID(n, c16id(m.nextID))
			m.nextID++
			c.Add("step_replace_id", 1)
			changed = true
			c16settle(sess, m)
			if err := refresh(); err != nil {
				c.Inconclusive("c16-refresh-unavailable", clipS(err.Error()))
				return
			}
		case step == 4:
			var extra []fakenode.PeerRow
			for k := 0; k <= r.Intn(2); k++ {
				row := fakenode.PeerRow{Peer: net.IPv4(10, 0, 3, byte(m.nextIP)).To4(), RPC: net.IPv4(10, 0, 3, byte(m.nextIP)).To4(), HostID: func() []byte { u := c16id(m.nextID); return u[:] }(), DC: "dc0", Rack: "r0", Tokens: []string{"1"}, Version: "3.11.4", SchemaVer: cl.SchemaVer[:]}
				m.nextIP++
				m.nextID++
				switch r.Intn(5) {
				case 0:
					row.NullRPC = true
				case 1:
					row.HostID = nil
				case 2:
					row.DC = ""
				case 3:
					row.Rack = ""
				default:
					row.Tokens = nil
				}
				extra = append(extra, row)
			}
			m.mu.Lock()
			m.extra = extra
			m.mu.Unlock()
			desc = fmt.Sprintf("%d invalid peer rows", len(extra))
			c.Add("step_invalid_rows", 1)
			if err := refresh(); err != nil {
				c.Inconclusive("c16-refresh-unavailable", clipS(err.Error()))
				return
			}
		case step == 5 && len(others) > 0:
			dn := others[r.Intn(len(others))]
			m.mu.Lock()
			m.dup = dn
			m.mu.Unlock()
			desc = "duplicate row for " + dn.IP.String()
			if len(nodes) < 7 && r.Intn(2) == 0 {
				// ... while another node joins, listed after the duplicated row
				ip := net.IPv4(10, 0, 7, byte(m.nextIP)).To4()
				m.nextIP++
				nn := cl.AddNode(ip, fmt.Sprintf("dc%d", r.Intn(2)), fmt.Sprintf("r%d", r.Intn(3)), []string{fmt.Sprint(int64(m.nextIP) * 1000039)})
				nn.HostID = c16id(m.nextID)
				m.nextID++
				desc += ", and " + ip.String() + " joins (listed after it)"
				changed = true
				c.Add("step_join_listed_after_duplicate", 1)
			}
			c.Add("step_duplicate_row", 1)
			err := refresh()
			if err != nil {
				desc += " (refresh error: " + clipS(err.Error()) + ")"
			}
		case step == 6 && len(others) > 0:
			n := others[r.Intn(len(others))]
			if m.down[n] || m.isDenied(n) { // (status events for a node the filter rejects are none of the session's business)
				continue
			}
			reachable := r.Intn(2) == 0
			if !reachable {
				n.SetDown(true)
			}
			m.down[n] = true
			desc = fmt.Sprintf("down %s (still reachable: %v)", n.IP, reachable)
			c.Add("step_down", 1)
			changed = true
			gocql.VerifHandleNodeEvents(sess, []gocql.VerifNodeEvent{{Change: "DOWN", Host: peerAddr(n), Port: 9042}})
			if reachable {
				// reported down but reachable: no query may be sent to it until it is reported up / connected again
				c16quiesce(sess, m)
				before := n.QueryCount("LIST ")
				for k := 0; k < 40; k++ {
					qn++
					c.Guard("Query.Exec", func() { sess.Query(fmt.Sprintf("LIST d%d", qn)).Exec() })
				}
				if got := n.QueryCount("LIST ") - before; got > 0 {
					c.Violation("C16:query-sent-to-down-node", fmt.Sprintf("%d of 40 queries were sent to node %s after it was reported DOWN and before it was reported up or reconnected", got, n.IP), map[string]interface{}{"history": append(append([]string{}, hist...), desc)})
				}
				c.Add("down_node_query_checks", 1)
			}
		case step == 7:
			var dn []*fakenode.Node
			for _, n := range others {
				if m.down[n] {
					dn = append(dn, n)
				}
			}
			if len(dn) == 0 {
				continue
			}
			n := dn[r.Intn(len(dn))]
			n.SetDown(false)
			delete(m.down, n)
			desc = "up " + n.IP.String()
			c.Add("step_up", 1)
			gocql.VerifHandleNodeEvents(sess, []gocql.VerifNodeEvent{{Change: "UP", Host: peerAddr(n), Port: 9042}})
		case step == 20 && len(others) > 1:
			// a node loses its pooled connections, the replacement's handshake is slow, and while it is under way the
			// node leaves the cluster (it still answers for a moment): the connection that comes up for the pool that
			// was removed meanwhile must not bring the node back anywhere
			var cand []*fakenode.Node
			for _, n := range others {
				if !m.isDenied(n) && !m.down[n] {
					cand = append(cand, n)
				}
			}
			if len(cand) == 0 {
				continue
			}
			n := cand[r.Intn(len(cand))]
			desc = fmt.Sprintf("leave of %s while its pool reconnects", n.IP)
			atomic.StoreInt64(&n.StartupDelayNs, int64(150*time.Millisecond))
			for _, sc := range n.OpenConns() {
				if !sc.Control() {
					sc.Close()
				}
			}
			// the replacement is triggered by the loss (and by use)
			for k := 0; k < 3; k++ {
				qn++
				c.Guard("Query.Exec", func() { sess.Query(fmt.Sprintf("LIST l%d", qn)).Exec() })
			}
			time.Sleep(20 * time.Millisecond)
			cl.RemoveNodeKeepUp(n)
			m.removed = append(m.removed, n)
			changed = true
			if err := refresh(); err != nil {
				c.Inconclusive("c16-refresh-unavailable", clipS(err.Error()))
				return
			}
			time.Sleep(300 * time.Millisecond)
			atomic.StoreInt64(&n.StartupDelayNs, 0)
			n.SetDown(true)
			c.Add("step_leave_while_reconnecting", 1)
		case step == 18 && len(others) > 1:
			// a node is reported down, then vanishes from the peers while it is down, and later is back as it was
			// (same id, same address) and up: it is known, connected and offered again
			var cand []*fakenode.Node
			for _, n := range others {
				if !m.isDenied(n) {
					cand = append(cand, n)
				}
			}
			if len(cand) == 0 {
				continue
			}
			n := cand[r.Intn(len(cand))]
			desc = fmt.Sprintf("down, vanish, return of %s", n.IP)
			n.SetDown(true)
			m.down[n] = true
			gocql.VerifHandleNodeEvents(sess, []gocql.VerifNodeEvent{{Change: "DOWN", Host: peerAddr(n), Port: 9042}})
			c16quiesce(sess, m)
			cl.RemoveNode(n)
			delete(m.down, n)
			if err := refresh(); err != nil {
				c.Inconclusive("c16-refresh-unavailable", clipS(err.Error()))
				return
			}
			cl.ReturnNode(n)
			changed = true
			if err := refresh(); err != nil {
				c.Inconclusive("c16-refresh-unavailable", clipS(err.Error()))
				return
			}
			gocql.VerifHandleNodeEvents(sess, []gocql.VerifNodeEvent{{Change: "UP", Host: peerAddr(n), Port: 9042}})
			c.Add("step_down_vanish_return", 1)
		case step == 11 && len(m.removed) > 0:
			n := m.removed[r.Intn(len(m.removed))]
			ch := []string{"UP", "DOWN"}[r.Intn(2)]
			desc = fmt.Sprintf("%s events for the addresses of removed node %s", ch, n.IP)
			c.Add("step_event_for_removed", 1)
			gocql.VerifHandleNodeEvents(sess, []gocql.VerifNodeEvent{{Change: ch, Host: n.IP, Port: 9042}, {Change: ch, Host: peerAddr(n), Port: 9042}})
		case step == 12 && len(others) > 0:
			n := others[r.Intn(len(others))]
			if m.down[n] || m.isDenied(n) { // (status events for a node the filter rejects are none of the session's business)
				continue
			}
			// a flapping node: several status events in one batch; the last one counts
			if r.Intn(2) == 0 {
				desc = "flap DOWN,UP " + n.IP.String()
				gocql.VerifHandleNodeEvents(sess, []gocql.VerifNodeEvent{{Change: "DOWN", Host: peerAddr(n), Port: 9042}, {Change: "UP", Host: peerAddr(n), Port: 9042}})
			} else {
				desc = "flap UP,DOWN " + n.IP.String() + " (still reachable)"
				m.down[n] = true
				changed = true
				gocql.VerifHandleNodeEvents(sess, []gocql.VerifNodeEvent{{Change: "UP", Host: peerAddr(n), Port: 9042}, {Change: "DOWN", Host: peerAddr(n), Port: 9042}})
				c16quiesce(sess, m)
				before := n.QueryCount("LIST ")
				for k := 0; k < 40; k++ {
					qn++
					c.Guard("Query.Exec", func() { sess.Query(fmt.Sprintf("LIST f%d", qn)).Exec() })
				}
				if got := n.QueryCount("LIST ") - before; got > 0 {
					c.Violation("C16:query-sent-to-down-node:after-flap", fmt.Sprintf("%d of 40 queries were sent to node %s although the last status event of the batch said DOWN", got, n.IP), map[string]interface{}{"history": append(append([]string{}, hist...), desc)})
				}
			}
			c.Add("step_flap", 1)
		case step == 13 && len(others) > 0:
			n := others[r.Intn(len(others))]
			if m.down[n] || m.isDenied(n) { // (status events for a node the filter rejects are none of the session's business)
				continue
			}
			// only the node-to-node address changes (separate client and inter-node networks): same host id,
			// same client address; the cluster's later status events name the new address
			np := net.IPv4(10, 77, 2, byte(m.nextIP)).To4()
			m.nextIP++
			desc = fmt.Sprintf("node-to-node address of %s changes %s -> %s", n.IP, peerAddr(n), np)
			cl.SetPeerIP(n, np)
			c.Add("step_peer_address_change", 1)
			changed = true
			if err := refresh(); err != nil {
				c.Inconclusive("c16-refresh-unavailable", clipS(err.Error()))
				return
			}
			if r.Intn(2) == 0 {
				m.down[n] = true
				desc += ", then DOWN for the new address (still reachable)"
				gocql.VerifHandleNodeEvents(sess, []gocql.VerifNodeEvent{{Change: "DOWN", Host: np, Port: 9042}})
				c16quiesce(sess, m)
				before := n.QueryCount("LIST ")
				for k := 0; k < 40; k++ {
					qn++
					c.Guard("Query.Exec", func() { sess.Query(fmt.Sprintf("LIST p%d", qn)).Exec() })
				}
				if got := n.QueryCount("LIST ") - before; got > 0 {
					c.Violation("C16:query-sent-to-down-node:after-peer-address-change", fmt.Sprintf("%d of 40 queries were sent to node %s after it was reported DOWN under its new node-to-node address %s", got, n.IP, np), map[string]interface{}{"history": append(append([]string{}, hist...), desc)})
				}
			}
		case step == 14 && len(nodes) < 7:
			// a node joins at the moment the control connection breaks: the event is lost, and only the refresh the
			// driver does after it has re-established the control connection can tell it about the node
			sc := cl.ControlConn()
			if sc == nil {
				continue
			}
			ip := net.IPv4(10, 0, 8, byte(m.nextIP)).To4()
			m.nextIP++
			n := cl.AddNode(ip, fmt.Sprintf("dc%d", r.Intn(2)), fmt.Sprintf("r%d", r.Intn(3)), []string{fmt.Sprint(int64(m.nextIP) * 1000033)})
			n.HostID = c16id(m.nextID)
			m.nextID++
			sc.Close()
			desc = "join of " + ip.String() + " while the control connection breaks (no event delivered)"
			c.Add("step_join_during_control_outage", 1)
			changed = true
			for w := 0; w < 500; w++ {
				byID, _, _ := gocql.VerifRingSnapshot(sess)
				if _, ok := byID[uuidString(n.HostID)]; ok {
					break
				}
				time.Sleep(10 * time.Millisecond)
			}
		case step == 17 && len(nodes) < 7:
			// a node becomes known only through the UP event that follows its start (the NEW_NODE event was missed or
			// came while its row was still incomplete): the driver learns it with the ring refresh that UP asks for
			ip := net.IPv4(10, 0, 9, byte(m.nextIP)).To4()
			m.nextIP++
			n := cl.AddNode(ip, fmt.Sprintf("dc%d", r.Intn(2)), fmt.Sprintf("r%d", r.Intn(3)), []string{fmt.Sprint(int64(m.nextIP) * 1000037)})
			n.HostID = c16id(m.nextID)
			m.nextID++
			desc = "start of " + ip.String() + " announced by an UP event only"
			c.Add("step_join_announced_by_up_only", 1)
			changed = true
			gocql.VerifHandleNodeEvents(sess, []gocql.VerifNodeEvent{{Change: "UP", Host: ip, Port: 9042}})
			for w := 0; w < 500; w++ { // the refresh is debounced (1 s)
				byID, _, _ := gocql.VerifRingSnapshot(sess)
				if _, ok := byID[uuidString(n.HostID)]; ok {
					break
				}
				time.Sleep(10 * time.Millisecond)
			}
		case step == 19 && len(others) > 0:
			n := others[r.Intn(len(others))]
			if m.down[n] || m.isDenied(n) {
				continue
			}
			// a late REMOVED_NODE for an address that a live node uses (the node that had the address before was
			// decommissioned; the event was held up): the cluster still reports the live node, so it stays
			desc = "REMOVED_NODE event for the address of live node " + n.IP.String()
			c.Add("step_removed_event_for_live_address", 1)
			gocql.VerifHandleNodeEvents(sess, []gocql.VerifNodeEvent{{Topology: true, Change: "REMOVED_NODE", Host: peerAddr(n), Port: 9042}})
		case step == 15 && len(others) > 0 && m.denied != nil:
			n := others[r.Intn(len(others))]
			if m.down[n] || m.isDenied(n) {
				continue
			}
			m.mu.Lock()
			m.denied[n.IP.String()] = true
			m.mu.Unlock()
			desc = "host filter starts rejecting " + n.IP.String()
			c.Add("step_filter_rejects_known_node", 1)
			changed = true
			if err := refresh(); err != nil {
				c.Inconclusive("c16-refresh-unavailable", clipS(err.Error()))
				return
			}
		case step == 16 && m.denied != nil:
			var dn []*fakenode.Node
			for _, n := range others {
				if m.isDenied(n) {
					dn = append(dn, n)
				}
			}
			if len(dn) == 0 {
				continue
			}
			n := dn[r.Intn(len(dn))]
			m.mu.Lock()
			delete(m.denied, n.IP.String())
			m.mu.Unlock()
			desc = "host filter accepts " + n.IP.String() + " again"
			changed = true
			if err := refresh(); err != nil {
				c.Inconclusive("c16-refresh-unavailable", clipS(err.Error()))
				return
			}
		case step == 8:
			ip := net.IPv4(10, 7, 7, byte(r.Intn(200)+1)).To4()
			ev := gocql.VerifNodeEvent{Change: []string{"UP", "DOWN"}[r.Intn(2)], Host: ip, Port: 9042}
			desc = fmt.Sprintf("%s event for unknown %s", ev.Change, ip)
			gocql.VerifHandleNodeEvents(sess, []gocql.VerifNodeEvent{ev, {Topology: true, Change: "NEW_NODE", Host: ip, Port: 9042}})
		case step == 9:
			atomic.StoreInt32(&cl.FailPeers, 1)
			err := refreshOnce()
			desc = fmt.Sprintf("failing peers query (refresh returned %v)", err != nil)
			c.Add("step_refresh_failure", 1)
			atomic.StoreInt32(&cl.FailPeers, 0)
		case step == 10:
			if sc := cl.ControlConn(); sc != nil {
				desc = "control connection lost"
				c.Add("step_control_loss", 1)
				sc.Close()
				time.Sleep(5 * time.Millisecond)
			}
		default:
			desc = "queries"
			for k := 0; k < 12; k++ {
				qn++
				c.Guard("Query.Exec", func() { sess.Query(fmt.Sprintf("LIST q%d", qn)).Exec() })
			}
		}
		if desc == "" {
			continue
		}
		hist = append(hist, desc)
		c.Add("steps", 1)
		c16quiesce(sess, m)
		probs := c16verify(sess, m, pol)
		for retry := 0; retry < 2 && len(probs) > 0; retry++ {
			// a mismatch counts only if it persists: genuine defects stay, reconnects in flight settle
			c.Add("rechecks_after_transient_mismatch", 1)
			time.Sleep(time.Duration(150+850*retry) * time.Millisecond)
			c16quiesce(sess, m)
			probs = c16verify(sess, m, pol)
		}
		// (the patience is for the rare mismatch of a starved machine; a driver that is wrong in case after case is
		// not waited for every time)
		patient := len(probs) > 0 && atomic.AddInt32(&c16patience, 1) <= 6
		for w := 0; w < 25 && len(probs) > 0 && patient; w++ {
			// (a defect in the driver's picture stays; what a starved machine delays - a control connection being
			// re-established, the refresh that follows it - arrives)
			time.Sleep(400 * time.Millisecond)
			c16quiesce(sess, m)
			probs = c16verify(sess, m, pol)
			if len(probs) == 0 {
				c.Add("mismatches_gone_after_patience", 1)
			}
		}
		if len(probs) > 0 {
			// Only "a node that is up and known has no connection / is not offered" is left: on a starved machine the
			// driver's own timeouts make it give a healthy node up, and with the reconnect timer off (this harness)
			// nothing but the cluster saying UP again brings it back. The cluster says so; what counts is whether the
			// driver then recovers within bounded progress.
			pure := true
			for _, p := range probs {
				if p[0] != "pool:up-node-not-connected" && p[0] != "policy:up-node-not-offered" {
					pure = false
				}
			}
			if pure && patient {
				c.Add("liveness_mismatches_reannounced", 1)
				for _, n := range cl.Snapshot() {
					if !m.down[n] && !m.isDenied(n) {
						gocql.VerifHandleNodeEvents(sess, []gocql.VerifNodeEvent{{Change: "UP", Host: peerAddr(n), Port: 9042}})
					}
				}
				for w := 0; w < 50 && len(probs) > 0; w++ {
					time.Sleep(200 * time.Millisecond)
					c16quiesce(sess, m)
					probs = c16verify(sess, m, pol)
				}
				if len(probs) == 0 {
					c.Add("liveness_restored_after_reannounced_up", 1)
				}
			}
		}
		c.Add("consistency_checks", 1)
		if m.downSeen == nil {
			m.downSeen = map[*fakenode.Node]bool{}
		}
		for n := range m.downSeen {
			if !m.down[n] {
				delete(m.downSeen, n)
			}
		}
		for n := range m.down {
			m.downSeen[n] = true
		}
		if len(probs) > 0 {
			wit := map[string]interface{}{"history": append([]string{}, hist...), "all_problems": fmt.Sprint(probs)}
			last := desc
			if i := strings.Index(last, " "); i > 0 {
				last = last[:i]
			}
			seenK := map[string]bool{}
			for _, p := range probs {
				k := "C16:" + p[0] + ":after-" + last
				if strings.HasPrefix(p[0], "invalid-peer-accepted") {
					k = "C16:" + p[0]
				}
				if !seenK[k] {
					seenK[k] = true
					c.Violation(k, p[1], wit)
				}
			}
			break
		}
	}
	c.Eval(runner.H("c16", strings.Join(hist, ";")), changed)
	if c.WantSample() {
		c.Sample(map[string]interface{}{"history": hist})
	}
	for _, b := range cl.BadFrames {
		c.Violation("C16:malformed-request", clipS(b), nil)
	}
}

// c16refreshOverlap: a node joins while the refresh caused by an earlier join is still running (it has already
// read the peer list). The second join has asked for a refresh of its own through the refresh debouncer, and
// that refresh has to happen: after things settle the session knows both nodes.
func c16refreshOverlap(c *runner.Ctx, i int) {
	r := c.Rng
	sess, m, pol, ok := c16session(c, r, i)
	if !ok {
		return
	}
	defer func() { c.Guard("Session.Close", sess.Close) }()
	cl := m.cl
	base := c16peersQueries(cl)
	gate := make(chan struct{})
	arrived := make(chan struct{}, 16)
	var gateOnce sync.Once
	openGate := func() { gateOnce.Do(func() { close(gate) }) }
	defer openGate()
	var held int32
	cl.SetBeforePeersReply(func(n *fakenode.Node) {
		if atomic.CompareAndSwapInt32(&held, 0, 1) {
			arrived <- struct{}{}
			select {
			case <-gate:
			case <-time.After(20 * time.Second):
			}
		}
	})
	ip1 := net.IPv4(10, 0, 5, byte(10+i%100)).To4()
	n1 := cl.AddNode(ip1, "dc0", "r1", []string{"7771"})
	n1.HostID = c16id(700 + 2*i)
	// delivered the way the event debouncer would deliver it; the ring refresh it asks for is debounced (1 s)
	gocql.VerifHandleNodeEvents(sess, []gocql.VerifNodeEvent{{Topology: true, Change: "NEW_NODE", Host: ip1, Port: 9042}})
	select {
	case <-arrived:
	case <-time.After(10 * time.Second):
		c.Inconclusive("c16-overlap-no-refresh", "no ring refresh arrived within 10 s of a NEW_NODE event")
		return
	}
	// the refresh has its peer list (without the second node) and is held; the second node joins now
	ip2 := net.IPv4(10, 0, 6, byte(10+i%100)).To4()
	n2 := cl.AddNode(ip2, "dc0", "r2", []string{"7772"})
	n2.HostID = c16id(701 + 2*i)
	gocql.VerifHandleNodeEvents(sess, []gocql.VerifNodeEvent{{Topology: true, Change: "NEW_NODE", Host: ip2, Port: 9042}})
	time.Sleep(time.Duration(r.Intn(1200)) * time.Millisecond) // the first refresh ends before or after the debounce interval
	cl.SetBeforePeersReply(nil)
	openGate()
	c.Add("refresh_overlaps", 1)
	// bounded progress: the second join's refresh is due one debounce interval (1 s) after its event
	found := false
	for step := 0; step < 400; step++ {
		byID, _, _ := gocql.VerifRingSnapshot(sess)
		if _, ok := byID[uuidString(n2.HostID)]; ok && n2.DataConnsOpen() > 0 {
			found = true
			break
		}
		time.Sleep(20 * time.Millisecond)
	}
	c16quiesce(sess, m)
	probs := c16verify(sess, m, pol)
	if len(probs) > 0 {
		time.Sleep(1500 * time.Millisecond)
		c16quiesce(sess, m)
		probs = c16verify(sess, m, pol)
	}
	refreshes := c16peersQueries(cl) - base
	wit := map[string]interface{}{"second_node_known_after_wait": found, "peers_queries": refreshes}
	for _, p := range probs {
		c.Violation("C16:refresh-overlap:"+p[0], "a node that joined while an earlier refresh was running: "+p[1], wit)
	}
	c.Eval(runner.H("c16overlap", i), true)
	if c.WantSample() {
		c.Sample(wit)
	}
}

// c16realtime: events arrive as EVENT frames on the control connection and go through the real debouncers.
func c16realtime(c *runner.Ctx, i int) {
	if i%2 == 1 {
		c16refreshOverlap(c, i)
		return
	}
	r := c.Rng
	sess, m, pol, ok := c16session(c, r, i)
	if !ok {
		return
	}
	defer func() { c.Guard("Session.Close", sess.Close) }()
	cl := m.cl
	ctlc := cl.ControlConn()
	if ctlc == nil {
		c.Inconclusive("no-control-conn", "no control connection registered")
		return
	}
	peersBefore := c16peersQueries(cl)
	// a burst: a new node joins, announced many times together with status flapping of an existing node
	ip := net.IPv4(10, 0, 4, byte(10+i%200)).To4()
	n := cl.AddNode(ip, "dc0", "r1", []string{"777"})
	n.HostID = c16id(900 + i)
	burst := 20 + r.Intn(60)
	for k := 0; k < burst; k++ {
		switch r.Intn(3) {
		case 0:
			ctlc.PushEvent(&cqlref.EventSpec{Kind: "TOPOLOGY_CHANGE", Change: "NEW_NODE", IP: ip, Port: 9042})
		case 1:
			ctlc.PushEvent(&cqlref.EventSpec{Kind: "STATUS_CHANGE", Change: "UP", IP: ip, Port: 9042})
		default:
			ctlc.PushEvent(&cqlref.EventSpec{Kind: "SCHEMA_CHANGE", Schema: &cqlref.SchemaChange{Change: "UPDATED", Target: "TABLE", Keyspace: "ks", Name: "t"}})
		}
	}
	c.Add("event_bursts", 1)
	// debounce time is 1 s for events plus 1 s for the ring refresh
	deadline := time.Now().Add(6 * time.Second)
	for time.Now().Before(deadline) {
		byID, _, _ := gocql.VerifRingSnapshot(sess)
		if _, ok := byID[uuidString(n.HostID)]; ok && n.DataConnsOpen() > 0 {
			break
		}
		time.Sleep(20 * time.Millisecond)
	}
	c16quiesce(sess, m)
	probs := c16verify(sess, m, pol)
	if len(probs) > 0 {
		time.Sleep(500 * time.Millisecond)
		c16quiesce(sess, m)
		probs = c16verify(sess, m, pol)
	}
	refreshes := c16peersQueries(cl) - peersBefore
	c.Add("refreshes_after_burst", int64(refreshes))
	wit := map[string]interface{}{"burst_events": burst, "peers_queries": refreshes}
	for _, p := range probs {
		c.Violation("C16:realtime:"+p[0], p[1], wit)
	}
	if refreshes > 6 {
		c.Violation("C16:realtime:refresh-per-event", fmt.Sprintf("a burst of %d events caused %d ring refreshes", burst, refreshes), wit)
	}
	c.Eval(runner.H("c16rt", i, burst), true)
	if c.WantSample() {
		c.Sample(wit)
	}
}

func c16peersQueries(cl *fakenode.Cluster) int {
	k := 0
	for _, sc := range cl.AllConns() {
		for _, rq := range sc.AllRequests() {
			if rq.Header.Op == cqlref.OpQuery && strings.Contains(strings.ToLower(rq.Statement), "from system.peers") {
				k++
			}
		}
	}
	return k
}
