package props

import "verifharness/runner"

func c05sessionCase(c *runner.Ctx, i int) {}
