package props

import (
	"fmt"
	"math/rand"
	"strings"
	"sync"
	"sync/atomic"
	"time"

	"github.com/gocql/gocql"

	"verifharness/cqlref"
	"verifharness/fakenode"
	"verifharness/runner"
)

// C05, session phase: hostile and unexpected frames delivered to real connections. A panic on
// one of the driver's own goroutines kills the worker process, which the parent reports as a
// violation with the top gocql frame; a panic in a caller's goroutine is recovered and reported here.

var c05replyKinds = 12 // the kinds of c05base

type c05script struct {
	mu      sync.Mutex
	r       *rand.Rand
	version int
	// what to answer
	onOps   map[byte]bool // request opcodes that get the scripted answer
	system  bool          // also answer the driver's own system-table queries that way
	mutated bool          // mutate the frame as well
	kind    int
	left    int32 // how many scripted answers are still to be given
	sent    []string
}

func (s *c05script) frameFor(version, stream int) (frame []byte, desc string) {
	s.mu.Lock()
	defer s.mu.Unlock()
	_, fr, fields, name, _ := c05base(s.r, s.kind, version)
	desc = name
	if s.mutated {
		m, class, detail := c05mutate(s.r, version, fr, fields, s.r.Intn(1000))
		if class != "" {
			fr, desc = m, name+" ("+detail+")"
		}
	}
	if len(fr) >= cqlref.HeaderSize(version) && !strings.HasPrefix(name, "event") {
		c05setStream(fr, version, stream)
	}
	s.sent = append(s.sent, desc)
	return fr, desc
}

func (s *c05script) take() bool {
	return atomic.AddInt32(&s.left, -1) >= 0
}

func c05call(c *runner.Ctx, name string, fn func()) (pan interface{}) {
	c.Guard(name, func() {
		defer func() {
			if r := recover(); r != nil {
				pan = fmt.Sprintf("%v\n%s", r, c05stack())
			}
		}()
		fn()
	})
	return
}

func c05sessionCase(c *runner.Ctx, i int) {
	r := c.Rng
	version := 1 + i%5
	mode := (i / 5) % 4
	cl := fakenode.NewCluster(1 + r.Intn(2))
	sc := &c05script{r: rand.New(rand.NewSource(r.Int63())), version: version, kind: r.Intn(c05replyKinds), onOps: map[byte]bool{}}
	cfg := newCfg(cl, version)
	cfg.Timeout = 300 * time.Millisecond
	cfg.ConnectTimeout = 300 * time.Millisecond
	cfg.NumConns = 1 + r.Intn(2)
	useAuth := r.Intn(3) == 0
	if useAuth {
		for _, n := range cl.Nodes {
			n.AuthClass = "org.apache.cassandra.auth.PasswordAuthenticator"
		}
		cfg.Authenticator = gocql.PasswordAuthenticator{Username: "u", Password: "p"}
	}
	// event classes the application opted out of: the peer may push such events all the same
	evOff := ""
	if r.Intn(3) == 0 {
		cfg.Events.DisableSchemaEvents = true
		evOff += "schema "
	}
	if r.Intn(3) == 0 {
		cfg.Events.DisableNodeStatusEvents = true
		evOff += "status "
	}
	if r.Intn(3) == 0 {
		cfg.Events.DisableTopologyEvents = true
		evOff += "topology "
	}
	if evOff != "" {
		c.Add("sessions_with_event_classes_disabled", 1)
	}
	c.Add("sessions", 1)
	key := ""
	wit := func() map[string]interface{} {
		sc.mu.Lock()
		defer sc.mu.Unlock()
		return map[string]interface{}{"case": key, "scripted_answers": append([]string{}, sc.sent...)}
	}
	report := func(where string, pan interface{}) {
		c.Violation("C05:session:"+where+":panic", fmt.Sprintf("%s panicked in the caller's goroutine: %v (%s)", where, pan, key), wit())
	}
	answer := func(conn *fakenode.ServerConn, req *fakenode.Req) {
		fr, _ := sc.frameFor(conn.Version, req.Header.Stream)
		conn.WriteReply(req, fr)
	}
	switch mode {
	case 0:
		// an unexpected (well-formed, or mutated) frame at one step of the handshake
		step := []byte{cqlref.OpOptions, cqlref.OpStartup, cqlref.OpAuthResponse, cqlref.OpRegister}[r.Intn(4)]
		if step == cqlref.OpAuthResponse && !useAuth {
			step = cqlref.OpStartup
		}
		sc.mutated = r.Intn(4) == 0
		connIdx := r.Intn(3)
		atomic.StoreInt32(&sc.left, int32(1+r.Intn(2)))
		// the same OPTIONS request is also the driver's heartbeat (every connection, one second after it was
		// set up, from a goroutine of the driver's own): answer that one with the unexpected frame instead
		heartbeat := r.Intn(5) == 0
		if heartbeat {
			step = cqlref.OpOptions
			atomic.StoreInt32(&sc.left, int32(1+r.Intn(3)))
			c.Add("unexpected_reply_to_heartbeat", 1)
		}
		for _, n := range cl.Nodes {
			n.OnHandshake = func(conn *fakenode.ServerConn, op byte) bool {
				if heartbeat && !conn.Ready() {
					return false
				}
				if op != step || (connIdx > 0 && conn.Index < connIdx && !heartbeat) || !sc.take() {
					return false
				}
				reqs := conn.AllRequests()
				answer(conn, reqs[len(reqs)-1])
				return true
			}
		}
		// protocol discovery (ProtoVersion left at 0): the first connection attempt is answered with a protocol ERROR
		// whose message the driver mines for the version to use; the message is the peer's to choose
		if !heartbeat && r.Intn(5) == 0 {
			cfg.ProtoVersion = 0
			greatest := []string{"0", "1", "2", "3", "4", "5", "6", "99", "127", "128", "255", "256", "65536", "99999999999999999999", "-1", "4 "}[r.Intn(16)]
			msg := []string{
				"Invalid or unsupported protocol version (4); the lowest supported version is 3 and the greatest is " + greatest,
				"Invalid or unsupported protocol version (4); supported versions are (3/v3, 4/v4, 5/v5-beta)",
				"Invalid or unsupported protocol version (4); supported versions are (5/v5-beta)",
				"Invalid or unsupported protocol version (4); supported versions are ()",
				"Invalid or unsupported protocol version (4); supported versions are (5)",
				"Invalid or unsupported protocol version (4); supported versions are (v5)",
				"Invalid or unsupported protocol version (4); supported versions are (3,4,5)",
				"Invalid or unsupported protocol version (4); supported versions are (" + greatest + "/v" + greatest + ")",
				"supported versions are (",
				"the lowest supported version is " + greatest + " and the greatest is " + greatest,
			}[r.Intn(10)]
			onStream0 := r.Intn(2) == 0
			var answered int32
			for _, n := range cl.Nodes {
				n.OnHandshake = func(conn *fakenode.ServerConn, op byte) bool {
					if (op != cqlref.OpOptions && op != cqlref.OpStartup) || conn.Version != 4 || atomic.AddInt32(&answered, 1) > 2 {
						return false
					}
					reqs := conn.AllRequests()
					req := reqs[len(reqs)-1]
					stream := req.Header.Stream
					if onStream0 {
						stream = 0
					}
					f, _ := cqlref.BuildFrame(4, stream, cqlref.OpError, nil, cqlref.BodyError(4, &cqlref.ErrSpec{Code: 0x000A, Message: msg}), nil)
					conn.WriteReply(req, f)
					return true
				}
			}
			key = fmt.Sprintf("protocol discovery answered with the protocol error %q (on stream 0: %v)", msg, onStream0)
			c.Add("protocol_discovery_errors", 1)
			c.Eval(runner.H("c05sess-disc", msg, onStream0), true)
			var sess *gocql.Session
			if pan := c05call(c, "CreateSession", func() { sess, _ = cfg.CreateSession() }); pan != nil {
				report("CreateSession", pan)
			}
			if sess != nil {
				if pan := c05call(c, "Query.Exec", func() { sess.Query("LIST after discovery").Exec() }); pan != nil {
					report("Query.Exec", pan)
				}
				c05call(c, "Session.Close", sess.Close)
			}
			break
		}
		key = fmt.Sprintf("v%d handshake step %#x on connections >= %d answered with kind %d (mutated=%v, auth=%v, as reply to the heartbeat=%v)", version, step, connIdx, sc.kind, sc.mutated, useAuth, heartbeat)
		c.Add("unexpected_in_handshake", 1)
		c.Eval(runner.H("c05sess-hs", version, step, sc.kind, sc.mutated, useAuth, heartbeat), true)
		var sess *gocql.Session
		if pan := c05call(c, "CreateSession", func() { sess, _ = cfg.CreateSession() }); pan != nil {
			report("CreateSession", pan)
		}
		if sess != nil {
			for k := 0; k < 3; k++ {
				if pan := c05call(c, "Query.Exec", func() { sess.Query(fmt.Sprintf("LIST q%d", k)).Exec() }); pan != nil {
					report("Query.Exec", pan)
				}
			}
			time.Sleep(time.Duration(r.Intn(20)) * time.Millisecond)
			if heartbeat {
				time.Sleep(1300 * time.Millisecond)
				if pan := c05call(c, "Query.Exec", func() { sess.Query("LIST after heartbeat").Exec() }); pan != nil {
					report("Query.Exec", pan)
				}
			}
			c05call(c, "Session.Close", sess.Close)
		}
	default:
		prepShape := 0
		if r.Intn(3) == 0 {
			prepShape = 1 + r.Intn(4)
			c.Add("inconsistent_prepared_answers", 1)
		}
		handler := func(conn *fakenode.ServerConn, req *fakenode.Req) {
			if sc.onOps[req.Header.Op] && sc.take() {
				answer(conn, req)
				return
			}
			switch req.Header.Op {
			case cqlref.OpQuery, cqlref.OpExecute:
				stmt := req.Statement
				if req.Header.Op == cqlref.OpExecute {
					stmt = strings.TrimPrefix(string(req.PreparedID), "P:")
				}
				if !strings.Contains(stmt, "shifting pages") {
					conn.ReplyVoid(req)
					return
				}
				// a result whose pages do not describe the same columns (the table was altered between two page
				// requests, or the peer is simply inconsistent): page k of "shifting pages a,b,c" has a / b / c columns
				var widths []int
				for _, f := range strings.Split(strings.Fields(stmt[strings.Index(stmt, "shifting pages")+len("shifting pages"):])[0], ",") {
					var w int
					fmt.Sscan(f, &w)
					widths = append(widths, w)
				}
				page := 0
				if req.Params.HasPagingState && len(req.Params.PagingState) == 1 {
					page = int(req.Params.PagingState[0])
				}
				if page >= len(widths) {
					conn.ReplyVoid(req)
					return
				}
				meta := cqlref.Metadata{Global: true, ColCount: widths[page]}
				for k := 0; k < widths[page]; k++ {
					meta.Columns = append(meta.Columns, cqlref.Column{Keyspace: "ks", Table: "t", Name: fmt.Sprintf("c%d", k), Type: &cqlref.Type{ID: cqlref.TVarchar}})
				}
				if page < len(widths)-1 {
					meta.MorePages = true
					meta.PagingState = []byte{byte(page + 1)}
				}
				var rows [][][]byte
				for rr := 0; rr < 3; rr++ {
					var row [][]byte
					for k := 0; k < widths[page]; k++ {
						row = append(row, []byte(fmt.Sprintf("p%dr%dc%d", page, rr, k)))
					}
					rows = append(rows, row)
				}
				conn.ReplyRows(req, &cqlref.RowsSpec{Meta: meta, Rows: rows})
			case cqlref.OpPrepare:
				if strings.Contains(req.Statement, "shifting pages") {
					conn.Reply(req, cqlref.OpResult, nil, cqlref.BodyPrepared(conn.Version, &cqlref.PreparedSpec{ID: []byte("P:" + req.Statement),
						Result: cqlref.Metadata{Global: true, ColCount: 1, Columns: []cqlref.Column{{Keyspace: "ks", Table: "t", Name: "c0", Type: &cqlref.Type{ID: cqlref.TVarchar}}}}}))
					return
				}
				ps := &cqlref.PreparedSpec{ID: []byte("P:" + req.Statement),
					Bind:   cqlref.Metadata{Global: true, ColCount: 1, Columns: []cqlref.Column{{Keyspace: "ks", Table: "t", Name: "k", Type: &cqlref.Type{ID: cqlref.TVarchar}}}},
					Result: cqlref.Metadata{Global: true, ColCount: 1, Columns: []cqlref.Column{{Keyspace: "ks", Table: "t", Name: "v", Type: &cqlref.Type{ID: cqlref.TInt}}}}}
				// PREPARED answers that parse but describe the statement inconsistently
				switch prepShape {
				case 1: // bind markers announced, not described ("no metadata" flag on the bind metadata)
					ps.Bind = cqlref.Metadata{NoMetadata: true, ColCount: 1 + int(req.Seq%2)}
				case 2: // partition-key index beyond the bind markers
					ps.Bind.PKIndexes = []int{[]int{1, 7, 65535}[int(req.Seq)%3]}
				case 3: // more markers announced than described is not expressible; fewer values than markers: two markers
					ps.Bind.ColCount = 2
					ps.Bind.Columns = append(ps.Bind.Columns, cqlref.Column{Keyspace: "ks", Table: "t", Name: "k2", Type: &cqlref.Type{ID: cqlref.TInt}})
					ps.Bind.PKIndexes = []int{1, 0}
				case 4: // result metadata announced, not described
					ps.Result = cqlref.Metadata{NoMetadata: true, ColCount: 1}
				}
				conn.Reply(req, cqlref.OpResult, nil, cqlref.BodyPrepared(conn.Version, ps))
			default:
				conn.ReplyVoid(req)
			}
		}
		for _, n := range cl.Nodes {
			n.Handler = handler
			n.SystemIntercept = func(conn *fakenode.ServerConn, req *fakenode.Req) bool {
				if sc.system && conn.Ready() && sc.take() {
					answer(conn, req)
					return true
				}
				return false
			}
		}
		var sess *gocql.Session
		var err error
		c.Guard("CreateSession", func() { sess, err = cfg.CreateSession() })
		if err != nil {
			c.Inconclusive("c05-session", err.Error())
			return
		}
		sc.mutated = mode == 2 || (mode == 1 && r.Intn(3) == 0)
		switch mode {
		case 1, 2:
			ops := [][]byte{{cqlref.OpQuery}, {cqlref.OpPrepare}, {cqlref.OpExecute}, {cqlref.OpBatch}, {cqlref.OpQuery, cqlref.OpPrepare, cqlref.OpExecute, cqlref.OpBatch}}[r.Intn(5)]
			for _, o := range ops {
				sc.onOps[o] = true
			}
			sc.system = r.Intn(4) == 0
			if mode == 2 {
				c.Add("mutated_replies", 1)
			} else {
				c.Add("unexpected_reply_to_request", 1)
			}
			key = fmt.Sprintf("v%d requests %v (system queries: %v) answered with kind %d (mutated=%v)", version, ops, sc.system, sc.kind, sc.mutated)
			c.Eval(runner.H("c05sess-req", version, fmt.Sprint(ops), sc.system, sc.kind, sc.mutated), true)
			for round := 0; round < 6; round++ {
				atomic.StoreInt32(&sc.left, 1)
				sc.mu.Lock()
				sc.kind = r.Intn(c05replyKinds)
				sc.mu.Unlock()
				what := r.Intn(5)
				if version == 1 && what == 3 {
					what = 0
				}
				switch what {
				case 0:
					if pan := c05call(c, "Query.Exec", func() { sess.Query(fmt.Sprintf("LIST r%d", round)).Exec() }); pan != nil {
						report("Query.Exec", pan)
					}
				case 1:
					if pan := c05call(c, "Iter.Scan", func() {
						it := sess.Query(fmt.Sprintf("SELECT v FROM ks.t WHERE k = ? /* %d %d */", i, round), "key").Iter()
						c05drain(it, round)
					}); pan != nil {
						report("Iter", pan)
					}
				case 2:
					if pan := c05call(c, "Iter.MapScan", func() {
						it := sess.Query(fmt.Sprintf("LIST m%d", round)).Iter()
						if n, p := c05drain(it, 1+round); p != nil {
							panic(fmt.Sprintf("after %d rows: %v", n, p))
						}
					}); pan != nil {
						report("Iter", pan)
					}
				case 3:
					if pan := c05call(c, "ExecuteBatch", func() {
						b := sess.NewBatch(gocql.LoggedBatch)
						b.Query(fmt.Sprintf("INSERT INTO ks.t (k, v) VALUES (?, ?) /* %d */", round), "k", 1)
						b.Query("LIST plain")
						sess.ExecuteBatch(b)
					}); pan != nil {
						report("ExecuteBatch", pan)
					}
				default:
					if sc.system {
						if pan := c05call(c, "refreshRing", func() { gocql.VerifRefreshRing(sess) }); pan != nil {
							report("refreshRing", pan)
						}
					}
					if pan := c05call(c, "Query.Scan", func() {
						var x int
						sess.Query(fmt.Sprintf("LIST s%d", round)).Scan(&x)
					}); pan != nil {
						report("Query.Scan", pan)
					}
				}
			}
		default:
			// hostile EVENT frames on the control connection
			c.Add("hostile_events", 1)
			key = fmt.Sprintf("v%d hostile events (event classes disabled by the application: %q)", version, evOff)
			c.Eval(runner.H("c05sess-ev", version, evOff, i), true)
			for round := 0; round < 8; round++ {
				ctl := cl.ControlConn()
				if ctl == nil || r.Intn(4) == 0 {
					// nobody registered (every class disabled), or simply a peer that pushes events on a
					// connection that never asked for them
					var open []*fakenode.ServerConn
					for _, n := range cl.Nodes {
						for _, oc := range n.OpenConns() {
							if oc.Ready() {
								open = append(open, oc)
							}
						}
					}
					if len(open) > 0 {
						ctl = open[r.Intn(len(open))]
						c.Add("events_on_unregistered_connection", 1)
					}
				}
				if ctl == nil {
					time.Sleep(20 * time.Millisecond)
					continue
				}
				sc.mu.Lock()
				sc.kind = []int{6, 7, 7, 7}[r.Intn(4)] // event kinds of c05base (6 yields a result or an event)
				sc.mutated = r.Intn(5) != 0
				if evOff != "" {
					sc.mutated = r.Intn(2) == 0
				}
				sc.mu.Unlock()
				fr, desc := sc.frameFor(ctl.Version, -1)
				if len(fr) >= cqlref.HeaderSize(ctl.Version) {
					c05setStream(fr, ctl.Version, -1)
					if ctl.Version < 3 {
						fr[3] = cqlref.OpEvent
					} else {
						fr[4] = cqlref.OpEvent
					}
				}
				_ = desc
				ctl.WriteRaw(fr)
				if r.Intn(3) == 0 {
					// an unknown event type
					w := cqlref.BodyString([]string{"KEYSPACE_CHANGE", "", "status_change", "TOPOLOGY_CHANGE\x00"}[r.Intn(4)])
					f2, _ := cqlref.BuildFrame(ctl.Version, -1, cqlref.OpEvent, nil, w, nil)
					ctl.WriteRaw(f2)
				}
				if pan := c05call(c, "Query.Exec", func() { sess.Query(fmt.Sprintf("LIST e%d", round)).Exec() }); pan != nil {
					report("Query.Exec", pan)
				}
				time.Sleep(time.Duration(r.Intn(15)) * time.Millisecond)
			}
		}
		if prepShape > 0 {
			key += fmt.Sprintf(" [PREPARED shape %d]", prepShape)
			stmt := fmt.Sprintf("SELECT v FROM ks.t WHERE k = ? /* shape %d %d */", prepShape, i)
			if pan := c05call(c, "Query.GetRoutingKey", func() { sess.Query(stmt, "key").GetRoutingKey() }); pan != nil {
				report("Query.GetRoutingKey", pan)
			}
			if pan := c05call(c, "Iter.Scan", func() { c05drain(sess.Query(stmt, "key").Iter(), 0) }); pan != nil {
				report("Iter", pan)
			}
			if pan := c05call(c, "Iter.Scan", func() { c05drain(sess.Query(stmt, "key", 2).Iter(), 0) }); pan != nil {
				report("Iter", pan)
			}
			if version >= 2 {
				if pan := c05call(c, "ExecuteBatch", func() {
					b := sess.NewBatch(gocql.UnloggedBatch)
					b.Query(stmt, "key")
					b.GetRoutingKey()
					sess.ExecuteBatch(b)
				}); pan != nil {
					report("ExecuteBatch", pan)
				}
			}
		}
		if version >= 2 && r.Intn(2) == 0 {
			// a paged result whose later pages describe more (or fewer) columns than the first one, read through every
			// consumer with the destinations made for the first page: an error is fine, a panic in the caller is not
			atomic.StoreInt32(&sc.left, 0)
			widths := fmt.Sprintf("%d,%d,%d", 1+r.Intn(3), 1+r.Intn(4), 1+r.Intn(4))
			c.Add("results_with_pages_of_different_width", 1)
			for how := 0; how < 4; how++ {
				var q *gocql.Query
				if r.Intn(2) == 0 {
					q = sess.Query(fmt.Sprintf("LIST shifting pages %s /* %d */", widths, i))
				} else {
					q = sess.Query(fmt.Sprintf("SELECT * FROM ks.t /* shifting pages %s /* %d */", widths, i)).NoSkipMetadata()
				}
				q.PageSize(3)
				var n int
				if pan := c05call(c, "Iter.Scan", func() {
					var p interface{}
					if n, p = c05drain(q.Iter(), how); p != nil {
						panic(fmt.Sprintf("consumer %d after %d rows: %v", how, n, p))
					}
				}); pan != nil {
					key += " [pages of widths " + widths + "]"
					report("Iter:pages-of-different-width", pan)
				}
				c.Add("rows_read_from_shifting_pages", int64(n))
			}
		}
		time.Sleep(time.Duration(r.Intn(30)) * time.Millisecond)
		c05call(c, "Session.Close", sess.Close)
	}
	if c.WantSample() {
		c.Sample(wit())
	}
}
