package props

import (
	"context"
	"errors"
	"fmt"
	"strings"
	"sync"
	"time"

	"github.com/gocql/gocql"
	"github.com/gocql/gocql/lz4"

	"verifharness/fakenode"
)

type nullLogger struct{}

func (nullLogger) Print(v ...interface{})                 {}
func (nullLogger) Printf(format string, v ...interface{}) {}
func (nullLogger) Println(v ...interface{})               {}

// bufLogger keeps the last lines (for witnesses).
type bufLogger struct {
	mu    sync.Mutex
	lines []string
}

func (b *bufLogger) add(s string) {
	b.mu.Lock()
	if len(b.lines) > 200 {
		b.lines = b.lines[100:]
	}
	b.lines = append(b.lines, s)
	b.mu.Unlock()
}
func (b *bufLogger) Print(v ...interface{})                 { b.add(fmt.Sprint(v...)) }
func (b *bufLogger) Printf(format string, v ...interface{}) { b.add(fmt.Sprintf(format, v...)) }
func (b *bufLogger) Println(v ...interface{})               { b.add(fmt.Sprintln(v...)) }

// newCfg returns a cluster config wired to the in-memory cluster.
func newCfg(c *fakenode.Cluster, proto int) *gocql.ClusterConfig {
	var hosts []string
	for _, n := range c.Nodes {
		hosts = append(hosts, n.IP.String())
	}
	cfg := gocql.NewCluster(hosts...)
	cfg.ProtoVersion = proto
	cfg.Dialer = fakenode.Dialer{C: c}
	cfg.Timeout = 2 * time.Second
	cfg.ConnectTimeout = 2 * time.Second
	cfg.WriteCoalesceWaitTime = 0
	cfg.NumConns = 1
	cfg.Logger = nullLogger{}
	cfg.ReconnectInterval = 0
	cfg.MaxWaitSchemaAgreement = 300 * time.Millisecond
	cfg.ReconnectionPolicy = &gocql.ConstantReconnectionPolicy{MaxRetries: 1, Interval: 5 * time.Millisecond}
	return cfg
}

func compressorByName(name string) gocql.Compressor {
	switch name {
	case "snappy":
		return gocql.SnappyCompressor{}
	case "lz4":
		return lz4.LZ4Compressor{}
	}
	return nil
}

// loadLike: errors that a starved machine produces on its own (a driver timeout expiring although the peer answered,
// connection attempts abandoned for the same reason). Oracles about *what* was sent or decoded treat them as
// inconclusive when nothing else is wrong, never as a finding.
func loadLike(err error) bool {
	if err == nil {
		return false
	}
	if errors.Is(err, gocql.ErrTimeoutNoResponse) || errors.Is(err, gocql.ErrNoConnections) || errors.Is(err, gocql.ErrNoConnectionsStarted) || errors.Is(err, context.DeadlineExceeded) {
		return true
	}
	s := err.Error()
	for _, sig := range []string{"no response received from cassandra within timeout period", "no response to connection startup within timeout", "no connections were made when creating the session", "unable to connect to initial hosts", "i/o timeout", "deadline exceeded", "no hosts available", "no connections available"} {
		if strings.Contains(s, sig) {
			return true
		}
	}
	return false
}
