package props

import (
	"encoding/binary"
	"fmt"
	"math/rand"
	"reflect"
	"runtime"
	"strings"
	"time"

	"github.com/gocql/gocql"

	"verifharness/cqlref"
	"verifharness/gen"
	"verifharness/runner"
)

// C05: no bytes from the network can crash the application.

func init() {
	runner.Register(&runner.Prop{
		ID: "C05", Level: "exploration",
		Technique: "runtime monitoring of the real parsers under hostile input: well-formed frames / values from the independent encoder are mutated (every truncation offset of small bodies, every recorded length / count field replaced by negative, zero, off-by-one and huge values, header fields, byte flips, random bytes) and fed to the connection's reader + parser, the row readers and Unmarshal with recover() around each call and the bytes allocated measured; real sessions receive well-formed frames of every kind where another kind is expected, at every handshake step and for every request kind, plus hostile EVENT frames, in child processes whose death is the verdict",
		Rule: "frame case = one base response (kind x protocol 1-5) and one mutation; value case = one (type tree, value) and ~12 mutations of its encoding into 2-3 destination types; type-string case = one generated / mutated type description; session case = one session, one (request kind or handshake step, unexpected reply kind) pair; " +
			"distinct = hash(base kind, version, mutation class, field kind) etc.; non-trivial = the mutated input differs from a well-formed one",
		Assumptions: []string{
			"a panic recovered around the parser call stands for a panic on the connection's receive goroutine (parseFrame re-panics runtime errors by design), i.e. process death",
			"'wildly out of proportion' is restated as: more than 16 MiB + 256 x input length allocated while handling one input",
		},
		RaceOwner: func(fns []string) bool { return true },
		Phases: func(tier string) []runner.Phase {
			nf, nv, nt, ns := 120000, 20000, 6000, 1300
			if tier == "thorough" {
				nf, nv, nt, ns = 6000000, 800000, 200000, 40000
			}
			return []runner.Phase{
				{Name: "frames", Variant: "plain", Cases: nf, Run: c05frameCase, CaseTimeout: 120 * time.Second,
					Required: []string{"frames_mutated", "mut_truncate", "mut_field", "mut_header", "mut_flip", "mut_random", "parse_errors", "parse_accepted", "rows_iterated", "short_rowsets", "custom_class_rowsets"}},
				{Name: "values", Variant: "plain", Cases: nv, Run: c05valueCase, CaseTimeout: 120 * time.Second,
					Required: []string{"values_mutated", "unmarshal_errors", "unmarshal_accepted"}},
				{Name: "type-strings", Variant: "plain", Cases: nt, Run: c05typeStringCase, CaseTimeout: 120 * time.Second,
					Required: []string{"type_strings"}},
				{Name: "schema-rows", Variant: "plain", Cases: nt, Run: c05schemaCase, CaseTimeout: 120 * time.Second,
					Required: []string{"schema_row_sets"}},
				{Name: "sessions", Variant: "race", Cases: ns, Run: c05sessionCase, CaseTimeout: 120 * time.Second,
					Required: []string{"sessions", "unexpected_in_handshake", "unexpected_reply_to_request", "hostile_events", "mutated_replies", "sessions_with_event_classes_disabled", "events_on_unregistered_connection", "unexpected_reply_to_heartbeat", "inconsistent_prepared_answers", "results_with_pages_of_different_width", "rows_read_from_shifting_pages", "protocol_discovery_errors"}},
			}
		},
	})
}

const c05allocBase = 16 << 20

// c05stack: the gocql frames of the current (panicking) stack.
func c05stack() string {
	buf := make([]byte, 16<<10)
	buf = buf[:runtime.Stack(buf, false)]
	var out []string
	for _, l := range strings.Split(string(buf), "\n") {
		if strings.HasPrefix(l, "github.com/gocql/gocql") && !strings.Contains(l, "Verif") {
			if i := strings.LastIndex(l, "("); i > 0 {
				l = l[:i]
			}
			out = append(out, strings.TrimPrefix(l, "github.com/gocql/gocql."))
		}
		if len(out) >= 6 {
			break
		}
	}
	return strings.Join(out, " <- ")
}

// c05bounded runs fn like c05allocated, but watches the heap while it runs: when it has grown by more than
// capBytes, onRunaway is called (to record the violation) and the worker process is replaced - code that
// allocates without bound cannot be stopped any other way, and letting it run would take the machine down.
func c05bounded(c *runner.Ctx, capBytes uint64, onRunaway func(grown uint64), fn func()) uint64 {
	var a runtime.MemStats
	runtime.ReadMemStats(&a)
	stop := make(chan struct{})
	done := make(chan struct{})
	go func() {
		defer close(done)
		t := time.NewTicker(5 * time.Millisecond)
		defer t.Stop()
		for {
			select {
			case <-stop:
				return
			case <-t.C:
				var m runtime.MemStats
				runtime.ReadMemStats(&m)
				if m.TotalAlloc-a.TotalAlloc > capBytes && m.HeapAlloc > a.HeapAlloc && m.HeapAlloc-a.HeapAlloc > capBytes/2 {
					onRunaway(m.TotalAlloc - a.TotalAlloc)
					c.AbortWorker()
				}
			}
		}
	}()
	fn()
	close(stop)
	<-done
	var b runtime.MemStats
	runtime.ReadMemStats(&b)
	return b.TotalAlloc - a.TotalAlloc
}

func c05allocated(fn func()) uint64 {
	var a, b runtime.MemStats
	runtime.ReadMemStats(&a)
	fn()
	runtime.ReadMemStats(&b)
	return b.TotalAlloc - a.TotalAlloc
}

// c05base builds one well-formed response frame (uncompressed) and returns the positions of its length / count fields.
func c05base(r *rand.Rand, kind int, forceVersion int) (version int, frame []byte, fields []cqlref.Field, name string, rows *c04rows) {
	version = 1 + r.Intn(5)
	if r.Intn(3) == 0 {
		version = 4
	}
	if forceVersion != 0 {
		version = forceVersion
	}
	prefix := c04prefix(r, version)
	stream := r.Intn(128)
	var op byte
	var body *cqlref.W
	switch kind % 12 {
	case 0:
		name, op, body = "authenticate", cqlref.OpAuthenticate, cqlref.BodyString(c04str(r))
	case 1:
		name, op, body = "auth_challenge", cqlref.OpAuthChallenge, cqlref.BodyBytes(c04bytes(r, 30))
		if r.Intn(2) == 0 {
			name, op = "auth_success", cqlref.OpAuthSuccess
		}
	case 2:
		m := map[string][]string{}
		for k := r.Intn(4); k > 0; k-- {
			m[fmt.Sprintf("K%d", k)] = []string{c04str(r), c04str(r)}[:r.Intn(3)]
		}
		name, op, body = "supported", cqlref.OpSupported, cqlref.BodySupported(m)
	case 3, 4:
		e := c04errSpec(r, version)
		name, op, body = fmt.Sprintf("error-%#x", e.Code), cqlref.OpError, cqlref.BodyError(version, e)
	case 5:
		name, op, body = "set_keyspace", cqlref.OpResult, cqlref.BodySetKeyspace(c04str(r))
		if r.Intn(3) == 0 {
			name, body = "void", cqlref.BodyVoid()
		}
	case 6:
		targets := []string{"KEYSPACE", "TABLE", "TYPE", "FUNCTION", "AGGREGATE"}
		sc := &cqlref.SchemaChange{Change: "UPDATED", Target: targets[r.Intn(len(targets))], Keyspace: "ks", Name: "obj", Args: []string{"int", "text"}[:r.Intn(3)]}
		if version < 4 && (sc.Target == "FUNCTION" || sc.Target == "AGGREGATE") {
			sc.Target = "TABLE"
		}
		if r.Intn(2) == 0 {
			name, op, body = "schema_change", cqlref.OpResult, cqlref.BodySchemaChange(version, sc)
		} else {
			stream = -1
			name, op, body = "event-schema", cqlref.OpEvent, cqlref.BodyEvent(version, &cqlref.EventSpec{Kind: "SCHEMA_CHANGE", Schema: sc})
		}
	case 7:
		ev := &cqlref.EventSpec{Kind: []string{"TOPOLOGY_CHANGE", "STATUS_CHANGE"}[r.Intn(2)], Change: []string{"NEW_NODE", "UP", "DOWN", "REMOVED_NODE"}[r.Intn(4)], Port: 9042}
		ev.IP = make([]byte, []int{4, 16}[r.Intn(2)])
		r.Read(ev.IP)
		stream = -1
		name, op, body = "event", cqlref.OpEvent, cqlref.BodyEvent(version, ev)
	case 8:
		bindRows := c04genRows(r, version, false)
		bind := bindRows.meta
		bind.MorePages, bind.PagingState = false, nil
		if version >= 4 {
			for k := r.Intn(3); k > 0 && len(bindRows.cols) > 0; k-- {
				bind.PKIndexes = append(bind.PKIndexes, r.Intn(len(bindRows.cols)))
			}
		}
		res := c04genRows(r, version, false).meta
		res.MorePages, res.PagingState = false, nil
		name, op, body = "prepared", cqlref.OpResult, cqlref.BodyPrepared(version, &cqlref.PreparedSpec{ID: c04bytes(r, 16), Bind: bind, Result: res})
	default:
		rows = c04genRows(r, version, true)
		name, op = "rows", cqlref.OpResult
		body = cqlref.BodyRows(version, &cqlref.RowsSpec{Meta: rows.meta, Rows: rows.cells})
	}
	frame, fields = cqlref.BuildFrame(version, stream, op, prefix, body, nil)
	return
}

func c05setLen(frame []byte, version int) {
	hs := cqlref.HeaderSize(version)
	binary.BigEndian.PutUint32(frame[hs-4:], uint32(len(frame)-hs))
}

var c05ints = []int64{-1, 0, 1, 2, 127, 128, 255, 256, 32767, 32768, 65535, 65536, 1 << 20, 1 << 24, 0x7fffffff, -0x80000000, -2, 0x7ffffff0, 1 << 28}

// c05mutate returns a mutated copy of the frame and the mutation's class.
func c05mutate(r *rand.Rand, version int, frame []byte, fields []cqlref.Field, sel int) (out []byte, class, detail string) {
	hs := cqlref.HeaderSize(version)
	out = append([]byte{}, frame...)
	bodyLen := len(frame) - hs
	switch m := sel % 10; {
	case m <= 1 && bodyLen > 0:
		j := r.Intn(bodyLen)
		if bodyLen <= 96 {
			j = (sel / 10) % bodyLen
		}
		out = out[:hs+j]
		c05setLen(out, version)
		return out, "truncate", fmt.Sprintf("body cut to %d of %d bytes", j, bodyLen)
	case m <= 4 && len(fields) > 0:
		f := fields[r.Intn(len(fields))]
		if bodyLen <= 400 {
			f = fields[(sel/10)%len(fields)]
		}
		v := c05ints[r.Intn(len(c05ints))]
		pos := hs + f.Off
		if pos+f.Size > len(out) {
			return out, "", ""
		}
		var old int64
		switch f.Size {
		case 1:
			old = int64(out[pos])
			if r.Intn(2) == 0 {
				v = old + int64(r.Intn(3)) - 1
			}
			out[pos] = byte(v)
		case 2:
			old = int64(binary.BigEndian.Uint16(out[pos:]))
			if r.Intn(3) == 0 {
				v = old + int64(r.Intn(3)) - 1
			}
			binary.BigEndian.PutUint16(out[pos:], uint16(v))
		default:
			old = int64(int32(binary.BigEndian.Uint32(out[pos:])))
			if r.Intn(3) == 0 {
				v = old + int64(r.Intn(3)) - 1
			}
			binary.BigEndian.PutUint32(out[pos:], uint32(v))
		}
		return out, "field", fmt.Sprintf("%s at body offset %d: %d -> %d", f.Kind, f.Off, old, v)
	case m == 5:
		switch r.Intn(6) {
		case 0:
			out[1] = byte(r.Intn(256))
			return out, "header", fmt.Sprintf("flags -> %#x", out[1])
		case 1:
			k := hs - 5
			out[k] = byte(r.Intn(40))
			return out, "header", fmt.Sprintf("opcode -> %#x", out[k])
		case 2:
			out[0] = byte(r.Intn(256))
			return out, "header", fmt.Sprintf("version byte -> %#x", out[0])
		case 3:
			l := []int64{-1, 0, int64(bodyLen) - 1, int64(bodyLen) + 1, int64(bodyLen) + 1000, 0x7fffffff, 256<<20 + 1, -0x80000000}[r.Intn(8)]
			binary.BigEndian.PutUint32(out[hs-4:], uint32(l))
			return out, "header", fmt.Sprintf("length %d -> %d", bodyLen, l)
		case 4:
			out = out[:r.Intn(hs+1)]
			return out, "header", fmt.Sprintf("only %d header bytes", len(out))
		default:
			out[2] = byte(r.Intn(256))
			return out, "header", "stream byte changed"
		}
	case m <= 7 && bodyLen > 0:
		switch r.Intn(4) {
		case 0:
			j := hs + r.Intn(bodyLen)
			out[j] ^= 1 << uint(r.Intn(8))
			return out, "flip", fmt.Sprintf("bit flipped at body offset %d", j-hs)
		case 1:
			j := hs + r.Intn(bodyLen)
			out[j] = byte(r.Intn(256))
			return out, "flip", fmt.Sprintf("byte overwritten at body offset %d", j-hs)
		case 2:
			j := hs + r.Intn(bodyLen)
			out = append(out[:j], out[j+1:]...)
			c05setLen(out, version)
			return out, "flip", fmt.Sprintf("byte removed at body offset %d", j-hs)
		default:
			j := hs + r.Intn(bodyLen+1)
			out = append(out[:j], append([]byte{byte(r.Intn(256))}, out[j:]...)...)
			c05setLen(out, version)
			return out, "flip", fmt.Sprintf("byte inserted at body offset %d", j-hs)
		}
	default:
		n := r.Intn(64)
		out = append(out[:hs], make([]byte, n)...)
		r.Read(out[hs:])
		if r.Intn(3) == 0 && n >= 8 {
			// plausible start: a result kind or an error code
			binary.BigEndian.PutUint32(out[hs:], uint32([]int{1, 2, 3, 4, 5, 0x1000, 0x1300, 0x2500}[r.Intn(8)]))
		}
		c05setLen(out, version)
		return out, "random", fmt.Sprintf("%d random body bytes", n)
	}
	return out, "", ""
}

// c05drain reads rows from an iterator of unknown sanity with every consumer shape; must not panic.
func c05drain(it *gocql.Iter, how int) (rowsRead int, pan interface{}) {
	defer func() {
		if r := recover(); r != nil {
			pan = fmt.Sprintf("%v\n%s", r, c05stack())
		}
	}()
	const maxRows = 20000
	switch how % 4 {
	case 0:
		rd, err := it.RowData()
		if err != nil {
			it.Close()
			return 0, nil
		}
		for rowsRead < maxRows && it.Scan(rd.Values...) {
			rowsRead++
		}
		it.Close()
	case 1:
		for rowsRead < maxRows {
			m := map[string]interface{}{}
			if !it.MapScan(m) {
				break
			}
			rowsRead++
		}
		it.Close()
	case 2:
		// SliceMap collects every row the iterator yields; the caller (c05bounded) cuts a run-away short
		ms, _ := it.SliceMap()
		rowsRead = len(ms)
	default:
		rd, err := it.RowData()
		if err != nil {
			it.Close()
			return 0, nil
		}
		sc := it.Scanner()
		for rowsRead < maxRows && sc.Next() {
			if sc.Scan(rd.Values...) != nil {
				break
			}
			rowsRead++
		}
		sc.Err()
	}
	return
}

func c05frameCase(c *runner.Ctx, i int) {
	r := c.Rng
	version, frame, fields, name, _ := c05base(r, i, 0)
	mut, class, detail := c05mutate(r, version, frame, fields, i/12)
	if i%61 == 5 {
		// a row set that claims more rows than it holds, including the degenerate shape with no columns at all
		// (every "row" is then zero bytes long, so the body never runs out)
		version = 1 + r.Intn(5)
		ncols := r.Intn(3)
		nrows := []int64{1, 3, 65536, 1 << 24, 0x7fffffff}[r.Intn(5)]
		var cols []cqlref.Column
		for k := 0; k < ncols; k++ {
			cols = append(cols, cqlref.Column{Keyspace: "ks", Table: "t", Name: fmt.Sprintf("c%d", k), Type: &cqlref.Type{ID: cqlref.TInt}})
		}
		w := cqlref.BodyRows(version, &cqlref.RowsSpec{Meta: cqlref.Metadata{Global: true, Columns: cols, ColCount: ncols}})
		binary.BigEndian.PutUint32(w.B[len(w.B)-4:], uint32(nrows))
		for k := r.Intn(3) * ncols; k > 0; k-- {
			w.Bytes([]byte{0, 0, 0, byte(k)})
		}
		frame, _ = cqlref.BuildFrame(version, 1, cqlref.OpResult, nil, w, nil)
		mut, class, detail, name = frame, "short-rowset", fmt.Sprintf("%d columns, rows_count %d, %d row bytes", ncols, nrows, len(w.B)), "rows-handmade"
		c.Add("short_rowsets", 1)
	}
	if i%61 == 7 {
		// columns described as a *custom* type whose class is one of Cassandra's own marshal classes, bare or
		// parametrised, known or not: whatever the driver makes of the description, reading the rows must not
		// panic (the row iteration trusts the type tag)
		version = 1 + r.Intn(5)
		base := []string{"ListType", "SetType", "MapType", "TupleType", "UserType", "ReversedType", "FrozenType", "CompositeType", "DurationType", "Int32Type", "UTF8Type", "ColumnToCollectionType", "NoSuchType", ""}[r.Intn(14)]
		cls := base
		if r.Intn(3) != 0 && base != "" {
			cls = "org.apache.cassandra.db.marshal." + base
		}
		switch r.Intn(4) {
		case 0:
			cls += "(org.apache.cassandra.db.marshal.Int32Type)"
		case 1:
			cls += "(org.apache.cassandra.db.marshal.UTF8Type,org.apache.cassandra.db.marshal.Int32Type)"
		}
		ncols := 1 + r.Intn(2)
		var cols []cqlref.Column
		for k := 0; k < ncols; k++ {
			cols = append(cols, cqlref.Column{Keyspace: "ks", Table: "t", Name: fmt.Sprintf("c%d", k), Type: &cqlref.Type{ID: cqlref.TCustom, Custom: cls}})
		}
		var rows [][][]byte
		for k := 1 + r.Intn(3); k > 0; k-- {
			var row [][]byte
			for x := 0; x < ncols; x++ {
				cell := make([]byte, r.Intn(12))
				r.Read(cell)
				if r.Intn(4) == 0 {
					cell = nil
				}
				row = append(row, cell)
			}
			rows = append(rows, row)
		}
		w := cqlref.BodyRows(version, &cqlref.RowsSpec{Meta: cqlref.Metadata{Global: true, Columns: cols, ColCount: ncols}, Rows: rows})
		frame, _ = cqlref.BuildFrame(version, 1, cqlref.OpResult, nil, w, nil)
		mut, class, detail, name = frame, "custom-class", fmt.Sprintf("%d columns of custom type %q, %d rows", ncols, cls, len(rows)), "rows-handmade"
		c.Add("custom_class_rowsets", 1)
	}
	if class == "" {
		return
	}
	c.Add("frames_mutated", 1)
	c.Add("mut_"+class, 1)
	fk := ""
	if class == "field" {
		fk = strings.SplitN(detail, " ", 2)[0]
	}
	c.Eval(runner.H("c05frame", strings.SplitN(name, "-", 2)[0], version, class, fk), true)
	key := fmt.Sprintf("%s v%d: %s", name, version, detail)
	wit := map[string]interface{}{"case": key, "frame": clipHex(mut), "well_formed_frame": clipHex(frame)}
	var p *gocql.VerifParsed
	var err error
	var pan interface{}
	alloc := c05allocated(func() { p, err, pan = c04safeParse(version, mut, nil) })
	kname := strings.SplitN(name, "-", 2)[0]
	if pan != nil {
		c.Violation(fmt.Sprintf("C05:frame:%s:%s:panic", kname, class), fmt.Sprintf("parsing a hostile frame panicked (the receive goroutine would die): %v (%s)", pan, key), wit)
		return
	}
	limit := uint64(c05allocBase + 256*len(mut))
	if alloc > limit {
		c.Violation(fmt.Sprintf("C05:frame:%s:%s:allocation", kname, class), fmt.Sprintf("parsing a %d-byte frame allocated %d MiB (%s)", len(mut), alloc>>20, key), wit)
		return
	}
	if err != nil {
		c.Add("parse_errors", 1)
		return
	}
	c.Add("parse_accepted", 1)
	if p.Iter != nil {
		for how := 0; how < 4; how++ {
			pp, perr, ppan := c04safeParse(version, mut, nil)
			if perr != nil || ppan != nil || pp.Iter == nil {
				break
			}
			var n int
			var dpan interface{}
			cons := []string{"Scan", "MapScan", "SliceMap", "Scanner"}[how]
			alloc := c05bounded(c, 1<<30, func(grown uint64) {
				c.Violation(fmt.Sprintf("C05:rows:%s:%s:allocation:unbounded", cons, class), fmt.Sprintf("%s over a %d-byte rows frame had allocated %d MiB and was still going (%s)", cons, len(mut), grown>>20, key), wit)
			}, func() { n, dpan = c05drain(pp.Iter, how) })
			c.Add("rows_iterated", int64(n))
			if dpan != nil {
				c.Violation(fmt.Sprintf("C05:rows:%s:%s:panic", cons, class), fmt.Sprintf("%s over a hostile rows result panicked in the caller's goroutine: %v (%s)", cons, dpan, key), wit)
				return
			}
			if alloc > limit+uint64(n)*4096 {
				c.Violation(fmt.Sprintf("C05:rows:%s:%s:allocation", cons, class), fmt.Sprintf("%s over a %d-byte rows frame allocated %d MiB for %d rows (%s)", cons, len(mut), alloc>>20, n, key), wit)
				return
			}
		}
	}
	if c.WantSample() {
		c.Sample(map[string]interface{}{"case": key, "accepted": err == nil, "allocated": alloc})
	}
}

// ---- values -----------------------------------------------------------------------------------------

func c05valueCase(c *runner.Ctx, i int) {
	r := c.Rng
	proto := 1 + r.Intn(5)
	t := gen.TypeTree(r, r.Intn(4), proto)
	v := gen.Value(r, t, gen.Opts{Proto: proto, MaxElems: 4, MaxBytes: 30, AllowNull: proto >= 3, UniqueElems: true})
	enc, err := cqlref.EncodeValue(t, v, proto)
	if err != nil {
		return
	}
	ti := typeInfo(t, proto)
	var forms []*gform
	if nf := naturalForm(t); nf != nil {
		forms = append(forms, nf)
	}
	for k := 0; k < 2; k++ {
		if f := pickForm(r, t, []cqlref.Val{v}, dirUnmarshal, false, proto); f != nil && unmarshalTargetOf(f) {
			forms = append(forms, f)
		}
	}
	if len(forms) == 0 {
		return
	}
	for k := 0; k < 12; k++ {
		mut := append([]byte{}, enc...)
		class := ""
		switch m := (i + k) % 8; {
		case m == 0 && len(mut) > 0:
			j := r.Intn(len(mut))
			if len(enc) <= 12 {
				j = k % len(enc)
			}
			mut, class = mut[:j], "truncate"
		case m == 1 && len(mut) >= 4:
			j := r.Intn(len(mut) - 3)
			if r.Intn(2) == 0 {
				j = 0
			}
			binary.BigEndian.PutUint32(mut[j:], uint32(c05ints[r.Intn(len(c05ints))]))
			class = "int32-overwritten"
		case m == 2 && len(mut) >= 2:
			j := r.Intn(len(mut) - 1)
			binary.BigEndian.PutUint16(mut[j:], uint16(c05ints[r.Intn(len(c05ints))]))
			class = "int16-overwritten"
		case m == 3 && len(mut) > 0:
			mut[r.Intn(len(mut))] ^= 1 << uint(r.Intn(8))
			class = "flip"
		case m == 4:
			mut = append(mut, byte(r.Intn(256)))
			class = "byte-appended"
		case m == 5:
			mut = make([]byte, r.Intn(20))
			r.Read(mut)
			class = "random"
		case m == 6:
			mut = []byte{}
			class = "empty"
		default:
			if len(mut) > 1 {
				j := r.Intn(len(mut))
				mut = append(mut[:j], mut[j+1:]...)
				class = "byte-removed"
			}
		}
		if class == "" {
			continue
		}
		for _, f := range forms {
			c.Add("values_mutated", 1)
			dst := reflect.New(f.goType())
			var uerr error
			var pan interface{}
			alloc := c05allocated(func() { uerr, pan = safeUnmarshal(ti, mut, dst.Interface()) })
			c.Eval(runner.H("c05value", t.Name0(), class, f.keyName()), true)
			key := fmt.Sprintf("%s <- %x (%s of %x) into %s, protocol %d", t, clip(mut), class, clip(enc), f, proto)
			wit := map[string]interface{}{"case": key, "type": t.String(), "bytes": fmt.Sprintf("%x", clip(mut)), "destination": f.String()}
			if pan != nil {
				bt := c05blameType(t, proto, mut, f)
				c.Violation(fmt.Sprintf("C05:value:%s:%s:panic", bt, class), fmt.Sprintf("Unmarshal panicked on hostile bytes: %v (%s)", pan, key), wit)
				continue
			}
			if alloc > uint64(c05allocBase+256*len(mut)) {
				c.Violation(fmt.Sprintf("C05:value:%s:%s:allocation", t.Name0(), class), fmt.Sprintf("Unmarshal of %d bytes allocated %d MiB (%s)", len(mut), alloc>>20, key), wit)
				continue
			}
			if uerr != nil {
				c.Add("unmarshal_errors", 1)
			} else {
				c.Add("unmarshal_accepted", 1)
			}
		}
	}
	if c.WantSample() {
		c.Sample(map[string]interface{}{"type": t.String(), "encoded_len": len(enc)})
	}
}

// c05blameType names the innermost type whose decoder panics on these bytes (best effort: the top type's name otherwise).
func c05blameType(t *cqlref.Type, proto int, b []byte, f *gform) string {
	return t.Name0()
}

// ---- schema type descriptions -----------------------------------------------------------------------------

var c05typeAtoms = []string{"int", "text", "bigint", "frozen", "list", "set", "map", "tuple", "uuid", "blob", "my_udt", "\"Quoted\"", "org.apache.cassandra.db.marshal.Int32Type", "org.apache.cassandra.db.marshal.ListType", "org.apache.cassandra.db.marshal.MapType",
	"org.apache.cassandra.db.marshal.CompositeType", "org.apache.cassandra.db.marshal.ReversedType", "org.apache.cassandra.db.marshal.UserType", "org.apache.cassandra.db.marshal.ColumnToCollectionType", "org.apache.cassandra.db.marshal.TupleType", "6b73", "DynamicCompositeType", "empty", "'quoted'", "vector"}

func c05typeString(r *rand.Rand, depth int) string {
	if depth <= 0 || r.Intn(3) == 0 {
		return c05typeAtoms[r.Intn(len(c05typeAtoms))]
	}
	open, close := "<", ">"
	if r.Intn(2) == 0 {
		open, close = "(", ")"
	}
	n := 1 + r.Intn(3)
	var parts []string
	for k := 0; k < n; k++ {
		p := c05typeString(r, depth-1)
		if open == "(" && r.Intn(4) == 0 {
			p = fmt.Sprintf("%x:%s", c04bytes(r, 4), p) // name:type pairs of UserType / collection definitions
		}
		if open == "(" && r.Intn(6) == 0 {
			p = "a=>" + p
		}
		parts = append(parts, p)
	}
	sep := []string{",", ", ", " , "}[r.Intn(3)]
	return c05typeAtoms[r.Intn(len(c05typeAtoms))] + open + strings.Join(parts, sep) + close
}

func c05typeStringCase(c *runner.Ctx, i int) {
	r := c.Rng
	s := c05typeString(r, r.Intn(5))
	class := "generated"
	switch i % 6 {
	case 1:
		if len(s) > 0 {
			j := r.Intn(len(s))
			s, class = s[:j], "truncated"
		}
	case 2:
		b := []byte(s)
		for k := 0; k < 1+r.Intn(3) && len(b) > 0; k++ {
			const punct = "<>(),:= \x00\xff'\""
			b[r.Intn(len(b))] = punct[r.Intn(len(punct))]
		}
		s, class = string(b), "punctuation-overwritten"
	case 3:
		n := []int{10, 100, 1000, 10000, 100000}[r.Intn(5)]
		open, close := "<", ">"
		pre := []string{"list", "frozen", "map<int,", "tuple"}[r.Intn(4)]
		if r.Intn(2) == 0 {
			open, close = "(", ")"
			pre = []string{"org.apache.cassandra.db.marshal.ListType", "org.apache.cassandra.db.marshal.ReversedType", "org.apache.cassandra.db.marshal.CompositeType"}[r.Intn(3)]
		}
		if (strings.HasPrefix(pre, "map") || pre == "tuple") && n > 1000 {
			n = 1000 // splitting map / tuple parameters rescans the rest of the string at every level: quadratic time, not this property's subject
		}
		if strings.HasSuffix(pre, ",") {
			s = strings.Repeat(pre, n) + "int" + strings.Repeat(close, n)
		} else {
			s = strings.Repeat(pre+open, n) + "int" + strings.Repeat(close, n)
		}
		if r.Intn(3) == 0 {
			s = s[:len(s)-r.Intn(n)]
		}
		class = fmt.Sprintf("nesting-%d", n)
	case 4:
		s, class = strings.Repeat([]string{"<", ">", "(", ")", ",", "frozen<", "map<"}[r.Intn(7)], 1+r.Intn(50)), "punctuation-only"
	case 5:
		b := c04bytes(r, 40)
		s, class = string(b), "random-bytes"
	}
	c.Add("type_strings", 1)
	c.Eval(runner.H("c05type", class, len(s) > 64, strings.ContainsAny(s, "<"), strings.ContainsAny(s, "(")), true)
	var pan interface{}
	alloc := c05allocated(func() {
		defer func() {
			if rec := recover(); rec != nil {
				pan = rec
			}
		}()
		gocql.VerifParseTypeStrings(s)
	})
	wit := map[string]interface{}{"class": class, "type_description": clipS(s), "length": len(s)}
	if pan != nil {
		c.Violation("C05:type-string:"+strings.SplitN(class, "-", 2)[0]+":panic", fmt.Sprintf("parsing a schema type description panicked: %v (%s: %q)", pan, class, clipS(s)), wit)
		return
	}
	if alloc > uint64(c05allocBase+4096*len(s)) {
		c.Violation("C05:type-string:"+strings.SplitN(class, "-", 2)[0]+":allocation", fmt.Sprintf("parsing a %d-byte type description allocated %d MiB (%s)", len(s), alloc>>20, class), wit)
	}
	if c.WantSample() {
		c.Sample(wit)
	}
}

// c05setStream rewrites the stream id of a response frame.
func c05setStream(frame []byte, version, stream int) {
	if version >= 3 {
		if len(frame) >= 4 {
			frame[2], frame[3] = byte(stream>>8), byte(stream)
		}
	} else if len(frame) >= 3 {
		frame[2] = byte(stream)
	}
}

// ---- schema rows -------------------------------------------------------------------------------------

var c05validators = []string{"", "int", "text", "frozen<list<int>>", "map<text, int>", "org.apache.cassandra.db.marshal.Int32Type", "org.apache.cassandra.db.marshal.UTF8Type",
	"org.apache.cassandra.db.marshal.CompositeType(org.apache.cassandra.db.marshal.Int32Type,org.apache.cassandra.db.marshal.UTF8Type)",
	"org.apache.cassandra.db.marshal.CompositeType(org.apache.cassandra.db.marshal.UTF8Type,org.apache.cassandra.db.marshal.ColumnToCollectionType(6b:org.apache.cassandra.db.marshal.ListType(org.apache.cassandra.db.marshal.Int32Type)))",
	"org.apache.cassandra.db.marshal.ReversedType(org.apache.cassandra.db.marshal.TimeUUIDType)", "org.apache.cassandra.db.marshal.CompositeType", "org.apache.cassandra.db.marshal.CompositeType()", "(", "x(", "tuple<"}

// c05schemaCase feeds compileMetadata (the step between the rows of the schema tables and
// KeyspaceMetadata) with rows a hostile, buggy or merely unusual server could return.
func c05schemaCase(c *runner.Ctx, i int) {
	r := c.Rng
	proto := 1 + r.Intn(4)
	val := func() string {
		if r.Intn(4) == 0 {
			return c05typeString(r, r.Intn(3))
		}
		return c05validators[r.Intn(len(c05validators))]
	}
	names := []string{"t1", "t2", "", "T1"}
	var tables []gocql.TableMetadata
	for k := r.Intn(4); k > 0; k-- {
		t := gocql.TableMetadata{Keyspace: "ks", Name: names[r.Intn(len(names))], KeyValidator: val(), Comparator: val(), DefaultValidator: val(), ValueAlias: []string{"", "value", "v"}[r.Intn(3)]}
		for j := r.Intn(4); j > 0; j-- {
			t.KeyAliases = append(t.KeyAliases, fmt.Sprintf("key%d", j))
		}
		for j := r.Intn(4); j > 0; j-- {
			t.ColumnAliases = append(t.ColumnAliases, fmt.Sprintf("col%d", j))
		}
		tables = append(tables, t)
	}
	idx := []int{0, 0, 0, 1, 1, 2, 3, -1, -2, 7, 100, 1 << 20, 1<<31 - 1, -1 << 31}
	var cols []gocql.ColumnMetadata
	for k := r.Intn(9); k > 0; k-- {
		cols = append(cols, gocql.ColumnMetadata{Keyspace: "ks", Table: append(names, "nosuch")[r.Intn(5)], Name: []string{"a", "b", "c", "a", ""}[r.Intn(5)],
			ComponentIndex: idx[r.Intn(len(idx))], Kind: gocql.ColumnKind(r.Intn(7)), Validator: val(), ClusteringOrder: []string{"", "", "asc", "desc", "none", "DESC"}[r.Intn(6)]})
	}
	fnames := []string{"f", "g", "", "sum"}
	var funcs []gocql.FunctionMetadata
	for k := r.Intn(3); k > 0; k-- {
		funcs = append(funcs, gocql.FunctionMetadata{Keyspace: "ks", Name: fnames[r.Intn(len(fnames))]})
	}
	var aggs []gocql.VerifAggregate
	for k := r.Intn(3); k > 0; k-- {
		aggs = append(aggs, gocql.VerifAggregate{Name: fmt.Sprintf("agg%d", k), StateFunc: fnames[r.Intn(len(fnames))], FinalFunc: fnames[r.Intn(len(fnames))]})
	}
	var views []gocql.ViewMetadata
	for k := r.Intn(3); k > 0; k-- {
		views = append(views, gocql.ViewMetadata{Keyspace: "ks", Name: fmt.Sprintf("ty%d", k), FieldNames: []string{"x", "y"}[:r.Intn(3)]})
	}
	var mvs []string
	for k := r.Intn(3); k > 0; k-- {
		mvs = append(mvs, append(names, "nosuch")[r.Intn(5)])
	}
	c.Add("schema_row_sets", 1)
	shape := fmt.Sprintf("v%d tables=%d columns=%d functions=%d aggregates=%d views=%d mvs=%d", proto, len(tables), len(cols), len(funcs), len(aggs), len(views), len(mvs))
	c.Eval(runner.H("c05schema", shape), len(cols)+len(aggs) > 0)
	var pan interface{}
	alloc := c05allocated(func() {
		defer func() {
			if rec := recover(); rec != nil {
				pan = fmt.Sprintf("%v\n%s", rec, c05stack())
			}
		}()
		gocql.VerifCompileMetadata(proto, "ks", tables, cols, funcs, aggs, views, mvs)
	})
	wit := map[string]interface{}{"shape": shape, "tables": fmt.Sprintf("%+v", tables), "columns": clipS(fmt.Sprintf("%+v", cols)), "aggregates": fmt.Sprintf("%+v", aggs), "functions": fmt.Sprintf("%+v", funcs)}
	if pan != nil {
		site := "?"
		if s := fmt.Sprint(pan); strings.Contains(s, "\n") {
			site = strings.SplitN(strings.SplitN(s, "\n", 2)[1], " <- ", 2)[0]
		}
		c.Violation("C05:schema-rows:"+site+":panic", fmt.Sprintf("building the keyspace metadata from schema-table rows panicked: %v (%s)", pan, shape), wit)
		return
	}
	if alloc > c05allocBase {
		c.Violation("C05:schema-rows:allocation", fmt.Sprintf("building the keyspace metadata from a handful of schema rows allocated %d MiB (%s)", alloc>>20, shape), wit)
	}
	if c.WantSample() {
		c.Sample(map[string]interface{}{"shape": shape})
	}
}
