// Package gen holds the seeded generators for CQL type trees and boundary-biased values.
package gen

import (
	"fmt"
	"math"
	"math/big"
	"math/rand"

	"verifharness/cqlref"
)

// TypeTree returns a random type tree of at most the given depth.  proto < 3 excludes
// tuple and UDT.
func TypeTree(r *rand.Rand, depth int, proto int) *cqlref.Type {
	if depth <= 1 || r.Intn(100) < 35 {
		return &cqlref.Type{ID: cqlref.Scalars[r.Intn(len(cqlref.Scalars))]}
	}
	n := 3
	if proto >= 3 {
		n = 5
	}
	switch r.Intn(n) {
	case 0:
		return &cqlref.Type{ID: cqlref.TList, Elem: TypeTree(r, depth-1, proto)}
	case 1:
		return &cqlref.Type{ID: cqlref.TSet, Elem: TypeTree(r, depth-1, proto)}
	case 2:
		return &cqlref.Type{ID: cqlref.TMap, Key: TypeTree(r, depth-1, proto), Elem: TypeTree(r, depth-1, proto)}
	case 3:
		k := 1 + r.Intn(4)
		t := &cqlref.Type{ID: cqlref.TTuple}
		for i := 0; i < k; i++ {
			t.Elems = append(t.Elems, TypeTree(r, depth-1, proto))
		}
		return t
	default:
		k := 1 + r.Intn(4)
		t := &cqlref.Type{ID: cqlref.TUDT, Keyspace: "ks", Name: fmt.Sprintf("udt%d", r.Intn(1000))}
		for i := 0; i < k; i++ {
			t.Elems = append(t.Elems, TypeTree(r, depth-1, proto))
			t.Fields = append(t.Fields, fmt.Sprintf("f%d", i))
		}
		return t
	}
}

var pow2 = func() []*big.Int {
	var out []*big.Int
	for i := 0; i <= 140; i++ {
		out = append(out, new(big.Int).Lsh(big.NewInt(1), uint(i)))
	}
	return out
}()

// BoundaryInt returns an integer biased to sign / width boundaries. maxBits bounds |x|.
func BoundaryInt(r *rand.Rand, maxBits int) *big.Int {
	switch r.Intn(10) {
	case 0:
		return big.NewInt(int64(r.Intn(5) - 2))
	case 1, 2, 3, 4:
		// +-2^k + {-2..2}
		k := r.Intn(maxBits + 1)
		x := new(big.Int).Set(pow2[k])
		x.Add(x, big.NewInt(int64(r.Intn(5)-2)))
		if r.Intn(2) == 0 {
			x.Neg(x)
		}
		return x
	case 5:
		// 256^k * small, negative powers of 256
		k := r.Intn(maxBits/8 + 1)
		x := new(big.Int).Lsh(big.NewInt(int64(r.Intn(255)+1)), uint(8*k))
		if r.Intn(2) == 0 {
			x.Neg(x)
		}
		return x
	default:
		bits := 1 + r.Intn(maxBits)
		x := new(big.Int).Rand(r, pow2[bits])
		if r.Intn(2) == 0 {
			x.Neg(x)
		}
		return x
	}
}

func clampBits(id int) int {
	switch id {
	case cqlref.TTinyint:
		return 7
	case cqlref.TSmallint:
		return 15
	case cqlref.TInt:
		return 31
	case cqlref.TBigint, cqlref.TCounter, cqlref.TTime, cqlref.TTimestamp:
		return 63
	}
	return 130
}

func fits(x *big.Int, bits int) bool {
	lim := pow2[bits]
	return x.Cmp(new(big.Int).Neg(lim)) >= 0 && x.Cmp(lim) < 0
}

var floatSpecial32 = []uint32{0, 0x80000000, 0x7f800000, 0xff800000, 0x7fc00000, 0x7fc00001, 0xffc12345, 0x7f800001, 1, 0x007fffff, 0x00800000, 0x7f7fffff, 0x3f800000}
var floatSpecial64 = []uint64{0, 0x8000000000000000, 0x7ff0000000000000, 0xfff0000000000000, 0x7ff8000000000000, 0x7ff8000000000001, 0xfff8123456789abc, 0x7ff0000000000001, 1, 0x000fffffffffffff, 0x0010000000000000, 0x7fefffffffffffff, 0x3ff0000000000000}

// Opts tunes value generation.
type Opts struct {
	Proto       int
	AllowNull   bool // null elements inside collections (proto >= 3), null tuple/udt fields
	OutOfRange  int  // percent of integer scalars generated outside the CQL type's range
	MaxElems    int
	MaxBytes    int
	UniqueElems bool
}

// Value returns a boundary-biased logical value of type t (never null at top level).
func Value(r *rand.Rand, t *cqlref.Type, o Opts) cqlref.Val {
	if o.MaxElems == 0 {
		o.MaxElems = 4
	}
	if o.MaxBytes == 0 {
		o.MaxBytes = 24
	}
	switch t.ID {
	case cqlref.TAscii:
		n := r.Intn(o.MaxBytes + 1)
		b := make([]byte, n)
		for i := range b {
			b[i] = byte(32 + r.Intn(95))
		}
		return cqlref.Val{B: b}
	case cqlref.TText, cqlref.TVarchar:
		n := r.Intn(o.MaxBytes + 1)
		rs := make([]rune, n)
		for i := range rs {
			switch r.Intn(6) {
			case 0:
				rs[i] = rune(0x80 + r.Intn(0x700))
			case 1:
				rs[i] = rune(0x4e00 + r.Intn(0x1000))
			case 2:
				rs[i] = rune(0x1f600 + r.Intn(64))
			case 3:
				rs[i] = 0
			default:
				rs[i] = rune(32 + r.Intn(95))
			}
		}
		return cqlref.Val{B: []byte(string(rs))}
	case cqlref.TBlob:
		n := r.Intn(o.MaxBytes + 1)
		b := make([]byte, n)
		r.Read(b)
		return cqlref.Val{B: b}
	case cqlref.TBoolean:
		return cqlref.Val{Bool: r.Intn(2) == 0}
	case cqlref.TTinyint, cqlref.TSmallint, cqlref.TInt, cqlref.TBigint, cqlref.TCounter:
		bits := clampBits(t.ID)
		if r.Intn(100) < o.OutOfRange {
			// up to one Go width above
			x := BoundaryInt(r, 64)
			return cqlref.Val{I: x}
		}
		for {
			x := BoundaryInt(r, bits)
			if fits(x, bits) {
				return cqlref.Val{I: x}
			}
		}
	case cqlref.TVarint:
		return cqlref.Val{I: BoundaryInt(r, 130)}
	case cqlref.TDecimal:
		sc := []int32{0, 1, -1, 2, 10, 38, -38, math.MaxInt32, math.MinInt32, int32(r.Intn(2000) - 1000)}
		return cqlref.Val{I: BoundaryInt(r, 130), Scale: sc[r.Intn(len(sc))]}
	case cqlref.TTime:
		// ns since midnight 0..86399999999999, plus boundaries
		day := int64(86400000000000)
		c := []int64{0, 1, day - 1, day / 2, r.Int63n(day), 999999999, 1000000000}
		return cqlref.Val{I: big.NewInt(c[r.Intn(len(c))])}
	case cqlref.TTimestamp:
		// ms since epoch: around 0, before 1970, before 1677, after 2262, random
		c := []int64{0, 1, -1, 999, 1000, -999, -1000, -1001, -9223372036855, 9223372036855, -9223372036854, 9223372036854,
			-62135596800000 + 1, 253402300799999, r.Int63n(1 << 42), -r.Int63n(1 << 42), r.Int63n(1 << 52), -r.Int63n(1 << 52), -1500, 1500, -86400000, -86399999, -43200000}
		return cqlref.Val{I: big.NewInt(c[r.Intn(len(c))])}
	case cqlref.TDate:
		// days since epoch (signed)
		c := []int64{0, 1, -1, -2, 365, -365, -719162 /*0001-01-01*/, 2932896 /*9999-12-31*/, int64(r.Intn(60000) - 30000), -106752, 106751, -(1 << 31), (1 << 31) - 1, int64(r.Intn(1<<20) - 1<<19)}
		return cqlref.Val{I: big.NewInt(c[r.Intn(len(c))])}
	case cqlref.TFloat:
		if r.Intn(3) == 0 {
			return cqlref.Val{Bits: uint64(floatSpecial32[r.Intn(len(floatSpecial32))])}
		}
		return cqlref.Val{Bits: uint64(r.Uint32())}
	case cqlref.TDouble:
		if r.Intn(3) == 0 {
			return cqlref.Val{Bits: floatSpecial64[r.Intn(len(floatSpecial64))]}
		}
		return cqlref.Val{Bits: r.Uint64()}
	case cqlref.TUUID, cqlref.TTimeUUID:
		b := make([]byte, 16)
		r.Read(b)
		if t.ID == cqlref.TTimeUUID || r.Intn(2) == 0 {
			b[6] = b[6]&0x0f | 0x10
			b[8] = b[8]&0x3f | 0x80
		}
		if r.Intn(12) == 0 {
			for i := range b {
				b[i] = 0xff
			}
			if t.ID == cqlref.TTimeUUID {
				b[6] = 0x1f
				b[8] = 0xbf
			}
		}
		return cqlref.Val{B: b}
	case cqlref.TInet:
		if r.Intn(2) == 0 {
			b := make([]byte, 4)
			r.Read(b)
			return cqlref.Val{B: b}
		}
		b := make([]byte, 16)
		r.Read(b)
		// avoid generating the v4-mapped prefix by accident (a 16-byte mapped value is the same address as its 4-byte form)
		if b[10] == 0xff && b[11] == 0xff {
			b[0] |= 1
		}
		if r.Intn(8) == 0 {
			for i := range b[:15] {
				b[i] = 0
			}
			b[15] = 1
		}
		return cqlref.Val{B: b}
	case cqlref.TDuration:
		pick32 := func() int32 {
			c := []int32{0, 1, -1, 63, 64, -64, -65, 8191, 8192, -8192, -8193, math.MaxInt32, math.MinInt32, int32(r.Uint32())}
			return c[r.Intn(len(c))]
		}
		pick64 := func() int64 {
			c := []int64{0, 1, -1, 63, 64, -64, -65, 1 << 20, -(1 << 20), 1<<55 - 1, 1 << 55, 1 << 56, -(1 << 56), math.MaxInt64, math.MinInt64, int64(r.Uint64()), r.Int63n(1 << 40)}
			return c[r.Intn(len(c))]
		}
		return cqlref.Val{Months: pick32(), Days: pick32(), Nanos: pick64()}
	case cqlref.TList, cqlref.TSet:
		n := r.Intn(o.MaxElems + 1)
		v := cqlref.Val{Elems: []cqlref.Val{}}
		seen := map[string]bool{}
		for i := 0; i < n; i++ {
			var e cqlref.Val
			if o.AllowNull && o.Proto >= 3 && t.ID == cqlref.TList && r.Intn(8) == 0 {
				e = cqlref.Val{Null: true}
			} else {
				e = Value(r, t.Elem, o)
			}
			if t.ID == cqlref.TSet || o.UniqueElems {
				k := keyOf(t.Elem, e, o.Proto)
				if seen[k] {
					continue
				}
				seen[k] = true
			}
			v.Elems = append(v.Elems, e)
		}
		return v
	case cqlref.TMap:
		n := r.Intn(o.MaxElems + 1)
		v := cqlref.Val{Elems: []cqlref.Val{}, Keys: []cqlref.Val{}}
		seen := map[string]bool{}
		for i := 0; i < n; i++ {
			k := Value(r, t.Key, o)
			ks := keyOf(t.Key, k, o.Proto)
			if seen[ks] {
				continue
			}
			seen[ks] = true
			var e cqlref.Val
			if o.AllowNull && o.Proto >= 3 && r.Intn(8) == 0 {
				e = cqlref.Val{Null: true}
			} else {
				e = Value(r, t.Elem, o)
			}
			v.Keys = append(v.Keys, k)
			v.Elems = append(v.Elems, e)
		}
		return v
	case cqlref.TTuple, cqlref.TUDT:
		v := cqlref.Val{Elems: []cqlref.Val{}, Present: -1}
		for _, et := range t.Elems {
			if o.AllowNull && r.Intn(6) == 0 {
				v.Elems = append(v.Elems, cqlref.Val{Null: true})
			} else {
				v.Elems = append(v.Elems, Value(r, et, o))
			}
		}
		return v
	}
	return cqlref.Val{B: []byte{}}
}

func keyOf(t *cqlref.Type, v cqlref.Val, proto int) string {
	b, err := cqlref.EncodeValue(t, v, proto)
	if err != nil {
		return fmt.Sprintf("err:%v:%s", err, v.String(t))
	}
	if b == nil {
		return "null"
	}
	return string(b)
}
