// Package perturb is the controller behind gocql's verifPoint hook: seeded sleeps / yields
// at named points between critical sections, hit counters and a schedule signature.
package perturb

import (
	"hash/fnv"
	"runtime"
	"sort"
	"sync"
	"sync/atomic"
	"time"

	"github.com/gocql/gocql"
)

type Controller struct {
	seed      uint64
	intensity uint64 // 0..100: percent of hits that are perturbed
	maxSleep  time.Duration
	mu        sync.Mutex
	hits      map[string]*int64
	sig       []uint32
	total     int64
	// Fixed adds a fixed delay at a point (after the seeded decision)
	Fixed map[string]time.Duration
	// Block, if set for a point, is called at every hit of that point
	OnHit map[string]func()
	// Activity, if non-nil, is bumped at every hit (for hang / quiescence detection)
	Activity *int64
}

var current atomic.Value // *Controller

// Install makes c the active controller (one per process at a time).
func Install(seed int64, intensity int, maxSleep time.Duration, activity *int64) *Controller {
	c := &Controller{Activity: activity, seed: uint64(seed), intensity: uint64(intensity), maxSleep: maxSleep, hits: map[string]*int64{}, Fixed: map[string]time.Duration{}, OnHit: map[string]func(){}}
	current.Store(c)
	gocql.VerifSetHook(hook)
	return c
}

func Uninstall() {
	gocql.VerifSetHook(nil)
	current.Store((*Controller)(nil))
}

func hook(name string) {
	c, _ := current.Load().(*Controller)
	if c == nil {
		return
	}
	c.hit(name)
}

func (c *Controller) hit(name string) {
	c.mu.Lock()
	p := c.hits[name]
	if p == nil {
		p = new(int64)
		c.hits[name] = p
	}
	*p++
	n := *p
	c.total++
	if len(c.sig) < 256 {
		h := fnv.New32a()
		h.Write([]byte(name))
		c.sig = append(c.sig, h.Sum32())
	}
	fixed := c.Fixed[name]
	cb := c.OnHit[name]
	c.mu.Unlock()
	if c.Activity != nil {
		atomic.AddInt64(c.Activity, 1)
	}
	if cb != nil {
		cb()
	}
	if c.intensity > 0 {
		h := fnv.New64a()
		var b [16]byte
		for i := 0; i < 8; i++ {
			b[i] = byte(c.seed >> (8 * uint(i)))
			b[8+i] = byte(uint64(n) >> (8 * uint(i)))
		}
		h.Write(b[:])
		h.Write([]byte(name))
		x := h.Sum64()
		if x%100 < c.intensity {
			switch (x >> 8) % 4 {
			case 0, 1:
				runtime.Gosched()
			default:
				// 10µs .. maxSleep, biased to short
				d := time.Duration(10+(x>>16)%200) * time.Microsecond
				if (x>>32)%8 == 0 && c.maxSleep > 0 {
					d = time.Duration((x >> 40) % uint64(c.maxSleep))
				}
				time.Sleep(d)
			}
		}
	}
	if fixed > 0 {
		time.Sleep(fixed)
	}
}

// SetOnHit registers fn to run at every hit of the named point.
func (c *Controller) SetOnHit(name string, fn func()) {
	c.mu.Lock()
	c.OnHit[name] = fn
	c.mu.Unlock()
}

// Hits returns hit counts per point.
func (c *Controller) Hits() map[string]int64 {
	c.mu.Lock()
	defer c.mu.Unlock()
	out := map[string]int64{}
	for k, v := range c.hits {
		out[k] = *v
	}
	return out
}

func (c *Controller) Total() int64 {
	c.mu.Lock()
	defer c.mu.Unlock()
	return c.total
}

// Signature hashes the order of the first 256 hook events.
func (c *Controller) Signature() uint64 {
	c.mu.Lock()
	defer c.mu.Unlock()
	h := fnv.New64a()
	for _, s := range c.sig {
		h.Write([]byte{byte(s), byte(s >> 8), byte(s >> 16), byte(s >> 24)})
	}
	return h.Sum64()
}

func (c *Controller) Points() []string {
	c.mu.Lock()
	defer c.mu.Unlock()
	var l []string
	for k := range c.hits {
		l = append(l, k)
	}
	sort.Strings(l)
	return l
}
