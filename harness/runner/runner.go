// Package runner is the parent/worker skeleton shared by every property check.
//
// A property is a list of phases; a phase is a deterministic, indexed list of cases
// (case i is fully determined by seed, phase name and i).  The parent splits each phase
// over worker child processes, every worker logs BEGIN/END per case, violations are
// appended to disk the moment they are seen, and a worker that dies (panic on a driver
// goroutine, runtime fatal error, hang) costs exactly the case it was running: the parent
// turns the death into a violation (or an inconclusive note) and restarts after it.
package runner

import (
	"encoding/binary"
	"encoding/json"
	"fmt"
	"hash/fnv"
	"math/rand"
	"os"
	"path/filepath"
	"runtime"
	"sort"
	"strings"
	"sync"
	"sync/atomic"
	"time"
)

type Phase struct {
	Name    string
	Variant string // plain | race | appengine
	Cases   int
	Shards  int // worker processes (0 = default)
	// CaseTimeout: watchdog per case. When it fires the worker takes goroutine dumps and
	// decides hang (stable blocked Guard) vs inconclusive; either way the worker exits.
	CaseTimeout time.Duration
	Setup       func(c *Ctx)
	Run         func(c *Ctx, i int)
	Finish      func(c *Ctx)
	// Required counters: a phase whose summed counter is 0 observed nothing for that
	// scenario class; the check then fails as inconclusive (no VIOLATION line).
	Required []string
	// NoRaceAttribution: race reports in this phase are not attributed (harness only).
	MemLimitMB int
}

type Prop struct {
	ID          string
	Level       string
	Technique   string
	Rule        string
	Assumptions []string
	Phases      func(tier string) []Phase
	// RaceOwner reports whether a race whose gocql frames are fns belongs to this property.
	RaceOwner func(fns []string) bool
}

var registry = map[string]*Prop{}

func Register(p *Prop) { registry[p.ID] = p }
func Lookup(id string) *Prop {
	return registry[id]
}
func All() []string {
	var ids []string
	for k := range registry {
		ids = append(ids, k)
	}
	sort.Strings(ids)
	return ids
}

type Violation struct {
	Key     string      `json:"key"`
	What    string      `json:"what"`
	Phase   string      `json:"phase"`
	Case    int         `json:"case"`
	Witness interface{} `json:"witness,omitempty"`
}

type Result struct {
	Evaluations  int64              `json:"evaluations"`
	Counters     map[string]int64   `json:"counters"`
	Samples      []interface{}      `json:"samples"`
	Inconclusive map[string]string  `json:"inconclusive"`
	Sets         map[string][]string `json:"sets"`
	Done         bool               `json:"done"`
	LastCase     int                `json:"last_case"`
}

// Ctx is what a case sees.
type Ctx struct {
	Prop    string
	Tier    string
	Seed    int64
	Phase   string
	Shard   int
	NShards int
	OutDir  string
	Replay  bool

	Rng  *rand.Rand
	Case int

	mu        sync.Mutex
	res       Result
	hashes    []byte
	hashF     *os.File
	violF     *os.File
	progF     *os.File
	maxSample int
	sets      map[string]map[string]struct{}
	guards    map[int64]*guard
	guardSeq  int64
	nviol     int64
	nknown    int64
	known     map[string]bool
	// Activity is bumped by harness components (memnet I/O, hook hits) so the hang
	// detector can tell "blocked for good" from "slow".
	Activity int64
	State    interface{} // per-worker state set by Setup
	abort    func()
}

type guard struct {
	name string
	gid  int64
	t0   time.Time
}

func CaseSeed(seed int64, phase string, i int) int64 {
	h := fnv.New64a()
	fmt.Fprintf(h, "%d|%s|%d", seed, phase, i)
	return int64(h.Sum64() & 0x7fffffffffffffff)
}

// H hashes arbitrary printable parts to a case-identity hash.
func H(parts ...interface{}) uint64 {
	h := fnv.New64a()
	for _, p := range parts {
		switch v := p.(type) {
		case []byte:
			h.Write(v)
		case string:
			h.Write([]byte(v))
		default:
			fmt.Fprintf(h, "%v", v)
		}
		h.Write([]byte{0})
	}
	return h.Sum64()
}

// Eval records one evaluated case; nontrivial cases contribute their hash to the
// distinct_nontrivial count (union over all workers, counted by the parent).
func (c *Ctx) Eval(hash uint64, nontrivial bool) {
	c.mu.Lock()
	c.res.Evaluations++
	if nontrivial {
		var b [8]byte
		binary.LittleEndian.PutUint64(b[:], hash)
		c.hashes = append(c.hashes, b[:]...)
		if len(c.hashes) >= 1<<16 {
			c.flushHashesLocked()
		}
	}
	c.mu.Unlock()
}

func (c *Ctx) flushHashesLocked() {
	if c.hashF != nil && len(c.hashes) > 0 {
		c.hashF.Write(c.hashes)
	}
	c.hashes = c.hashes[:0]
}

func (c *Ctx) Add(counter string, n int64) {
	c.mu.Lock()
	c.res.Counters[counter] += n
	c.mu.Unlock()
}

// SetAdd records membership of v in a named set (e.g. distinct outcome classes seen).
func (c *Ctx) SetAdd(set, v string) {
	c.mu.Lock()
	m := c.sets[set]
	if m == nil {
		m = map[string]struct{}{}
		c.sets[set] = m
	}
	if len(m) < 4096 {
		m[v] = struct{}{}
	}
	c.mu.Unlock()
}

func (c *Ctx) Sample(v interface{}) {
	c.mu.Lock()
	if len(c.res.Samples) < c.maxSample {
		c.res.Samples = append(c.res.Samples, v)
	}
	c.mu.Unlock()
}

func (c *Ctx) WantSample() bool {
	c.mu.Lock()
	defer c.mu.Unlock()
	return len(c.res.Samples) < c.maxSample
}

func (c *Ctx) Inconclusive(class, why string) {
	c.mu.Lock()
	if _, ok := c.res.Inconclusive[class]; !ok && len(c.res.Inconclusive) < 64 {
		c.res.Inconclusive[class] = why
	}
	c.res.Counters["inconclusive:"+class]++
	c.mu.Unlock()
}

// Violation records a violation immediately on disk.
func (c *Ctx) Violation(key, what string, witness interface{}) {
	v := Violation{Key: key, What: what, Phase: c.Phase, Case: c.Case, Witness: witness}
	b, err := json.Marshal(v)
	if err != nil {
		v.Witness = fmt.Sprintf("%+v", witness)
		b, _ = json.Marshal(v)
	}
	c.mu.Lock()
	if c.known[key] {
		// a recorded known finding: keep a few witnesses, do not let it trigger the early stop
		c.nknown++
		if c.violF != nil && c.nknown < 200 {
			c.violF.Write(append(b, '\n'))
		}
		c.mu.Unlock()
		return
	}
	c.nviol++
	if c.violF != nil && c.nviol < 20000 {
		c.violF.Write(append(b, '\n'))
	}
	c.mu.Unlock()
	if c.Replay {
		fmt.Printf("REPLAY-VIOLATION key=%s what=%s\n", key, what)
	}
}

// Broken records a defect of the harness itself (never a finding about gocql).
func (c *Ctx) Broken(msg string) {
	f, err := os.OpenFile(filepath.Join(c.OutDir, "broken.txt"), os.O_CREATE|os.O_WRONLY|os.O_APPEND, 0o644)
	if err == nil {
		if len(msg) > 4000 {
			msg = msg[:4000]
		}
		fmt.Fprintf(f, "%s\n----\n", msg)
		f.Close()
	}
	if c.Replay {
		fmt.Printf("REPLAY-HARNESS-BROKEN %s\n", msg)
	}
}

func (c *Ctx) Violations() int64 {
	c.mu.Lock()
	defer c.mu.Unlock()
	return c.nviol
}

func (c *Ctx) Touch() { atomic.AddInt64(&c.Activity, 1) }

// AbortWorker ends this worker process at once (after what was recorded so far is on disk); the parent starts a
// new worker after the current case. For cases that must be cut short because the driver code under test cannot be
// stopped any other way (e.g. it is allocating without bound) - the violation has to be recorded before the call.
func (c *Ctx) AbortWorker() {
	if c.abort != nil {
		c.abort()
	}
	os.Exit(5)
}

// Guard runs fn (in the calling goroutine) and registers it as "an operation that must
// return" for the hang detector.
func (c *Ctx) Guard(name string, fn func()) {
	id := atomic.AddInt64(&c.guardSeq, 1)
	g := &guard{name: name, gid: curGID(), t0: time.Now()}
	c.mu.Lock()
	c.guards[id] = g
	c.mu.Unlock()
	defer func() {
		c.mu.Lock()
		delete(c.guards, id)
		c.mu.Unlock()
	}()
	fn()
}

func curGID() int64 {
	var buf [64]byte
	n := runtime.Stack(buf[:], false)
	// "goroutine 123 [running]:"
	f := strings.Fields(string(buf[:n]))
	var id int64
	if len(f) >= 2 {
		fmt.Sscanf(f[1], "%d", &id)
	}
	return id
}

type gdump struct {
	id    int64
	state string
	mins  int // "N minutes" in the header: the runtime's own lower bound of how long this wait has lasted without a wake-up
	top   string // top-most gocql frame
	all   string
}

func dumpGoroutines() map[int64]gdump {
	buf := make([]byte, 64<<20)
	n := runtime.Stack(buf, true)
	out := map[int64]gdump{}
	for _, blk := range strings.Split(string(buf[:n]), "\n\n") {
		lines := strings.Split(blk, "\n")
		if len(lines) == 0 || !strings.HasPrefix(lines[0], "goroutine ") {
			continue
		}
		var g gdump
		var st string
		fmt.Sscanf(lines[0], "goroutine %d [%s", &g.id, &st)
		i := strings.Index(lines[0], "[")
		j := strings.LastIndex(lines[0], "]")
		if i >= 0 && j > i {
			g.state = lines[0][i+1 : j]
			for _, part := range strings.Split(g.state, ",") {
				var m int
				if n, _ := fmt.Sscanf(strings.TrimSpace(part), "%d minutes", &m); n == 1 {
					g.mins = m
				}
			}
			if k := strings.Index(g.state, ","); k >= 0 {
				g.state = g.state[:k]
			}
		}
		for _, l := range lines[1:] {
			if strings.HasPrefix(l, "github.com/gocql/gocql") {
				g.top = funcName(l)
				break
			}
		}
		g.all = blk
		out[g.id] = g
	}
	return out
}

func funcName(l string) string {
	l = strings.TrimPrefix(l, "created by ")
	if i := strings.LastIndex(l, "("); i > 0 {
		l = l[:i]
	}
	l = strings.TrimPrefix(l, "github.com/gocql/gocql")
	l = strings.TrimPrefix(l, ".")
	l = strings.TrimPrefix(l, "/")
	return l
}

// RunWorker executes cases start.. of phase ph that belong to this shard.
func RunWorker(p *Prop, ph *Phase, c *Ctx, start int, only int) int {
	os.MkdirAll(c.OutDir, 0o755)
	c.res.Counters = map[string]int64{}
	c.res.Inconclusive = map[string]string{}
	c.sets = map[string]map[string]struct{}{}
	c.guards = map[int64]*guard{}
	c.known = map[string]bool{}
	if dir := os.Getenv("VERIF_DIR"); dir != "" {
		for k, f := range loadKnown(dir) {
			if f.Status == "known" {
				c.known[k] = true
			}
		}
	}
	c.maxSample = 3
	c.hashF, _ = os.OpenFile(filepath.Join(c.OutDir, "hashes.bin"), os.O_CREATE|os.O_WRONLY|os.O_APPEND, 0o644)
	c.violF, _ = os.OpenFile(filepath.Join(c.OutDir, "violations.jsonl"), os.O_CREATE|os.O_WRONLY|os.O_APPEND, 0o644)
	c.progF, _ = os.OpenFile(filepath.Join(c.OutDir, "progress.log"), os.O_CREATE|os.O_WRONLY|os.O_APPEND, 0o644)
	writeRes := func(done bool) {
		c.mu.Lock()
		c.flushHashesLocked()
		c.res.Done = done
		c.res.Sets = map[string][]string{}
		for k, m := range c.sets {
			for v := range m {
				c.res.Sets[k] = append(c.res.Sets[k], v)
			}
			sort.Strings(c.res.Sets[k])
		}
		b, _ := json.Marshal(&c.res)
		c.mu.Unlock()
		tmp := filepath.Join(c.OutDir, "result.json.tmp")
		os.WriteFile(tmp, b, 0o644)
		os.Rename(tmp, filepath.Join(c.OutDir, "result.json"))
	}
	c.abort = func() {
		writeRes(false)
		fmt.Fprintf(c.progF, "A %d\n", c.Case)
		os.Exit(5)
	}
	if ph.Setup != nil {
		ph.Setup(c)
	}
	timeout := ph.CaseTimeout
	if timeout == 0 {
		timeout = 120 * time.Second
	}
	for i := start; i < ph.Cases; i++ {
		if only >= 0 {
			if i != only {
				continue
			}
		} else if i%c.NShards != c.Shard {
			continue
		}
		if c.Violations() > 40 && only < 0 {
			// the tree is clearly broken for this property; the witnesses are on disk, do not grind through the rest
			c.Add("cases_skipped_after_many_violations", 1)
			continue
		}
		c.Case = i
		c.Rng = rand.New(rand.NewSource(CaseSeed(c.Seed, ph.Name, i)))
		fmt.Fprintf(c.progF, "B %d\n", i)
		done := make(chan interface{}, 1)
		go func() {
			defer func() {
				if r := recover(); r != nil {
					buf := make([]byte, 16<<10)
					n := runtime.Stack(buf, false)
					done <- fmt.Sprintf("%v\n%s", r, buf[:n])
					return
				}
				done <- nil
			}()
			ph.Run(c, i)
		}()
		timer := time.NewTimer(timeout)
		select {
		case r := <-done:
			timer.Stop()
			if r != nil {
				// a panic that reached the harness goroutine running the case
				s := r.(string)
				if topGocqlFrame(s) == "none" {
					c.Broken("panic inside the harness while running case " + fmt.Sprint(i) + ": " + s)
					continue
				}
				c.Violation(c.Prop+":panic-in-case:"+topGocqlFrame(s), "panic escaped to the caller: "+firstLine(s), map[string]interface{}{"stack": s})
			}
		case <-timer.C:
			c.res.LastCase = i
			c.handleStall(i)
			writeRes(false)
			fmt.Fprintf(c.progF, "S %d\n", i)
			return 3
		}
		c.res.LastCase = i
		fmt.Fprintf(c.progF, "E %d\n", i)
		if i%64 == 0 {
			writeRes(false)
		}
	}
	if ph.Finish != nil {
		ph.Finish(c)
	}
	writeRes(true)
	return 0
}

func firstLine(s string) string {
	if i := strings.Index(s, "\n"); i >= 0 {
		return s[:i]
	}
	return s
}

func topGocqlFrame(stack string) string {
	for _, l := range strings.Split(stack, "\n") {
		if strings.HasPrefix(l, "github.com/gocql/gocql") {
			return funcName(l)
		}
	}
	return "none"
}

// handleStall decides between hang and inconclusive when the per-case watchdog fires.
func (c *Ctx) handleStall(i int) {
	d1 := dumpGoroutines()
	a1 := atomic.LoadInt64(&c.Activity)
	time.Sleep(8 * time.Second)
	d2 := dumpGoroutines()
	a2 := atomic.LoadInt64(&c.Activity)
	c.mu.Lock()
	var gs []*guard
	for _, g := range c.guards {
		gs = append(gs, g)
	}
	c.mu.Unlock()
	full := ""
	for _, g := range d2 {
		if strings.Contains(g.all, "github.com/gocql/gocql") {
			full += g.all + "\n\n"
		}
	}
	if len(full) > 200000 {
		full = full[:200000]
	}
	stable := a1 == a2
	reported := false
	for _, g := range gs {
		g1, ok1 := d1[g.gid]
		g2, ok2 := d2[g.gid]
		if !ok1 || !ok2 {
			continue
		}
		if g1.top == g2.top && g1.state == g2.state && g2.top != "" && g2.state != "running" && g2.state != "runnable" && stable {
			// where is it blocked: the top gocql frame; and who else is blocked in gocql with it
			c.Violation(fmt.Sprintf("%s:hang:%s:%s", c.Prop, g.name, g2.top),
				fmt.Sprintf("%s did not return: goroutine blocked [%s] in %s, no harness I/O or hook activity for 8 s", g.name, g2.state, g2.top),
				map[string]interface{}{"goroutines": full})
			reported = true
		}
	}
	if !reported {
		// Background activity (heartbeats, reconnects) can go on while one caller is stuck for good. Second
		// criterion, per goroutine: the guarded call sits in the same wait in both dumps, and after a forced GC
		// (which stamps every waiting goroutine) and another 62 s the runtime itself reports that this wait has
		// lasted "1 minutes" or more without a single wake-up - with every driver timeout of these scenarios
		// far below that.
		var cands []*guard
		for _, g := range gs {
			g1, ok1 := d1[g.gid]
			g2, ok2 := d2[g.gid]
			if ok1 && ok2 && g1.top == g2.top && g1.state == g2.state && g2.top != "" && g2.state != "running" && g2.state != "runnable" {
				cands = append(cands, g)
			}
		}
		if len(cands) > 0 {
			runtime.GC()
			time.Sleep(62 * time.Second)
			d3 := dumpGoroutines()
			full3 := ""
			for _, g := range d3 {
				if strings.Contains(g.all, "github.com/gocql/gocql") {
					full3 += g.all + "\n\n"
				}
			}
			if len(full3) > 200000 {
				full3 = full3[:200000]
			}
			for _, g := range cands {
				g2 := d2[g.gid]
				g3, ok := d3[g.gid]
				if ok && g3.top == g2.top && g3.state == g2.state && g3.mins >= 1 {
					c.Violation(fmt.Sprintf("%s:hang:%s:%s", c.Prop, g.name, g3.top),
						fmt.Sprintf("%s did not return: goroutine blocked [%s] in %s for %d minute(s) without a wake-up (Go runtime wait time), while other goroutines went on", g.name, g3.state, g3.top, g3.mins),
						map[string]interface{}{"goroutines": full3})
					reported = true
				}
			}
		}
	}
	if !reported {
		os.WriteFile(filepath.Join(c.OutDir, fmt.Sprintf("stall-%d.txt", i)), []byte(full), 0o644)
		c.Inconclusive("stall", fmt.Sprintf("case %d of %s exceeded its watchdog without a stable blocked guarded call (activity %d->%d, guards %d)", i, c.Phase, a1, a2, len(gs)))
	}
}
