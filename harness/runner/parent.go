package runner

import (
	"bufio"
	"encoding/binary"
	"encoding/json"
	"fmt"
	"os"
	"os/exec"
	"path/filepath"
	"regexp"
	"runtime"
	"sort"
	"strings"
	"sync"
	"syscall"
	"time"
)

type KnownFinding struct {
	Property string `json:"property"`
	Key      string `json:"key"`
	Status   string `json:"status"` // known | fixed
	Commit   string `json:"commit,omitempty"`
	What     string `json:"what"`
	Witness  string `json:"witness,omitempty"`
}

type phaseStat struct {
	Name        string           `json:"name"`
	Variant     string           `json:"variant"`
	Cases       int              `json:"cases"`
	Workers     int              `json:"workers"`
	Evaluations int64            `json:"evaluations"`
	Crashes     int              `json:"child_crashes"`
	Stalls      int              `json:"child_stalls"`
	RaceReports int              `json:"race_reports"`
	WallS       float64          `json:"wall_s"`
	Counters    map[string]int64 `json:"counters,omitempty"`
}

type shardOutcome struct {
	res    []Result
	viols  []Violation
	hashes []uint64
	races  []raceReport
	crash  int
	stall  int
	aborts int
	incon  map[string]string
	broken []string
}

func variantBin(bindir, variant string) string {
	switch variant {
	case "race":
		return filepath.Join(bindir, "vh-race")
	case "appengine":
		return filepath.Join(bindir, "vh-appengine")
	}
	return filepath.Join(bindir, "vh")
}

// Parent runs every phase of the property and writes the evidence file.  Returns exit code.
func Parent(p *Prop, tier string, seed int64, bindir, verif string, onlyPhase string) int {
	t0 := time.Now()
	phases := p.Phases(tier)
	work := filepath.Join(verif, "work", fmt.Sprintf("%s-%s-%d", p.ID, tier, os.Getpid()))
	os.RemoveAll(work)
	os.MkdirAll(work, 0o755)
	defer os.RemoveAll(work)

	known := loadKnown(verif)
	total := Result{Counters: map[string]int64{}, Inconclusive: map[string]string{}, Sets: map[string][]string{}}
	var allHashes []uint64
	var allViol []Violation
	var allRaces []raceReport
	var stats []phaseStat
	var broken []string
	var required []string
	sets := map[string]map[string]struct{}{}

	for pi := range phases {
		ph := &phases[pi]
		if onlyPhase != "" && ph.Name != onlyPhase {
			continue
		}
		pt0 := time.Now()
		n := ph.Shards
		if n <= 0 {
			n = runtime.NumCPU()
		}
		if n > ph.Cases {
			n = ph.Cases
		}
		if n < 1 {
			n = 1
		}
		outs := make([]*shardOutcome, n)
		var wg sync.WaitGroup
		for k := 0; k < n; k++ {
			wg.Add(1)
			go func(k int) {
				defer wg.Done()
				outs[k] = runShard(p, ph, tier, seed, bindir, work, k, n)
			}(k)
		}
		wg.Wait()
		st := phaseStat{Name: ph.Name, Variant: ph.Variant, Cases: ph.Cases, Workers: n, Counters: map[string]int64{}}
		for _, o := range outs {
			for _, r := range o.res {
				total.Evaluations += r.Evaluations
				st.Evaluations += r.Evaluations
				for k, v := range r.Counters {
					total.Counters[k] += v
					st.Counters[k] += v
				}
				for _, s := range r.Samples {
					if len(total.Samples) < 8 {
						total.Samples = append(total.Samples, s)
					}
				}
				for k, v := range r.Inconclusive {
					total.Inconclusive[ph.Name+"/"+k] = v
				}
				for k, vs := range r.Sets {
					if sets[k] == nil {
						sets[k] = map[string]struct{}{}
					}
					for _, v := range vs {
						sets[k][v] = struct{}{}
					}
				}
			}
			for k, v := range o.incon {
				total.Inconclusive[ph.Name+"/"+k] = v
			}
			allViol = append(allViol, o.viols...)
			allHashes = append(allHashes, o.hashes...)
			allRaces = append(allRaces, o.races...)
			st.Crashes += o.crash
			st.Stalls += o.stall
			st.RaceReports += len(o.races)
			broken = append(broken, o.broken...)
		}
		for _, rq := range ph.Required {
			if st.Counters[rq] == 0 {
				required = append(required, ph.Name+":"+rq)
			}
		}
		st.WallS = time.Since(pt0).Seconds()
		stats = append(stats, st)
	}

	// races -> violations (owned) or notes
	raceNotes := []string{}
	raceKeys := map[string]bool{}
	for _, r := range allRaces {
		if len(r.gocqlFns) == 0 {
			broken = append(broken, "data race inside the harness itself: "+r.summary())
			continue
		}
		key := p.ID + ":race:" + strings.Join(r.gocqlFns, "|")
		if raceKeys[key] {
			continue
		}
		raceKeys[key] = true
		if p.RaceOwner == nil || p.RaceOwner(r.gocqlFns) {
			allViol = append(allViol, Violation{Key: key, What: "data race reported by the Go race detector: " + r.summary(), Phase: r.phase, Case: -1, Witness: r.text})
		} else {
			raceNotes = append(raceNotes, "race outside this property's anchors (owned by C17): "+r.summary())
		}
	}

	// distinct count
	sort.Slice(allHashes, func(i, j int) bool { return allHashes[i] < allHashes[j] })
	distinct := 0
	for i, h := range allHashes {
		if i == 0 || h != allHashes[i-1] {
			distinct++
		}
	}

	// group violations by key
	byKey := map[string][]Violation{}
	var keys []string
	for _, v := range allViol {
		if _, ok := byKey[v.Key]; !ok {
			keys = append(keys, v.Key)
		}
		byKey[v.Key] = append(byKey[v.Key], v)
	}
	sort.Strings(keys)
	rc := 0
	newViol := 0
	knownSeen := []string{}
	os.MkdirAll(filepath.Join(verif, "replays"), 0o755)
	if old, _ := filepath.Glob(filepath.Join(verif, "replays", p.ID+"-*.json")); onlyPhase == "" {
		for _, f := range old {
			os.Remove(f)
		}
	}
	for _, k := range keys {
		vs := byKey[k]
		if kf, ok := known[k]; ok && kf.Status == "known" && kf.Property == p.ID {
			fmt.Printf("KNOWN-FINDING: property=%s %s [%s] (%d occurrences this run)\n", p.ID, kf.What, k, len(vs))
			knownSeen = append(knownSeen, k)
			continue
		}
		newViol++
		rp := filepath.Join(verif, "replays", fmt.Sprintf("%s-%016x.json", p.ID, H(k)))
		w := map[string]interface{}{"property": p.ID, "key": k, "what": vs[0].What, "seed": seed, "tier": tier, "phase": vs[0].Phase, "case": vs[0].Case, "occurrences": len(vs), "witness": vs[0].Witness}
		b, _ := json.MarshalIndent(w, "", " ")
		os.WriteFile(rp, b, 0o644)
		fmt.Printf("VIOLATION property=%s replay=%s key=%s what=%s\n", p.ID, rp, k, oneLine(vs[0].What))
		rc = 1
	}
	for _, b := range broken {
		fmt.Printf("HARNESS-BROKEN: %s\n", oneLine(b))
		if rc == 0 {
			rc = 2
		}
	}
	for _, rq := range required {
		fmt.Printf("INCONCLUSIVE: required scenario class observed nothing: %s\n", rq)
		if rc == 0 {
			rc = 3
		}
	}
	for k, v := range total.Inconclusive {
		fmt.Printf("NOTE inconclusive %s: %s\n", k, oneLine(v))
	}
	for _, n := range raceNotes {
		fmt.Printf("NOTE %s\n", oneLine(n))
	}

	// evidence
	setOut := map[string][]string{}
	for k, m := range sets {
		for v := range m {
			setOut[k] = append(setOut[k], v)
		}
		sort.Strings(setOut[k])
		if len(setOut[k]) > 200 {
			setOut[k] = append(setOut[k][:200], fmt.Sprintf("... (%d total)", len(m)))
		}
	}
	cov := map[string]interface{}{
		"evaluations":         total.Evaluations,
		"distinct_nontrivial": distinct,
		"rule":                p.Rule,
		"samples":             total.Samples,
		"phases":              stats,
		"counters":            total.Counters,
		"observed_sets":       setOut,
		"inconclusive":        total.Inconclusive,
		"known_findings_seen": knownSeen,
		"race_reports":        len(allRaces),
		"race_notes":          raceNotes,
		"technique":           p.Technique,
	}
	if total.Samples == nil {
		cov["samples"] = []interface{}{}
	}
	ev := map[string]interface{}{
		"property_id": p.ID,
		"tier":        tier,
		"seed":        seed,
		"level":       p.Level,
		"coverage":    cov,
		"assumptions": p.Assumptions,
		"wall_s":      time.Since(t0).Seconds(),
		"violations":  newViol,
	}
	if onlyPhase == "" {
		b, _ := json.MarshalIndent(ev, "", " ")
		os.MkdirAll(filepath.Join(verif, "evidence"), 0o755)
		os.WriteFile(filepath.Join(verif, "evidence", p.ID+".json"), b, 0o644)
	}
	fmt.Printf("SUMMARY property=%s tier=%s seed=%d evaluations=%d distinct_nontrivial=%d violations=%d known=%d wall=%.1fs\n",
		p.ID, tier, seed, total.Evaluations, distinct, newViol, len(knownSeen), time.Since(t0).Seconds())
	for _, st := range stats {
		fmt.Printf("  phase %-28s variant=%-9s cases=%-8d evals=%-9d crashes=%d stalls=%d races=%d wall=%.1fs\n", st.Name, st.Variant, st.Cases, st.Evaluations, st.Crashes, st.Stalls, st.RaceReports, st.WallS)
	}
	return rc
}

func oneLine(s string) string {
	s = strings.ReplaceAll(s, "\n", " ")
	if len(s) > 300 {
		s = s[:300] + "..."
	}
	return s
}

func loadKnown(verif string) map[string]KnownFinding {
	out := map[string]KnownFinding{}
	b, err := os.ReadFile(filepath.Join(verif, "known_findings.json"))
	if err != nil {
		return out
	}
	var l []KnownFinding
	if json.Unmarshal(b, &l) != nil {
		return out
	}
	for _, k := range l {
		out[k.Key] = k
	}
	return out
}

func runShard(p *Prop, ph *Phase, tier string, seed int64, bindir, work string, k, n int) *shardOutcome {
	o := &shardOutcome{incon: map[string]string{}}
	start := 0
	for attempt := 0; attempt < 400; attempt++ {
		out := filepath.Join(work, ph.Name, fmt.Sprintf("s%d-a%d", k, attempt))
		os.MkdirAll(out, 0o755)
		args := []string{"worker", "-prop", p.ID, "-tier", tier, "-seed", fmt.Sprint(seed), "-phase", ph.Name,
			"-shard", fmt.Sprint(k), "-nshards", fmt.Sprint(n), "-start", fmt.Sprint(start), "-out", out}
		cmd := exec.Command(variantBin(bindir, ph.Variant), args...)
		errF, _ := os.Create(filepath.Join(out, "stderr.txt"))
		cmd.Stdout = errF
		cmd.Stderr = errF
		cmd.Env = append(os.Environ(), "GOTRACEBACK=all", "VERIF_DIR="+filepath.Dir(filepath.Dir(work)))
		if ph.Variant == "race" {
			cmd.Env = append(cmd.Env, "GORACE=halt_on_error=0 history_size=2 log_path="+filepath.Join(out, "race"))
		}
		if ph.MemLimitMB > 0 {
			cmd.Env = append(cmd.Env, fmt.Sprintf("GOMEMLIMIT=%dMiB", ph.MemLimitMB), fmt.Sprintf("VERIF_RLIMIT_AS_MB=%d", ph.MemLimitMB*4))
		}
		cmd.SysProcAttr = &syscall.SysProcAttr{Setpgid: true}
		limit := 40 * time.Minute
		if tier == "thorough" {
			limit = 4 * time.Hour
		}
		if err := cmd.Start(); err != nil {
			o.broken = append(o.broken, "cannot start worker: "+err.Error())
			errF.Close()
			return o
		}
		done := make(chan error, 1)
		go func() { done <- cmd.Wait() }()
		var werr error
		killed := false
		select {
		case werr = <-done:
		case <-time.After(limit):
			syscall.Kill(-cmd.Process.Pid, syscall.SIGQUIT)
			select {
			case werr = <-done:
			case <-time.After(20 * time.Second):
				syscall.Kill(-cmd.Process.Pid, syscall.SIGKILL)
				werr = <-done
			}
			killed = true
		}
		errF.Close()
		code := 0
		if werr != nil {
			code = -1
			if ee, ok := werr.(*exec.ExitError); ok {
				code = ee.ExitCode()
			}
		}
		// collect
		var res Result
		if b, err := os.ReadFile(filepath.Join(out, "result.json")); err == nil {
			json.Unmarshal(b, &res)
			o.res = append(o.res, res)
		}
		if f, err := os.Open(filepath.Join(out, "violations.jsonl")); err == nil {
			sc := bufio.NewScanner(f)
			sc.Buffer(make([]byte, 1<<20), 64<<20)
			for sc.Scan() {
				var v Violation
				if json.Unmarshal(sc.Bytes(), &v) == nil {
					o.viols = append(o.viols, v)
				}
			}
			f.Close()
		}
		if b, err := os.ReadFile(filepath.Join(out, "broken.txt")); err == nil && len(b) > 0 {
			parts := strings.Split(string(b), "\n----\n")
			o.broken = append(o.broken, parts[0])
		}
		if b, err := os.ReadFile(filepath.Join(out, "hashes.bin")); err == nil {
			for i := 0; i+8 <= len(b); i += 8 {
				o.hashes = append(o.hashes, binary.LittleEndian.Uint64(b[i:]))
			}
		}
		if ph.Variant == "race" {
			rr := parseRaceLogs(out, ph.Name)
			o.races = append(o.races, rr...)
		}
		lastB, lastE, lastS := readProgress(filepath.Join(out, "progress.log"))
		stderrTail := tailFile(filepath.Join(out, "stderr.txt"), 24000)
		os.RemoveAll(out)
		if killed {
			o.incon["watchdog"] = fmt.Sprintf("worker %d of phase %s killed by the outer watchdog after %v at case %d", k, ph.Name, limit, lastB)
			return o
		}
		if (code == 0 || code == 66) && res.Done {
			// 66 is the race detector's exit status when it reported races (GORACE halt_on_error=0); the reports are parsed from its log
			return o
		}
		if code == 5 && lastB >= 0 {
			// the case asked for a fresh worker (AbortWorker); what it found is already on disk
			o.aborts++
			start = lastB + 1
			if o.aborts > 200 {
				o.incon["aborts"] = fmt.Sprintf("worker %d of phase %s was restarted by its cases more than 200 times", k, ph.Name)
				return o
			}
			continue
		}
		if code == 3 && lastS >= 0 {
			o.stall++
			start = lastS + 1
			if o.stall >= 3 {
				// every stall costs a watchdog period; three witnesses from one shard are enough
				o.incon["stalls"] = fmt.Sprintf("worker %d of phase %s stopped after 3 stalled cases (last: case %d)", k, ph.Name, lastS)
				return o
			}
			continue
		}
		// crash
		o.crash++
		if lastB < 0 || lastB == lastE {
			// died outside a case: setup/finish problem => harness broken unless stderr shows gocql panic
			if !strings.Contains(stderrTail, "github.com/gocql/gocql") {
				o.broken = append(o.broken, fmt.Sprintf("worker for phase %s exited with %d outside any case: %s", ph.Name, code, lastLines(stderrTail, 12)))
				return o
			}
		}
		class, top := classifyCrash(stderrTail)
		if class == "exit" && top == "none" {
			// No Go panic, no fatal error, no gocql frame: the process was ended from outside (OOM killer, the
			// race runtime's goroutine limit, a signal). That says nothing about the property.
			o.incon["worker-died"] = fmt.Sprintf("worker %d of phase %s ended with status %d at case %d without a panic or fatal error: %s", k, ph.Name, code, lastB, oneLine(lastLines(stderrTail, 6)))
			start = lastB + 1
			if lastB < 0 {
				return o
			}
			continue
		}
		if class == "harness" {
			o.broken = append(o.broken, fmt.Sprintf("worker for phase %s crashed inside the harness at case %d: %s", ph.Name, lastB, lastLines(stderrTail, 30)))
			return o
		}
		o.viols = append(o.viols, Violation{
			Key:     fmt.Sprintf("%s:crash:%s:%s", p.ID, top, class),
			What:    fmt.Sprintf("process died (%s) with top gocql frame %s while running case %d of phase %s", class, top, lastB, ph.Name),
			Phase:   ph.Name,
			Case:    lastB,
			Witness: map[string]interface{}{"stderr_tail": crashExcerpt(stderrTail)},
		})
		start = lastB + 1
		if lastB < 0 {
			return o
		}
	}
	o.incon["restarts"] = "too many worker restarts"
	return o
}

func readProgress(path string) (lastB, lastE, lastS int) {
	lastB, lastE, lastS = -1, -1, -1
	f, err := os.Open(path)
	if err != nil {
		return
	}
	defer f.Close()
	sc := bufio.NewScanner(f)
	for sc.Scan() {
		var t string
		var i int
		if n, _ := fmt.Sscanf(sc.Text(), "%s %d", &t, &i); n == 2 {
			switch t {
			case "B":
				lastB = i
			case "E":
				lastE = i
			case "S":
				lastS = i
			}
		}
	}
	return
}

func tailFile(path string, n int64) string {
	f, err := os.Open(path)
	if err != nil {
		return ""
	}
	defer f.Close()
	st, _ := f.Stat()
	// crash reports start with "panic:" / "fatal error:" – try to find that from the start
	b, _ := os.ReadFile(path)
	s := string(b)
	idx := -1
	for _, m := range []string{"\npanic: ", "\nfatal error: ", "panic: ", "fatal error: ", "runtime: out of memory", "unexpected fault address", "SIGSEGV"} {
		if i := strings.Index(s, m); i >= 0 && (idx < 0 || i < idx) {
			idx = i
		}
	}
	if idx >= 0 {
		s = s[idx:]
		if int64(len(s)) > n {
			s = s[:n]
		}
		return s
	}
	_ = st
	if int64(len(s)) > n {
		s = s[int64(len(s))-n:]
	}
	return s
}

func lastLines(s string, n int) string {
	l := strings.Split(strings.TrimSpace(s), "\n")
	if len(l) > n {
		l = l[len(l)-n:]
	}
	return strings.Join(l, " | ")
}

func crashExcerpt(s string) string {
	if len(s) > 6000 {
		return s[:6000]
	}
	return s
}

var reAddr = regexp.MustCompile(`0x[0-9a-f]+`)

// classifyCrash returns (class, top gocql frame) from a Go crash report.
func classifyCrash(s string) (string, string) {
	class := "exit"
	lines := strings.Split(s, "\n")
	for _, l := range lines {
		if strings.HasPrefix(l, "panic: ") {
			msg := strings.TrimPrefix(l, "panic: ")
			msg = reAddr.ReplaceAllString(msg, "X")
			msg = regexp.MustCompile(`[0-9]+`).ReplaceAllString(msg, "N")
			if i := strings.Index(msg, " [recovered]"); i >= 0 {
				msg = msg[:i]
			}
			if len(msg) > 70 {
				msg = msg[:70]
			}
			class = "panic:" + strings.TrimSpace(msg)
			break
		}
		if strings.HasPrefix(l, "fatal error: ") {
			class = "fatal:" + strings.TrimSpace(strings.TrimPrefix(l, "fatal error: "))
			break
		}
		if strings.Contains(l, "runtime: out of memory") || strings.Contains(l, "cannot allocate memory") {
			class = "fatal:out of memory"
			break
		}
	}
	// first goroutine block after the panic line is the panicking goroutine
	top := "none"
	inG := false
	harnessFirst := false
	for _, l := range lines {
		if strings.HasPrefix(l, "goroutine ") {
			if inG {
				break
			}
			inG = true
			continue
		}
		if !inG {
			continue
		}
		if l == "" {
			break
		}
		if strings.HasPrefix(l, "github.com/gocql/gocql") {
			top = funcName(l)
			break
		}
		if strings.HasPrefix(l, "verifharness/") && !strings.Contains(l, "runner.RunWorker") {
			harnessFirst = true
		}
	}
	if top == "none" {
		// any gocql frame anywhere?
		for _, l := range lines {
			if strings.HasPrefix(l, "github.com/gocql/gocql") {
				top = funcName(l)
				break
			}
		}
	}
	if top == "none" && harnessFirst && !strings.HasPrefix(class, "fatal:out of memory") && !strings.Contains(class, "stack overflow") {
		return "harness", top
	}
	return class, top
}

type raceReport struct {
	phase    string
	text     string
	gocqlFns []string
	harness  bool
}

func (r raceReport) summary() string {
	return strings.Join(r.gocqlFns, " <-> ") + " :: " + oneLine(r.text)
}

var reLine = regexp.MustCompile(`:[0-9]+ \+0x[0-9a-f]+`)

func parseRaceLogs(dir, phase string) []raceReport {
	var out []raceReport
	files, _ := filepath.Glob(filepath.Join(dir, "race.*"))
	for _, f := range files {
		b, err := os.ReadFile(f)
		if err != nil {
			continue
		}
		for _, blk := range strings.Split(string(b), "==================") {
			if !strings.Contains(blk, "WARNING: DATA RACE") {
				continue
			}
			secs := strings.Split(strings.TrimSpace(blk), "\n\n")
			var fns []string
			nacc, harnessInner := 0, 0
			for _, s := range secs {
				ls := strings.Split(s, "\n")
				hdr := strings.TrimSpace(ls[0])
				if strings.HasPrefix(hdr, "WARNING") && len(ls) > 1 {
					ls = ls[1:]
					hdr = strings.TrimSpace(ls[0])
				}
				if !(strings.Contains(hdr, " at 0x") && strings.Contains(hdr, "by ")) {
					continue
				}
				nacc++
				// the innermost non-runtime frame decides whose access it is
				for _, l := range ls[1:] {
					t := strings.TrimSpace(l)
					if t == "" || strings.HasPrefix(t, "runtime.") || strings.HasPrefix(t, "/") || strings.HasPrefix(t, "<autogenerated>") || strings.HasPrefix(t, "sync") || strings.HasPrefix(t, "internal/") {
						continue
					}
					if strings.HasPrefix(t, "verifharness/") {
						harnessInner++
					}
					break
				}
				for _, l := range ls[1:] {
					t := strings.TrimSpace(l)
					if strings.HasPrefix(t, "github.com/gocql/gocql") {
						fns = append(fns, funcName(t))
						break
					}
				}
			}
			sort.Strings(fns)
			if nacc > 0 && harnessInner == nacc {
				fns = nil // both accesses are made by harness code (possibly called from a gocql hook): a harness race
			}
			txt := reLine.ReplaceAllString(blk, "")
			txt = reAddr.ReplaceAllString(txt, "0x")
			if len(txt) > 5000 {
				txt = txt[:5000]
			}
			out = append(out, raceReport{phase: phase, text: strings.TrimSpace(txt), gocqlFns: fns})
		}
	}
	return out
}
