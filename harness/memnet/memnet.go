// Package memnet is an in-memory net.Conn pair with byte-exact recording of what the
// driver wrote, deadlines, *net.TCPAddr addresses and a fault plan on the driver's side.
package memnet

import (
	"errors"
	"io"
	"net"
	"os"
	"sync"
	"sync/atomic"
	"time"
)

// Activity counts I/O operations on all memnet conns (for hang / quiescence detection).
var Activity int64

type queue struct {
	mu       sync.Mutex
	cond     *sync.Cond
	buf      []byte
	closed   bool // writer side closed: readers see EOF after draining
	rdClosed bool // reader side closed: writers fail
}

func newQueue() *queue {
	q := &queue{}
	q.cond = sync.NewCond(&q.mu)
	return q
}

type timeoutErr struct{}

func (timeoutErr) Error() string   { return "i/o timeout" }
func (timeoutErr) Timeout() bool   { return true }
func (timeoutErr) Temporary() bool { return true }

// ErrTimeout is what reads/writes return when a deadline passes (like os.ErrDeadlineExceeded).
var ErrTimeout error = &net.OpError{Op: "io", Net: "mem", Err: os.ErrDeadlineExceeded}

// Faults is the fault plan of the driver-side conn. Offsets count bytes of the driver's
// outgoing stream on this connection.
type Faults struct {
	// WriteCutAt >= 0: the Write call that covers this stream offset accepts bytes only up
	// to it. CutErr is returned with the short count (default: a net error).
	WriteCutAt int64
	// WriteErrAt >= 0: the Write call that would start at or cover this offset fails with
	// 0 bytes accepted if it starts exactly there, else like WriteCutAt.
	CutErr error
	// WriteDelayFn, if set, is asked before every driver-side write how long the transport takes to accept it.
	WriteDelayFn func() time.Duration
	// StallWritesAt >= 0: from this offset on, writes block until the write deadline / close.
	StallWritesAt int64
	// StallAtBoundary: the Write call that covers StallWritesAt accepts nothing at all (the stall begins between two
	// Write calls - for a batch of frames written one call per frame: exactly on a frame boundary).
	StallAtBoundary bool
	// StallMore: further stall points (ascending, beyond StallWritesAt); each lasts one write deadline, like the first.
	StallMore []int64
	// FailSetWriteDeadline: every SetWriteDeadline call fails after this many successes (-1 = never).
	FailSetWriteDeadlineAfter int
	// ReadChunk > 0: deliver at most that many bytes per Read to the driver.
	ReadChunk int
	// WriteDelay is slept (outside locks) before every driver write.
	WriteDelay time.Duration
}

func NoFaults() Faults {
	return Faults{WriteCutAt: -1, StallWritesAt: -1, FailSetWriteDeadlineAfter: -1}
}

// Conn is one end of the pipe.
type Conn struct {
	rq, wq        *queue
	local, remote net.Addr
	driverSide    bool

	mu           sync.Mutex
	rdl, wdl     time.Time
	rdlCh, wdlCh chan struct{} // closed & replaced when deadlines change
	closed       bool
	peer         *Conn
	faults       Faults
	setWDLCalls  int
	// recording (driver side)
	Written        []byte
	WriteSizes     []int
	written        int64
	cut            bool  // a short write / write error was injected
	stallOver      bool  // the scripted write stall has ended (its deadline passed once)
	readCount      int64 // bytes read by this end (atomic)
	CutOffset      int64 // stream offset at which the cut happened
	BytesAfterCut  int64 // bytes the conn accepted after it had returned a short write
	WritesAfterCut int
	Stalls         int // scripted stalls that have ended and were followed by another one
	closeOnce      sync.Once
	OnClose        func()
}

var connSeq int64

// Pipe returns the driver-side and node-side ends.
func Pipe(driverAddr, nodeAddr *net.TCPAddr, f Faults) (driver *Conn, node *Conn) {
	a, b := newQueue(), newQueue()
	driver = &Conn{rq: a, wq: b, local: driverAddr, remote: nodeAddr, driverSide: true, faults: f, rdlCh: make(chan struct{}), wdlCh: make(chan struct{})}
	node = &Conn{rq: b, wq: a, local: nodeAddr, remote: driverAddr, faults: NoFaults(), rdlCh: make(chan struct{}), wdlCh: make(chan struct{})}
	driver.peer, node.peer = node, driver
	atomic.AddInt64(&connSeq, 1)
	return
}

func (c *Conn) LocalAddr() net.Addr  { return c.local }
func (c *Conn) RemoteAddr() net.Addr { return c.remote }

func (c *Conn) Read(p []byte) (int, error) {
	atomic.AddInt64(&Activity, 1)
	if len(p) == 0 {
		return 0, nil
	}
	q := c.rq
	for {
		c.mu.Lock()
		dl := c.rdl
		closed := c.closed
		c.mu.Unlock()
		if closed {
			return 0, io.ErrClosedPipe
		}
		if !dl.IsZero() && !time.Now().Before(dl) {
			return 0, ErrTimeout
		}
		q.mu.Lock()
		if len(q.buf) > 0 {
			n := len(p)
			if c.driverSide && c.faults.ReadChunk > 0 && n > c.faults.ReadChunk {
				n = c.faults.ReadChunk
			}
			n = copy(p[:n], q.buf)
			atomic.AddInt64(&c.readCount, int64(n))
			q.buf = q.buf[n:]
			if len(q.buf) == 0 {
				q.buf = nil
			}
			q.mu.Unlock()
			return n, nil
		}
		if q.closed {
			q.mu.Unlock()
			return 0, io.EOF
		}
		// wait for data, close or deadline
		var timer *time.Timer
		if !dl.IsZero() {
			timer = time.AfterFunc(time.Until(dl), func() {
				q.mu.Lock()
				q.cond.Broadcast()
				q.mu.Unlock()
			})
		}
		q.cond.Wait()
		q.mu.Unlock()
		if timer != nil {
			timer.Stop()
		}
	}
}

func (c *Conn) Write(p []byte) (int, error) {
	atomic.AddInt64(&Activity, 1)
	if c.driverSide && c.faults.WriteDelay > 0 {
		time.Sleep(c.faults.WriteDelay)
	}
	if c.driverSide && c.faults.WriteDelayFn != nil {
		if d := c.faults.WriteDelayFn(); d > 0 {
			time.Sleep(d)
		}
	}
	c.mu.Lock()
	if c.closed {
		c.mu.Unlock()
		return 0, io.ErrClosedPipe
	}
	dl := c.wdl
	n := len(p)
	var ferr error
	if c.driverSide {
		start := c.written
		if c.cut {
			c.BytesAfterCut += int64(len(p))
			c.WritesAfterCut++
		}
		if c.faults.StallWritesAt >= 0 && !c.stallOver && start+int64(len(p)) > c.faults.StallWritesAt {
			// accept the part before the stall point, then block until deadline / close
			acc := int(c.faults.StallWritesAt - start)
			if acc < 0 || c.faults.StallAtBoundary {
				acc = 0
			}
			c.record(p[:acc])
			c.mu.Unlock()
			c.push(p[:acc])
			for {
				c.mu.Lock()
				closed, dl := c.closed, c.wdl
				ch := c.wdlCh
				c.mu.Unlock()
				if closed {
					return acc, io.ErrClosedPipe
				}
				if !dl.IsZero() && !time.Now().Before(dl) {
					c.mu.Lock()
					if !c.cut {
						c.cut = true
						c.CutOffset = c.written
					}
					// the peer's window opens again afterwards: whatever the driver writes now is accepted
					// (and counted as bytes after a short write)
					c.stallOver = true
					if len(c.faults.StallMore) > 0 {
						// the next scripted stall takes over
						c.faults.StallWritesAt, c.faults.StallMore = c.faults.StallMore[0], c.faults.StallMore[1:]
						c.stallOver = false
						c.Stalls++
					}
					c.mu.Unlock()
					return acc, ErrTimeout
				}
				var tc <-chan time.Time
				if !dl.IsZero() {
					tc = time.After(time.Until(dl))
				}
				select {
				case <-tc:
				case <-ch:
				case <-time.After(50 * time.Millisecond):
				}
			}
		}
		if !c.cut && c.faults.WriteCutAt >= 0 && start <= c.faults.WriteCutAt && start+int64(len(p)) > c.faults.WriteCutAt {
			n = int(c.faults.WriteCutAt - start)
			ferr = c.faults.CutErr
			if ferr == nil {
				ferr = &net.OpError{Op: "write", Net: "mem", Err: errors.New("injected write failure")}
			}
			c.cut = true
			c.CutOffset = c.faults.WriteCutAt
		}
		c.record(p[:n])
	}
	c.mu.Unlock()
	if !dl.IsZero() && !time.Now().Before(dl) && ferr == nil && c.driverSide {
		// deadline already passed: behave like a socket (no bytes accepted)
	}
	if err := c.push(p[:n]); err != nil {
		return 0, err
	}
	return n, ferr
}

func (c *Conn) record(p []byte) {
	c.Written = append(c.Written, p...)
	c.WriteSizes = append(c.WriteSizes, len(p))
	c.written += int64(len(p))
}

func (c *Conn) push(p []byte) error {
	q := c.wq
	q.mu.Lock()
	defer q.mu.Unlock()
	if q.closed || q.rdClosed {
		return io.ErrClosedPipe
	}
	q.buf = append(q.buf, p...)
	q.cond.Broadcast()
	return nil
}

func (c *Conn) Close() error {
	c.mu.Lock()
	if c.closed {
		c.mu.Unlock()
		return nil
	}
	c.closed = true
	close(c.wdlCh)
	c.wdlCh = make(chan struct{})
	cb := c.OnClose
	c.mu.Unlock()
	atomic.AddInt64(&Activity, 1)
	// our outgoing queue: peer sees EOF after draining
	c.wq.mu.Lock()
	c.wq.closed = true
	c.wq.cond.Broadcast()
	c.wq.mu.Unlock()
	// our incoming queue: wake our readers, make peer writes fail
	c.rq.mu.Lock()
	c.rq.rdClosed = true
	c.rq.cond.Broadcast()
	c.rq.mu.Unlock()
	if cb != nil {
		cb()
	}
	return nil
}

func (c *Conn) Closed() bool {
	c.mu.Lock()
	defer c.mu.Unlock()
	return c.closed
}

func (c *Conn) SetDeadline(t time.Time) error {
	c.SetReadDeadline(t)
	return c.SetWriteDeadline(t)
}

func (c *Conn) SetReadDeadline(t time.Time) error {
	c.mu.Lock()
	c.rdl = t
	c.mu.Unlock()
	c.rq.mu.Lock()
	c.rq.cond.Broadcast()
	c.rq.mu.Unlock()
	return nil
}

func (c *Conn) SetWriteDeadline(t time.Time) error {
	c.mu.Lock()
	defer c.mu.Unlock()
	if c.closed {
		return io.ErrClosedPipe
	}
	if c.driverSide && c.faults.FailSetWriteDeadlineAfter >= 0 {
		if c.setWDLCalls >= c.faults.FailSetWriteDeadlineAfter {
			c.setWDLCalls++
			return &net.OpError{Op: "set", Net: "mem", Err: errors.New("injected SetWriteDeadline failure")}
		}
	}
	c.setWDLCalls++
	c.wdl = t
	close(c.wdlCh)
	c.wdlCh = make(chan struct{})
	return nil
}

// Snapshot returns a copy of everything the driver wrote so far and the cut state.
func (c *Conn) Snapshot() (written []byte, cut bool, cutOff int64, bytesAfter int64) {
	c.mu.Lock()
	defer c.mu.Unlock()
	return append([]byte{}, c.Written...), c.cut, c.CutOffset, c.BytesAfterCut
}

// ReadCount is the number of bytes this end has read so far.
func (c *Conn) ReadCount() int64 { return atomic.LoadInt64(&c.readCount) }

// Pending reports whether bytes are queued towards this end's reader.
func (c *Conn) Pending() int {
	c.rq.mu.Lock()
	defer c.rq.mu.Unlock()
	return len(c.rq.buf)
}
