package main

import (
	"encoding/json"
	"flag"
	"fmt"
	"os"
	"os/exec"
	"path/filepath"
	"strings"
	"syscall"

	_ "verifharness/props"
	"verifharness/runner"
)

func main() {
	if len(os.Args) < 2 {
		fmt.Fprintln(os.Stderr, "usage: vh variants|parent|worker|replay|list ...")
		os.Exit(2)
	}
	switch os.Args[1] {
	case "list":
		fmt.Println(strings.Join(runner.All(), " "))
	case "variants":
		p := runner.Lookup(os.Args[2])
		if p == nil {
			fmt.Fprintln(os.Stderr, "unknown property", os.Args[2])
			os.Exit(2)
		}
		seen := map[string]bool{}
		var vs []string
		for _, t := range []string{"quick", "thorough"} {
			for _, ph := range p.Phases(t) {
				if !seen[ph.Variant] {
					seen[ph.Variant] = true
					vs = append(vs, ph.Variant)
				}
			}
		}
		fmt.Println(strings.Join(vs, " "))
	case "parent":
		fs := flag.NewFlagSet("parent", flag.ExitOnError)
		prop := fs.String("prop", "", "")
		tier := fs.String("tier", "quick", "")
		seed := fs.Int64("seed", 1, "")
		bindir := fs.String("bindir", "", "")
		verif := fs.String("verif", "/verif", "")
		phase := fs.String("phase", "", "")
		fs.Parse(os.Args[2:])
		p := runner.Lookup(*prop)
		if p == nil {
			fmt.Fprintln(os.Stderr, "unknown property", *prop)
			os.Exit(2)
		}
		if *tier != "quick" && *tier != "thorough" {
			fmt.Fprintln(os.Stderr, "tier must be quick or thorough")
			os.Exit(2)
		}
		os.Exit(runner.Parent(p, *tier, *seed, *bindir, *verif, *phase))
	case "worker":
		fs := flag.NewFlagSet("worker", flag.ExitOnError)
		prop := fs.String("prop", "", "")
		tier := fs.String("tier", "quick", "")
		seed := fs.Int64("seed", 1, "")
		phase := fs.String("phase", "", "")
		shard := fs.Int("shard", 0, "")
		nshards := fs.Int("nshards", 1, "")
		start := fs.Int("start", 0, "")
		only := fs.Int("only", -1, "")
		out := fs.String("out", "", "")
		replay := fs.Bool("replay", false, "")
		fs.Parse(os.Args[2:])
		if mb := os.Getenv("VERIF_RLIMIT_AS_MB"); mb != "" {
			var n uint64
			fmt.Sscan(mb, &n)
			if n > 0 {
				lim := syscall.Rlimit{Cur: n << 20, Max: n << 20}
				syscall.Setrlimit(syscall.RLIMIT_AS, &lim)
			}
		}
		p := runner.Lookup(*prop)
		if p == nil {
			os.Exit(2)
		}
		for _, ph := range p.Phases(*tier) {
			if ph.Name == *phase {
				ph := ph
				c := &runner.Ctx{Prop: p.ID, Tier: *tier, Seed: *seed, Phase: ph.Name, Shard: *shard, NShards: *nshards, OutDir: *out, Replay: *replay}
				os.Exit(runner.RunWorker(p, &ph, c, *start, *only))
			}
		}
		fmt.Fprintln(os.Stderr, "unknown phase", *phase)
		os.Exit(2)
	case "replay":
		fs := flag.NewFlagSet("replay", flag.ExitOnError)
		prop := fs.String("prop", "", "")
		file := fs.String("file", "", "")
		bindir := fs.String("bindir", "", "")
		verif := fs.String("verif", "/verif", "")
		fs.Parse(os.Args[2:])
		b, err := os.ReadFile(*file)
		if err != nil {
			fmt.Fprintln(os.Stderr, err)
			os.Exit(2)
		}
		var w struct {
			Property string `json:"property"`
			Key      string `json:"key"`
			Seed     int64  `json:"seed"`
			Tier     string `json:"tier"`
			Phase    string `json:"phase"`
			Case     int    `json:"case"`
		}
		if err := json.Unmarshal(b, &w); err != nil || w.Property != *prop {
			fmt.Fprintln(os.Stderr, "bad replay file", err)
			os.Exit(2)
		}
		p := runner.Lookup(*prop)
		variant := "plain"
		for _, ph := range p.Phases(w.Tier) {
			if ph.Name == w.Phase {
				variant = ph.Variant
			}
		}
		bin := filepath.Join(*bindir, map[string]string{"plain": "vh", "race": "vh-race", "appengine": "vh-appengine"}[variant])
		out := filepath.Join(*verif, "work", fmt.Sprintf("replay-%d", os.Getpid()))
		defer os.RemoveAll(out)
		fmt.Printf("replaying %s key=%s phase=%s case=%d seed=%d\n", w.Property, w.Key, w.Phase, w.Case, w.Seed)
		cmd := exec.Command(bin, "worker", "-prop", w.Property, "-tier", w.Tier, "-seed", fmt.Sprint(w.Seed), "-phase", w.Phase,
			"-only", fmt.Sprint(w.Case), "-out", out, "-replay")
		cmd.Stdout = os.Stdout
		cmd.Stderr = os.Stderr
		err = cmd.Run()
		vb, _ := os.ReadFile(filepath.Join(out, "violations.jsonl"))
		if len(vb) > 0 || err != nil {
			fmt.Printf("REPLAY: violation reproduced (%v)\n", err)
			os.RemoveAll(out)
			os.Exit(1)
		}
		fmt.Println("REPLAY: no violation on this run")
	default:
		fmt.Fprintln(os.Stderr, "unknown subcommand")
		os.Exit(2)
	}
}
