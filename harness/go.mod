module verifharness

go 1.23

require (
	github.com/anishathalye/porcupine v1.3.0
	github.com/gocql/gocql v0.0.0
	github.com/gocql/gocql/lz4 v0.0.0
	github.com/golang/snappy v0.0.3
	gopkg.in/inf.v0 v0.9.1
)

require (
	github.com/hailocab/go-hostpool v0.0.0-20160125115350-e80d13ce29ed // indirect
	github.com/pierrec/lz4/v4 v4.1.8 // indirect
)

replace github.com/gocql/gocql => /repo

replace github.com/gocql/gocql/lz4 => /repo/lz4
