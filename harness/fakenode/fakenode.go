// Package fakenode is a scripted in-memory Cassandra node / cluster. Every request is
// decoded with the independent reference codec (cqlref); answers are produced by script.
package fakenode

import (
	"context"
	"encoding/binary"
	"errors"
	"fmt"
	"io"
	"net"
	"sort"
	"strconv"
	"strings"
	"sync"
	"sync/atomic"
	"time"

	"github.com/golang/snappy"

	"verifharness/cqlref"
	"verifharness/memnet"
)

type Handler func(sc *ServerConn, req *Req)

type Req struct {
	*cqlref.Request
	Raw     []byte // the frame exactly as received (header + possibly compressed body)
	Body    []byte // decompressed body
	Conn    *ServerConn
	Seq     int64
	Arrival time.Time
	replied int32
}

// TableColumn is one row of system_schema.columns.
type TableColumn struct {
	Name     string
	Type     string // CQL type name
	Kind     string // partition_key | clustering | regular | static
	Position int
}

// SetTable describes a table in the cluster's schema (creating the keyspace with SimpleStrategy/1 if it is unknown).
func (c *Cluster) SetTable(ks, table string, cols []TableColumn) {
	c.mu.Lock()
	defer c.mu.Unlock()
	if c.Tables == nil {
		c.Tables = map[string]map[string][]TableColumn{}
	}
	if c.Tables[ks] == nil {
		c.Tables[ks] = map[string][]TableColumn{}
	}
	c.Tables[ks][table] = cols
	if _, ok := c.Keyspaces[ks]; !ok {
		c.Keyspaces[ks] = map[string]string{"class": "org.apache.cassandra.locator.SimpleStrategy", "replication_factor": "1"}
	}
}

type PeerRow struct {
	Peer       net.IP
	RPC        net.IP
	HostID     []byte // 16 bytes; nil = null
	DC, Rack   string
	Tokens     []string
	Version    string
	SchemaVer  []byte
	NullRPC    bool
	NativePort int
}

type Node struct {
	Idx       int
	HostID    [16]byte
	IP        net.IP
	PeerIP    net.IP // node-to-node (peer / broadcast) address if it differs from the client-facing one
	Port      int
	DC, Rack  string
	Tokens    []string
	Release   string
	Supported map[string][]string
	AuthClass string
	AuthSteps int // number of AUTH_CHALLENGE rounds before AUTH_SUCCESS
	// SystemIntercept, if set, sees every QUERY before the node's own system-table logic; true = handled.
	StartupDelayNs  int64 // STARTUP is answered that much later (atomic; may be changed while the node serves)
	RefuseNext      int32 // the next that many dials are refused (atomic)
	Refused         int64 // dials refused that way (atomic)
	SystemIntercept func(sc *ServerConn, req *Req) bool
	Handler         Handler
	cluster         *Cluster
	mu              sync.Mutex
	down            bool
	conns           []*ServerConn
	// DialDelay is slept before a dial returns
	DialDelay time.Duration
	// OnStartupStep, if set, may close the conn at a handshake step: called with the opcode received
	OnHandshake func(sc *ServerConn, op byte) (drop bool)
	// V2Peers: answer system.peers_v2 (Cassandra 4 style) instead of rejecting it
	V2Peers bool
}

type Cluster struct {
	mu          sync.Mutex
	Nodes       []*Node
	Partitioner string
	SchemaVer   [16]byte
	Keyspaces   map[string]map[string]string // name -> replication map (incl. "class")
	// Tables: keyspace -> table -> columns, served from system_schema.tables / system_schema.columns
	Tables map[string]map[string][]TableColumn
	// PeersView overrides what system.peers returns when asked on node n
	PeersView func(n *Node) []PeerRow
	// LocalView overrides the system.local row of node n
	LocalView func(n *Node) *PeerRow
	// BeforePeersReply, if set, runs after the rows of a system.peers answer were determined and before the
	// answer is written (it may block: the answer then describes the cluster as it was when the query arrived)
	beforePeersReply atomic.Value // of func(n *Node)
	// FaultsFor supplies the driver-side fault plan for the k-th connection to a node
	FaultsFor func(n *Node, k int) memnet.Faults
	// ProtoMax: highest protocol version the cluster speaks (0 = any)
	ProtoMax int

	conns  []*ServerConn
	reqSeq int64
	events []string // log of noteworthy monitor events
	// Monitor findings
	BadFrames   []string // requests the reference decoder rejected
	StreamReuse []string // request on a stream whose previous response has not been written yet
	Dials       int64
	// FailRefresh: answer system.peers with an error this many more times
	FailPeers int32
}

func uuidN(a, b byte) (u [16]byte) {
	for i := range u {
		u[i] = a
	}
	u[15] = b
	u[6] = u[6]&0x0f | 0x40
	u[8] = u[8]&0x3f | 0x80
	return
}

// NewCluster builds n nodes 10.0.0.1.. in dc1/rack1 with one murmur3 token each.
func NewCluster(n int) *Cluster {
	c := &Cluster{Partitioner: "org.apache.cassandra.dht.Murmur3Partitioner", SchemaVer: uuidN(0x5c, 1), Keyspaces: map[string]map[string]string{}}
	for i := 0; i < n; i++ {
		c.AddNode(net.IPv4(10, 0, byte(i/200), byte(i%200+1)).To4(), "dc1", "rack1", []string{fmt.Sprint(int64(i)*(1<<62)/int64(n+1)*2 - (1 << 62))})
	}
	return c
}

func (c *Cluster) AddNode(ip net.IP, dc, rack string, tokens []string) *Node {
	c.mu.Lock()
	defer c.mu.Unlock()
	idx := len(c.Nodes)
	nd := &Node{Idx: idx, HostID: uuidN(0xa0+byte(idx%64), byte(idx)), IP: ip, Port: 9042, DC: dc, Rack: rack, Tokens: tokens, Release: "3.11.4",
		Supported: map[string][]string{"CQL_VERSION": {"3.4.4"}, "COMPRESSION": {"snappy", "lz4"}}, cluster: c}
	c.Nodes = append(c.Nodes, nd)
	return nd
}

func (c *Cluster) note(s string) {
	c.mu.Lock()
	if len(c.events) < 2000 {
		c.events = append(c.events, s)
	}
	c.mu.Unlock()
}

func (c *Cluster) NodeByAddr(addr string) *Node {
	host, portS, err := net.SplitHostPort(addr)
	if err != nil {
		host = addr
	}
	ip := net.ParseIP(host)
	port, _ := strconv.Atoi(portS)
	c.mu.Lock()
	defer c.mu.Unlock()
	// several nodes may share an address and differ in the port
	for _, n := range c.Nodes {
		if n.IP.Equal(ip) && n.Port == port {
			return n
		}
	}
	for _, n := range c.Nodes {
		if n.IP.Equal(ip) {
			return n
		}
	}
	return nil
}

func (n *Node) SetDown(down bool) {
	n.mu.Lock()
	n.down = down
	conns := append([]*ServerConn{}, n.conns...)
	n.mu.Unlock()
	if down {
		for _, sc := range conns {
			sc.Close()
		}
	}
}

func (n *Node) IsDown() bool { n.mu.Lock(); defer n.mu.Unlock(); return n.down }

func (n *Node) Conns() []*ServerConn {
	n.mu.Lock()
	defer n.mu.Unlock()
	return append([]*ServerConn{}, n.conns...)
}

// OpenConns returns the connections to this node that neither side has closed.
func (n *Node) OpenConns() []*ServerConn {
	var out []*ServerConn
	for _, sc := range n.Conns() {
		if !sc.Driver.Closed() && !sc.C.Closed() {
			out = append(out, sc)
		}
	}
	return out
}

func (c *Cluster) AllConns() []*ServerConn {
	c.mu.Lock()
	defer c.mu.Unlock()
	return append([]*ServerConn{}, c.conns...)
}

// Dialer implements gocql.Dialer.
type Dialer struct{ C *Cluster }

func (d Dialer) DialContext(ctx context.Context, network, addr string) (net.Conn, error) {
	c := d.C
	atomic.AddInt64(&c.Dials, 1)
	n := c.NodeByAddr(addr)
	if n == nil {
		return nil, &net.OpError{Op: "dial", Net: "mem", Err: fmt.Errorf("no route to %s", addr)}
	}
	if n.DialDelay > 0 {
		select {
		case <-time.After(n.DialDelay):
		case <-ctx.Done():
			return nil, ctx.Err()
		}
	}
	n.mu.Lock()
	down := n.down
	k := len(n.conns)
	n.mu.Unlock()
	if down {
		return nil, &net.OpError{Op: "dial", Net: "mem", Err: errors.New("connection refused")}
	}
	if atomic.LoadInt32(&n.RefuseNext) > 0 && atomic.AddInt32(&n.RefuseNext, -1) >= 0 {
		// the node refuses a few connection attempts (its existing connections are untouched)
		atomic.AddInt64(&n.Refused, 1)
		return nil, &net.OpError{Op: "dial", Net: "mem", Err: errors.New("connection refused")}
	}
	f := memnet.NoFaults()
	if c.FaultsFor != nil {
		f = c.FaultsFor(n, k)
	}
	_, port, _ := net.SplitHostPort(addr)
	p := n.Port
	fmt.Sscan(port, &p)
	c.mu.Lock()
	nip := n.IP
	c.mu.Unlock()
	drv, srv := memnet.Pipe(&net.TCPAddr{IP: net.IPv4(10, 9, 9, 9), Port: 30000 + k}, &net.TCPAddr{IP: nip, Port: p}, f)
	sc := &ServerConn{Node: n, C: srv, Driver: drv, outstanding: map[int]*Req{}, Index: k}
	n.mu.Lock()
	n.conns = append(n.conns, sc)
	n.mu.Unlock()
	c.mu.Lock()
	c.conns = append(c.conns, sc)
	c.mu.Unlock()
	go sc.serve()
	return drv, nil
}

type ServerConn struct {
	Node        *Node
	C           *memnet.Conn // node side
	Driver      *memnet.Conn // driver side (for inspection)
	Index       int
	Version     int
	Compression string
	Keyspace    string

	mu          sync.Mutex
	wmu         sync.Mutex
	outstanding map[int]*Req
	Requests    []*Req
	IsControl   bool
	Registered  []string
	authLeft    int
	ready       bool
	readyFlag   int32
	closedBy    string
	// LastOp is the opcode of the last request received
	LastOp byte
}

func (sc *ServerConn) Close() {
	sc.mu.Lock()
	if sc.closedBy == "" {
		sc.closedBy = "node"
	}
	sc.mu.Unlock()
	sc.C.Close()
}

func (sc *ServerConn) Outstanding() int {
	sc.mu.Lock()
	defer sc.mu.Unlock()
	return len(sc.outstanding)
}

// OutstandingStreams returns the streams the node has received a request on and not answered.
func (sc *ServerConn) OutstandingStreams() []int {
	sc.mu.Lock()
	defer sc.mu.Unlock()
	var s []int
	for k := range sc.outstanding {
		s = append(s, k)
	}
	return s
}

func (sc *ServerConn) AllRequests() []*Req {
	sc.mu.Lock()
	defer sc.mu.Unlock()
	return append([]*Req{}, sc.Requests...)
}

func (sc *ServerConn) serve() {
	defer sc.C.Close()
	cl := sc.Node.cluster
	hb := make([]byte, 9)
	for {
		if _, err := io.ReadFull(sc.C, hb[:1]); err != nil {
			return
		}
		v := int(hb[0] & 0x7f)
		hs := cqlref.HeaderSize(v)
		if v < 1 || v > 5 {
			cl.mu.Lock()
			cl.BadFrames = append(cl.BadFrames, fmt.Sprintf("conn %s#%d: bad version byte %#x", sc.Node.IP, sc.Index, hb[0]))
			cl.mu.Unlock()
			return
		}
		if _, err := io.ReadFull(sc.C, hb[1:hs]); err != nil {
			return
		}
		h, _ := cqlref.ParseHeader(hb[:hs])
		if h.Length < 0 || h.Length > 256<<20 {
			cl.mu.Lock()
			cl.BadFrames = append(cl.BadFrames, fmt.Sprintf("conn %s#%d: bad length %d", sc.Node.IP, sc.Index, h.Length))
			cl.mu.Unlock()
			return
		}
		body := make([]byte, h.Length)
		if _, err := io.ReadFull(sc.C, body); err != nil {
			return
		}
		raw := append(append([]byte{}, hb[:hs]...), body...)
		sc.handleFrame(h, raw, body)
	}
}

func (sc *ServerConn) bad(raw []byte, why string) {
	cl := sc.Node.cluster
	cl.mu.Lock()
	if len(cl.BadFrames) < 200 {
		r := raw
		if len(r) > 256 {
			r = r[:256]
		}
		cl.BadFrames = append(cl.BadFrames, fmt.Sprintf("conn %s#%d: %s; frame %x", sc.Node.IP, sc.Index, why, r))
	}
	cl.mu.Unlock()
}

func (sc *ServerConn) handleFrame(h cqlref.Header, raw, body []byte) {
	cl := sc.Node.cluster
	n := sc.Node
	if sc.Version == 0 {
		sc.Version = h.Version
	}
	if h.Version != sc.Version {
		sc.bad(raw, fmt.Sprintf("version %d on a connection that started with %d", h.Version, sc.Version))
	}
	if cl.ProtoMax > 0 && h.Version > cl.ProtoMax {
		// like Cassandra: protocol error naming the supported range, answered in the highest supported version
		w := cqlref.BodyError(cl.ProtoMax, &cqlref.ErrSpec{Code: 0x000A, Message: fmt.Sprintf("Invalid or unsupported protocol version (%d); the lowest supported version is 1 and the greatest is %d", h.Version, cl.ProtoMax)})
		f, _ := cqlref.BuildFrame(cl.ProtoMax, h.Stream, cqlref.OpError, nil, w, nil)
		sc.write(f)
		return
	}
	if h.Flags&cqlref.FlagCompress != 0 {
		if sc.Compression == "" {
			sc.bad(raw, "compressed frame on a connection without negotiated compression")
			return
		}
		var err error
		switch sc.Compression {
		case "snappy":
			body, err = cqlref.SnappyDecode(body)
		case "lz4":
			body, err = cqlref.CassandraLZ4Decode(body)
		}
		if err != nil {
			sc.bad(raw, "cannot decompress body: "+err.Error())
			return
		}
	} else if sc.Compression != "" && h.Op != cqlref.OpOptions && h.Op != cqlref.OpStartup && sc.ready {
		// the spec lets a client leave individual frames uncompressed; gocql sets the flag on every frame
	}
	if h.Version == 5 && h.Flags&cqlref.FlagBeta == 0 {
		sc.bad(raw, "protocol 5 frame without the beta flag")
	}
	if h.Flags&^(cqlref.FlagCompress|cqlref.FlagTracing|cqlref.FlagPayload|cqlref.FlagBeta) != 0 {
		sc.bad(raw, fmt.Sprintf("undefined header flags %#x", h.Flags))
	}
	if (h.Op == cqlref.OpOptions || h.Op == cqlref.OpStartup) && h.Flags&cqlref.FlagCompress != 0 {
		sc.bad(raw, "OPTIONS/STARTUP frame is compressed")
	}
	rq, err := cqlref.DecodeRequest(h, body)
	if err != nil {
		sc.bad(raw, "reference decoder: "+err.Error())
		return
	}
	req := &Req{Request: rq, Raw: raw, Body: body, Conn: sc, Seq: atomic.AddInt64(&cl.reqSeq, 1), Arrival: time.Now()}
	maxStream := 32767
	if sc.Version < 3 {
		maxStream = 127
	}
	if h.Stream <= 0 || h.Stream > maxStream {
		sc.bad(raw, fmt.Sprintf("request on stream %d", h.Stream))
	}
	sc.mu.Lock()
	if prev, busy := sc.outstanding[h.Stream]; busy {
		cl.mu.Lock()
		if len(cl.StreamReuse) < 100 {
			cl.StreamReuse = append(cl.StreamReuse, fmt.Sprintf("conn %s#%d stream %d: request seq %d (op %#x) arrived while request seq %d (op %#x) is unanswered", n.IP, sc.Index, h.Stream, req.Seq, h.Op, prev.Seq, prev.Header.Op))
		}
		cl.mu.Unlock()
	}
	sc.outstanding[h.Stream] = req
	sc.Requests = append(sc.Requests, req)
	sc.LastOp = h.Op
	sc.mu.Unlock()

	if h.Op == cqlref.OpStartup {
		if d := atomic.LoadInt64(&n.StartupDelayNs); d > 0 {
			time.Sleep(time.Duration(d))
		}
	}
	if n.OnHandshake != nil && (h.Op == cqlref.OpOptions || h.Op == cqlref.OpStartup || h.Op == cqlref.OpAuthResponse || h.Op == cqlref.OpRegister) {
		if n.OnHandshake(sc, h.Op) {
			return
		}
	}
	switch h.Op {
	case cqlref.OpOptions:
		sc.Reply(req, cqlref.OpSupported, nil, cqlref.BodySupported(n.Supported))
	case cqlref.OpStartup:
		if comp, ok := rq.Options["COMPRESSION"]; ok {
			okc := false
			for _, s := range n.Supported["COMPRESSION"] {
				if s == comp {
					okc = true
				}
			}
			if !okc {
				sc.bad(raw, "STARTUP asks for compression "+comp+" which SUPPORTED did not advertise")
			}
			defer func() { sc.Compression = comp }()
		}
		if _, ok := rq.Options["CQL_VERSION"]; !ok {
			sc.bad(raw, "STARTUP without CQL_VERSION")
		}
		if n.AuthClass != "" {
			sc.authLeft = n.AuthSteps
			sc.replyPlain(req, cqlref.OpAuthenticate, cqlref.BodyString(n.AuthClass))
		} else {
			sc.setReady()
			sc.replyPlain(req, cqlref.OpReady, cqlref.BodyEmpty())
		}
	case cqlref.OpAuthResponse:
		if sc.authLeft > 0 {
			sc.authLeft--
			sc.Reply(req, cqlref.OpAuthChallenge, nil, cqlref.BodyBytes([]byte(fmt.Sprintf("challenge-%d", sc.authLeft))))
		} else {
			sc.setReady()
			sc.Reply(req, cqlref.OpAuthSuccess, nil, cqlref.BodyBytes(nil))
		}
	case cqlref.OpRegister:
		sc.mu.Lock()
		sc.IsControl = true
		sc.Registered = rq.Events
		sc.mu.Unlock()
		sc.Reply(req, cqlref.OpReady, nil, cqlref.BodyEmpty())
	case cqlref.OpQuery:
		if !sc.ready {
			sc.bad(raw, "QUERY before the handshake completed")
		}
		if n.SystemIntercept != nil && n.SystemIntercept(sc, req) {
			return
		}
		if n.systemQuery(sc, req) {
			return
		}
		n.dispatch(sc, req)
	default:
		if !sc.ready {
			sc.bad(raw, "request before the handshake completed")
		}
		if n.schemaPrepared(sc, req) {
			return
		}
		n.dispatch(sc, req)
	}
}

func (n *Node) dispatch(sc *ServerConn, req *Req) {
	if n.Handler != nil {
		n.Handler(sc, req)
		return
	}
	sc.Reply(req, cqlref.OpResult, nil, cqlref.BodyVoid())
}

func (sc *ServerConn) write(b []byte) error {
	sc.wmu.Lock()
	defer sc.wmu.Unlock()
	_, err := sc.C.Write(b)
	return err
}

// replyPlain answers without compression (STARTUP's answer precedes the switch).
func (sc *ServerConn) replyPlain(req *Req, op byte, body *cqlref.W) error {
	f, _ := cqlref.BuildFrame(sc.Version, req.Header.Stream, op, nil, body, nil)
	return sc.WriteReply(req, f)
}

// Compressor returns the function that compresses a body the way this connection negotiated (nil = none).
func (sc *ServerConn) Compressor() func([]byte) []byte {
	switch sc.Compression {
	case "snappy":
		return func(b []byte) []byte {
			if len(b)%3 == 0 {
				return cqlref.SnappyEncodeLiteral(b)
			}
			return snappy.Encode(nil, b)
		}
	case "lz4":
		return cqlref.CassandraLZ4EncodeLiteral
	}
	return nil
}

// Reply builds and writes a response to req and marks its stream answered.
func (sc *ServerConn) Reply(req *Req, op byte, p *cqlref.Prefix, body *cqlref.W) error {
	f, _ := cqlref.BuildFrame(sc.Version, req.Header.Stream, op, p, body, sc.Compressor())
	return sc.WriteReply(req, f)
}

// WriteReply writes raw frame bytes as the answer to req. The stream is marked answered
// BEFORE the bytes are handed to the pipe, so that a request seen later on the same stream
// can only be flagged if the driver sent it before the answer was written.
func (sc *ServerConn) WriteReply(req *Req, frame []byte) error {
	if !atomic.CompareAndSwapInt32(&req.replied, 0, 1) {
		return errors.New("already replied")
	}
	sc.wmu.Lock()
	defer sc.wmu.Unlock()
	sc.mu.Lock()
	if cur := sc.outstanding[req.Header.Stream]; cur == req {
		delete(sc.outstanding, req.Header.Stream)
	}
	sc.mu.Unlock()
	_, err := sc.C.Write(frame)
	return err
}

// WriteReplySplit writes the answer in two pieces with a pause in between (a response that arrives with a gap in
// the middle of its body); nothing else is written on the connection in between.
func (sc *ServerConn) WriteReplySplit(req *Req, frame []byte, cut int, pause time.Duration) error {
	if !atomic.CompareAndSwapInt32(&req.replied, 0, 1) {
		return errors.New("already replied")
	}
	if cut < 0 || cut > len(frame) {
		cut = len(frame)
	}
	sc.wmu.Lock()
	defer sc.wmu.Unlock()
	sc.mu.Lock()
	if cur := sc.outstanding[req.Header.Stream]; cur == req {
		delete(sc.outstanding, req.Header.Stream)
	}
	sc.mu.Unlock()
	if _, err := sc.C.Write(frame[:cut]); err != nil {
		return err
	}
	time.Sleep(pause)
	_, err := sc.C.Write(frame[cut:])
	return err
}

// Forget marks the request as one the node will never answer (keeps it outstanding).
func (sc *ServerConn) Forget(req *Req) {}

func (sc *ServerConn) ReplyVoid(req *Req) error {
	return sc.Reply(req, cqlref.OpResult, nil, cqlref.BodyVoid())
}

func (sc *ServerConn) ReplyError(req *Req, e *cqlref.ErrSpec) error {
	return sc.Reply(req, cqlref.OpError, nil, cqlref.BodyError(sc.Version, e))
}

func (sc *ServerConn) ReplyRows(req *Req, r *cqlref.RowsSpec) error {
	return sc.Reply(req, cqlref.OpResult, nil, cqlref.BodyRows(sc.Version, r))
}

// PushEvent writes an EVENT frame (stream -1).
func (sc *ServerConn) PushEvent(e *cqlref.EventSpec) error {
	f, _ := cqlref.BuildFrame(sc.Version, -1, cqlref.OpEvent, nil, cqlref.BodyEvent(sc.Version, e), sc.Compressor())
	return sc.write(f)
}

func (sc *ServerConn) WriteRaw(b []byte) error { return sc.write(b) }

// ---- system tables ----------------------------------------------------------------------

func text(s string) []byte { return []byte(s) }

func (c *Cluster) rowFor(n *Node) *PeerRow {
	peer := n.IP
	if n.PeerIP != nil {
		peer = n.PeerIP
	}
	id := n.HostID // copied: the row must not alias the node's array (SetHostID overwrites it)
	return &PeerRow{Peer: peer, RPC: n.IP, HostID: id[:], DC: n.DC, Rack: n.Rack, Tokens: n.Tokens, Version: n.Release, SchemaVer: c.SchemaVer[:], NativePort: n.Port}
}

func setText(l []string) []byte {
	b := make([]byte, 4)
	binary.BigEndian.PutUint32(b, uint32(len(l)))
	for _, s := range l {
		var lb [4]byte
		binary.BigEndian.PutUint32(lb[:], uint32(len(s)))
		b = append(append(b, lb[:]...), s...)
	}
	return b
}

func setTextV2(l []string) []byte {
	b := make([]byte, 2)
	binary.BigEndian.PutUint16(b, uint16(len(l)))
	for _, s := range l {
		var lb [2]byte
		binary.BigEndian.PutUint16(lb[:], uint16(len(s)))
		b = append(append(b, lb[:]...), s...)
	}
	return b
}

func ip4or16(ip net.IP) []byte {
	if ip == nil {
		return nil
	}
	if v4 := ip.To4(); v4 != nil {
		return []byte(v4)
	}
	return []byte(ip)
}

func (n *Node) systemQuery(sc *ServerConn, req *Req) bool {
	c := n.cluster
	st := strings.TrimSpace(req.Statement)
	low := strings.ToLower(st)
	T := func(id int) *cqlref.Type { return &cqlref.Type{ID: id} }
	col := func(tb, name string, t *cqlref.Type) cqlref.Column {
		return cqlref.Column{Keyspace: "system", Table: tb, Name: name, Type: t}
	}
	tokset := func(l []string) []byte {
		if sc.Version >= 3 {
			return setText(l)
		}
		return setTextV2(l)
	}
	switch {
	case strings.HasPrefix(low, "select * from system.local"):
		c.mu.Lock()
		row := c.rowFor(n)
		c.mu.Unlock()
		if c.LocalView != nil {
			if r := c.LocalView(n); r != nil {
				row = r
			}
		}
		cols := []cqlref.Column{col("local", "key", T(cqlref.TText)), col("local", "host_id", T(cqlref.TUUID)), col("local", "data_center", T(cqlref.TText)), col("local", "rack", T(cqlref.TText)),
			col("local", "release_version", T(cqlref.TText)), col("local", "partitioner", T(cqlref.TText)), col("local", "rpc_address", T(cqlref.TInet)), col("local", "broadcast_address", T(cqlref.TInet)),
			col("local", "tokens", &cqlref.Type{ID: cqlref.TSet, Elem: T(cqlref.TText)}), col("local", "schema_version", T(cqlref.TUUID)), col("local", "cluster_name", T(cqlref.TText))}
		var rpc []byte
		if !row.NullRPC {
			rpc = ip4or16(row.RPC)
		}
		cells := [][]byte{text("local"), row.HostID, text(row.DC), text(row.Rack), text(row.Version), text(c.Partitioner), rpc, ip4or16(row.Peer), tokset(row.Tokens), row.SchemaVer, text("fake")}
		sc.ReplyRows(req, &cqlref.RowsSpec{Meta: cqlref.Metadata{Global: true, Columns: cols, ColCount: len(cols)}, Rows: [][][]byte{cells}})
		return true
	case strings.HasPrefix(low, "select * from system.peers_v2"):
		if !n.V2Peers {
			sc.ReplyError(req, &cqlref.ErrSpec{Code: 0x2200, Message: "unconfigured table peers_v2"})
			return true
		}
		fallthrough
	case strings.HasPrefix(low, "select * from system.peers"):
		if atomic.LoadInt32(&c.FailPeers) > 0 {
			atomic.AddInt32(&c.FailPeers, -1)
			sc.ReplyError(req, &cqlref.ErrSpec{Code: 0x0000, Message: "injected failure of the peers query"})
			return true
		}
		var rows []PeerRow
		if c.PeersView != nil {
			rows = c.PeersView(n)
		} else {
			c.mu.Lock()
			for _, o := range c.Nodes {
				if o != n {
					rows = append(rows, *c.rowFor(o))
				}
			}
			c.mu.Unlock()
		}
		if f, _ := c.beforePeersReply.Load().(func(n *Node)); f != nil {
			f(n)
		}
		cols := []cqlref.Column{col("peers", "peer", T(cqlref.TInet)), col("peers", "host_id", T(cqlref.TUUID)), col("peers", "data_center", T(cqlref.TText)), col("peers", "rack", T(cqlref.TText)),
			col("peers", "release_version", T(cqlref.TText)), col("peers", "rpc_address", T(cqlref.TInet)), col("peers", "tokens", &cqlref.Type{ID: cqlref.TSet, Elem: T(cqlref.TText)}), col("peers", "schema_version", T(cqlref.TUUID))}
		var out [][][]byte
		for _, r := range rows {
			var rpc []byte
			if !r.NullRPC {
				rpc = ip4or16(r.RPC)
			}
			var toks []byte
			if r.Tokens != nil {
				toks = tokset(r.Tokens)
			}
			out = append(out, [][]byte{ip4or16(r.Peer), r.HostID, text(r.DC), text(r.Rack), text(r.Version), rpc, toks, r.SchemaVer})
		}
		sc.ReplyRows(req, &cqlref.RowsSpec{Meta: cqlref.Metadata{Global: true, Columns: cols, ColCount: len(cols)}, Rows: out})
		return true
	case strings.HasPrefix(low, "select schema_version from system.local"):
		cols := []cqlref.Column{col("local", "schema_version", T(cqlref.TUUID))}
		sc.ReplyRows(req, &cqlref.RowsSpec{Meta: cqlref.Metadata{Global: true, Columns: cols, ColCount: 1}, Rows: [][][]byte{{c.SchemaVer[:]}}})
		return true
	case strings.HasPrefix(low, "use "):
		ks := strings.Trim(strings.TrimSpace(st[4:]), `"`)
		sc.Keyspace = ks
		sc.Reply(req, cqlref.OpResult, nil, cqlref.BodySetKeyspace(ks))
		return true
	case strings.Contains(low, "from system_schema.keyspaces") || strings.Contains(low, "from system_schema.tables") || strings.Contains(low, "from system_schema.columns"):
		name := ""
		if req.Params != nil && len(req.Params.Values) > 0 {
			name = string(req.Params.Values[0].Bytes)
		}
		cols, rows := c.schemaResult(low, name)
		sc.ReplyRows(req, &cqlref.RowsSpec{Meta: cqlref.Metadata{Global: true, Columns: cols, ColCount: len(cols)}, Rows: rows})
		return true
	case strings.Contains(low, "from system_schema.") || strings.Contains(low, "from system.schema_") || strings.Contains(low, "from system."):
		// anything else about the schema: an empty result
		if n.Handler != nil && strings.Contains(low, "verif") {
			return false
		}
		sc.ReplyRows(req, &cqlref.RowsSpec{Meta: cqlref.Metadata{Global: true, ColCount: 0}})
		return true
	}
	return false
}

// ---- membership mutations (C16) ---------------------------------------------------------

// RemoveNode takes n out of the cluster: it is no longer listed in system.peers, cannot be
// dialled and its connections are closed.
func (c *Cluster) RemoveNode(n *Node) {
	c.mu.Lock()
	for i, x := range c.Nodes {
		if x == n {
			c.Nodes = append(c.Nodes[:i:i], c.Nodes[i+1:]...)
			break
		}
	}
	c.mu.Unlock()
	n.SetDown(true)
}

// RemoveNodeKeepUp takes n out of the cluster's membership (it is no longer listed in system.peers) but leaves it
// reachable: a node that is leaving still answers for a moment.
func (c *Cluster) RemoveNodeKeepUp(n *Node) {
	c.mu.Lock()
	for i, x := range c.Nodes {
		if x == n {
			c.Nodes = append(c.Nodes[:i:i], c.Nodes[i+1:]...)
			break
		}
	}
	c.mu.Unlock()
}

// ReturnNode puts a node that was removed back into the cluster, as it was (same id, same address), and lets it
// accept connections again.
func (c *Cluster) ReturnNode(n *Node) {
	c.mu.Lock()
	present := false
	for _, x := range c.Nodes {
		if x == n {
			present = true
		}
	}
	if !present {
		c.Nodes = append(c.Nodes, n)
	}
	c.mu.Unlock()
	n.SetDown(false)
}

// SetAddr moves n to a new address (its connections are closed).
func (c *Cluster) SetAddr(n *Node, ip net.IP) {
	c.mu.Lock()
	n.IP = ip
	c.mu.Unlock()
	for _, sc := range n.Conns() {
		sc.Close()
	}
}

// SetBeforePeersReply installs (or, with nil, removes) the BeforePeersReply callback.
func (c *Cluster) SetBeforePeersReply(f func(n *Node)) {
	if f == nil {
		f = func(*Node) {}
	}
	c.beforePeersReply.Store(f)
}

// SetPeerIP changes only n's node-to-node (peer / broadcast) address; the client-facing address and the
// connections stay as they are.
func (c *Cluster) SetPeerIP(n *Node, ip net.IP) {
	c.mu.Lock()
	n.PeerIP = ip
	c.mu.Unlock()
}

// SetHostID gives n a new host id (a replaced node on the same address); connections are closed.
func (c *Cluster) SetHostID(n *Node, id [16]byte) {
	c.mu.Lock()
	n.HostID = id
	c.mu.Unlock()
	for _, sc := range n.Conns() {
		sc.Close()
	}
}

// Snapshot returns the current node list.
func (c *Cluster) Snapshot() []*Node {
	c.mu.Lock()
	defer c.mu.Unlock()
	return append([]*Node{}, c.Nodes...)
}

// RowFor returns the peers/local row describing n.
func (c *Cluster) RowFor(n *Node) PeerRow {
	c.mu.Lock()
	defer c.mu.Unlock()
	return *c.rowFor(n)
}

// DataConnsOpen counts the open non-control connections to n.
func (n *Node) DataConnsOpen() int {
	k := 0
	for _, sc := range n.OpenConns() {
		sc.mu.Lock()
		ctl := sc.IsControl
		sc.mu.Unlock()
		if !ctl {
			k++
		}
	}
	return k
}

// ControlConn returns the open connection that registered for events, if any.
func (c *Cluster) ControlConn() *ServerConn {
	for _, sc := range c.AllConns() {
		sc.mu.Lock()
		ctl := sc.IsControl
		sc.mu.Unlock()
		if ctl && !sc.Driver.Closed() && !sc.C.Closed() {
			return sc
		}
	}
	return nil
}

// QueryCount returns how many non-system QUERY/EXECUTE/BATCH requests n has received.
func (n *Node) QueryCount(prefix string) int {
	k := 0
	for _, sc := range n.Conns() {
		for _, rq := range sc.AllRequests() {
			if rq.Header.Op == cqlref.OpQuery && strings.HasPrefix(rq.Statement, prefix) {
				k++
			}
		}
	}
	return k
}

// Ready reports whether the connection completed its handshake.
func (sc *ServerConn) Ready() bool { return atomic.LoadInt32(&sc.readyFlag) == 1 }

// setReady marks the handshake as complete (serve goroutine); Ready is read from checker goroutines.
func (sc *ServerConn) setReady() {
	sc.ready = true
	atomic.StoreInt32(&sc.readyFlag, 1)
}

func (c *Cluster) BadFramesCopy() []string {
	c.mu.Lock()
	defer c.mu.Unlock()
	return append([]string{}, c.BadFrames...)
}

func (c *Cluster) ClearBadFrames() {
	c.mu.Lock()
	c.BadFrames = nil
	c.mu.Unlock()
}

// Control reports whether the connection registered for events.
func (sc *ServerConn) Control() bool {
	sc.mu.Lock()
	defer sc.mu.Unlock()
	return sc.IsControl
}

// schemaResult answers the three schema queries the driver needs to describe a keyspace and its tables
// (system_schema.keyspaces / tables / columns, Cassandra 3+ layout) for keyspace ks.
func (c *Cluster) schemaResult(low, ks string) (cols []cqlref.Column, rows [][][]byte) {
	T := func(id int) *cqlref.Type { return &cqlref.Type{ID: id} }
	col := func(tb, nm string, t *cqlref.Type) cqlref.Column {
		return cqlref.Column{Keyspace: "system_schema", Table: tb, Name: nm, Type: t}
	}
	c.mu.Lock()
	defer c.mu.Unlock()
	switch {
	case strings.Contains(low, "from system_schema.keyspaces"):
		cols = []cqlref.Column{col("keyspaces", "durable_writes", T(cqlref.TBoolean)),
			col("keyspaces", "replication", &cqlref.Type{ID: cqlref.TMap, Key: T(cqlref.TText), Elem: T(cqlref.TText)})}
		if repl, ok := c.Keyspaces[ks]; ok {
			w := &cqlref.W{}
			w.Int(int32(len(repl)))
			for k, v := range repl {
				w.Bytes([]byte(k))
				w.Bytes([]byte(v))
			}
			rows = [][][]byte{{{1}, w.B}}
		}
	case strings.Contains(low, "from system_schema.tables"):
		cols = []cqlref.Column{col("tables", "table_name", T(cqlref.TVarchar))}
		for _, tn := range sortedTables(c.Tables[ks]) {
			rows = append(rows, [][]byte{[]byte(tn)})
		}
	case strings.Contains(low, "from system_schema.columns"):
		cols = []cqlref.Column{col("columns", "table_name", T(cqlref.TVarchar)), col("columns", "column_name", T(cqlref.TVarchar)), col("columns", "clustering_order", T(cqlref.TVarchar)),
			col("columns", "type", T(cqlref.TVarchar)), col("columns", "kind", T(cqlref.TVarchar)), col("columns", "position", T(cqlref.TInt))}
		for _, tn := range sortedTables(c.Tables[ks]) {
			for _, tc := range c.Tables[ks][tn] {
				var pos [4]byte
				binary.BigEndian.PutUint32(pos[:], uint32(int32(tc.Position)))
				rows = append(rows, [][]byte{[]byte(tn), []byte(tc.Name), []byte("none"), []byte(tc.Type), []byte(tc.Kind), pos[:]})
			}
		}
	}
	return cols, rows
}

func sortedTables(m map[string][]TableColumn) []string {
	var out []string
	for tn := range m {
		out = append(out, tn)
	}
	sort.Strings(out)
	return out
}

// schemaPrepared handles PREPARE / EXECUTE of the driver's own schema queries (the control connection prepares
// them like any other SELECT). Returns true if the request was one of them.
func (n *Node) schemaPrepared(sc *ServerConn, req *Req) bool {
	switch req.Header.Op {
	case cqlref.OpPrepare:
		low := strings.ToLower(req.Statement)
		if !strings.Contains(low, "from system_schema.") {
			return false
		}
		cols, _ := n.cluster.schemaResult(low, "")
		ps := &cqlref.PreparedSpec{ID: []byte("SYS:" + req.Statement), Result: cqlref.Metadata{Global: len(cols) > 0, Columns: cols, ColCount: len(cols)}}
		if strings.Contains(req.Statement, "?") {
			ps.Bind = cqlref.Metadata{Global: true, ColCount: 1, Columns: []cqlref.Column{{Keyspace: "system_schema", Table: "keyspaces", Name: "keyspace_name", Type: &cqlref.Type{ID: cqlref.TVarchar}}}}
			if sc.Version >= 4 {
				ps.Bind.PKIndexes = []int{0}
			}
		}
		sc.Reply(req, cqlref.OpResult, nil, cqlref.BodyPrepared(sc.Version, ps))
		return true
	case cqlref.OpExecute:
		if !strings.HasPrefix(string(req.PreparedID), "SYS:") {
			return false
		}
		low := strings.ToLower(strings.TrimPrefix(string(req.PreparedID), "SYS:"))
		name := ""
		if req.Params != nil && len(req.Params.Values) > 0 {
			name = string(req.Params.Values[0].Bytes)
		}
		cols, rows := n.cluster.schemaResult(low, name)
		meta := cqlref.Metadata{Global: len(cols) > 0, Columns: cols, ColCount: len(cols)}
		if req.Params != nil && req.Params.SkipMeta {
			meta.NoMetadata, meta.Columns, meta.Global = true, nil, false
		}
		sc.ReplyRows(req, &cqlref.RowsSpec{Meta: meta, Rows: rows})
		return true
	}
	return false
}
