#!/bin/bash
# confirm_seed.sh <ID> [srcdir]  -- confirm one seeded change in a scratch worktree of /repo (never touches /repo's tree)
# result: /verif/seeded/<ID>/{patch.diff,demo_test.go,README.md,meta.json}; prints one status line
export GOFLAGS=-mod=mod GOPROXY=off GOSUMDB=off GOTOOLCHAIN=local
id=$1
src=${2:-/verif/seeded/_incoming/$id}
wt=/tmp/seedwt-$id
out=/tmp/seedout-$id
rm -rf $out; mkdir -p $out
git -C /repo worktree remove --force $wt >/dev/null 2>&1
git -C /repo worktree add --detach $wt HEAD >/dev/null 2>&1 || { echo "$id worktree-failed"; exit 1; }
cleanup() { git -C /repo worktree remove --force $wt >/dev/null 2>&1; rm -rf $wt; }
trap cleanup EXIT
cd $wt
if ! git apply --3way $src/patch.diff >$out/apply.txt 2>&1; then echo "$id patch-does-not-apply"; exit 2; fi
git diff HEAD > $out/patch.applied.diff
pkg=$(grep -m1 '^package ' $src/demo_test.go | awk '{print $2}')
case $pkg in
  gocql) dir=. ;;
  lz4) dir=lz4 ;;
  streams) dir=internal/streams ;;
  murmur) dir=internal/murmur ;;
  lru) dir=internal/lru ;;
  *) dir=. ;;
esac
tests=$(grep -oE '^func (Test[A-Za-z0-9_]+)' $src/demo_test.go | awk '{print $2}' | paste -sd'|')
if ! (go build ./... && cd lz4 && go build ./...) >$out/build.txt 2>&1; then echo "$id does-not-compile"; exit 3; fi
base_ok=1
for m in . lz4; do (cd $wt/$m && go test -mod=mod -vet=off -count=1 ./...) >>$out/baseline.txt 2>&1 || base_ok=0; done
cp $src/demo_test.go $wt/$dir/zz_seed_demo_test.go
(cd $wt/$dir && timeout 900 go test -mod=mod -vet=off -count=1 -run "^($tests)\$" . ) >$out/demo_with.txt 2>&1; rc_with=$?
# undo the change, keep the demo
git -C $wt apply -R $out/patch.applied.diff >/dev/null 2>&1 || git -C $wt checkout -- . 
(cd $wt/$dir && timeout 900 go test -mod=mod -vet=off -count=1 -run "^($tests)\$" . ) >$out/demo_without.txt 2>&1; rc_without=$?
status=confirmed
[ $base_ok = 1 ] || status=baseline-fails
[ $rc_with != 0 ] || status=demo-passes-with-change
[ $rc_without = 0 ] || status=demo-fails-without-change
dst=/verif/seeded/$id
if [ $status = confirmed ]; then
  mkdir -p $dst
  cp $out/patch.applied.diff $dst/patch.diff
  cp $src/demo_test.go $dst/demo_test.go
  cp $src/README.md $dst/README.md 2>/dev/null
  failing=$(grep -E '^--- FAIL' $out/demo_with.txt | awk '{print $3}' | sort -u | paste -sd',')
  python3 - "$id" "$dst" "$dir" "$tests" "$failing" <<'PY'
import json,sys,re,subprocess
id,dst,d,tests,failing=sys.argv[1:6]
readme=open(dst+'/README.md').read() if True else ''
def section(title_words):
    m=re.search(r'(?is)(what is needed[^\n]*|needed to manifest[^\n]*|what it needs[^\n]*)\n(.*?)(\n#|\n\*\*[A-Z]|\Z)',readme)
    return (m.group(2).strip()[:900] if m else '')
head=subprocess.check_output(['git','-C','/repo','rev-parse','--short','HEAD']).decode().strip()
meta={"id":id,"property":id.split('-')[0],"breaks":"see README.md (written by the author of the change)","needs_to_manifest":section(None),
 "confirmed_at_repo_commit":head,
 "what_was_run":["git worktree add --detach /tmp/seedwt-%s HEAD (scratch worktree of /repo)"%id,"git apply --3way patch.diff; go build ./... (root and lz4)",
  "baseline: go test -mod=mod -vet=off -count=1 ./... in . and lz4 -> pass",
  "demo: cp demo_test.go %s/zz_seed_demo_test.go; go test -run '^(%s)$' -> FAIL with the change (%s), PASS after git apply -R"%(d,tests,failing),
  "git worktree remove --force"]}
json.dump(meta,open(dst+'/meta.json','w'),indent=1)
PY
fi
echo "$id $status base_ok=$base_ok rc_with=$rc_with rc_without=$rc_without"
