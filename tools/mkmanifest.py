#!/usr/bin/env python3
"""Regenerates /verif/MANIFEST.json from the table below (single source of truth for the interface)."""
import json, os, subprocess
V = os.path.dirname(os.path.dirname(os.path.abspath(__file__)))
props = [json.loads(l) for l in open(os.path.join(V, 'properties.jsonl'))]
ids = [p['id'] for p in props]

hook_commits = []
hc = os.path.join(V, 'tools', 'hook_commits.txt')
if os.path.exists(hc):
    hook_commits = [l.strip() for l in open(hc) if l.strip()]

C = {}
def claim(pid, category, text, note, technique, design_ref, thorough=True, engine="vh"):
    C[pid] = {
        "property_id": pid,
        "quick_cmd": "./check %s quick" % pid,
        "evidence_file": "evidence/%s.json" % pid,
        "replay_cmd_template": "./check %s --replay {path}" % pid,
        "engine": engine,
        "level_claimed": {"category": category, "text": text, "design_ref": design_ref},
        "level_note": note,
        "technique": technique,
    }
    if thorough:
        C[pid]["thorough_cmd"] = "./check %s thorough" % pid

exec(open(os.path.join(V, 'tools', 'claims.py')).read())

NA = {}
na_file = os.path.join(V, 'tools', 'not_applicable.json')
if os.path.exists(na_file):
    NA = json.load(open(na_file))

m = {
    "version": 1,
    "setup_cmd": "./check --setup",
    "hooks": {
        "guard": "verif",
        "enable": "go build -tags verif (the harness module /verif/harness replaces github.com/gocql/gocql => /repo, so every check builds /repo's working tree with the tag on)",
        "baseline_off_cmd": "./check --baseline-off",
        "source_commits": hook_commits,
        "add_only": True,
    },
    "engines": [{"name": "vh", "path": "harness/cmd/vh", "serves_properties": sorted(C.keys()),
                 "kind_free_text": "Go runtime-monitoring harness: parent/worker child processes, independent reference codec (cqlref), in-memory fake Cassandra nodes, monitors over recorded events, Go race detector"}],
    "checks": [C[i] for i in ids if i in C],
    "notes": "All checks are runtime monitors over executions of the real gocql code built from /repo's working tree. known_findings.json lists genuine defects recorded (status known) or repaired by fix: commits (status fixed). See DESIGN.md.",
    "not_applicable": [{"property_id": i, "reason": NA.get(i, "check not implemented yet in this commit (work in progress); see DESIGN.md section 4 for the planned runtime monitor")} for i in ids if i not in C],
}
json.dump(m, open(os.path.join(V, 'MANIFEST.json'), 'w'), indent=1)
print("claimed:", sorted(C.keys()))
