#!/usr/bin/env python3
# Rebuild the seeded-change table of DESIGN.md (between the SEED-TABLE markers) from seeded/<id>/meta.json.
import json, glob, os, re
rows = []
for d in sorted(glob.glob('/verif/seeded/C*-[A-Z]')):
    m = json.load(open(d + '/meta.json'))
    title = re.sub(r'^(C\d+\s*/?\s*)?([Mm]utation|[Cc]hange)\s+[A-Z]\s*[-—–:]+\s*', '', m.get('change', '')).strip()
    title = re.sub(r'^C\d+\s*/\s*', '', title)
    needs = m.get('needs_to_manifest', '').replace('|', '/').replace('\n', ' ')
    if len(needs) > 150:
        needs = needs[:150] + '…'
    det = m.get('detected_by', {})
    keys = ' ; '.join('`%s`' % k.replace('|', ' ↔ ') for k in det.get('violation_keys', [])[:2]) or '(not run)'
    if det and det.get('exit_code') != 1:
        keys = '**missed**'
    rows.append('| %s | %s | %s | %s |' % (m['id'], title.replace('|', '/')[:140], needs, keys))
table = '| change | what it does (author\'s title) | needs | fires (first keys) |\n|---|---|---|---|\n' + '\n'.join(rows) + '\n'
p = '/verif/DESIGN.md'
s = open(p).read()
b, e = '<!-- SEED-TABLE-BEGIN -->\n', '<!-- SEED-TABLE-END -->\n'
if b in s:
    i, j = s.index(b) + len(b), s.index(e)
    s = s[:i] + table + s[j:]
    open(p, 'w').write(s)
    print('table rebuilt:', len(rows), 'rows')
else:
    print('markers not found')
