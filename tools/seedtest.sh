#!/bin/bash
# usage: tools/seedtest.sh <dir-with-patch.diff> <Cnn> [quick|thorough]   -- applies the seeded change to /repo, runs the check, restores /repo
set -u
D=$(readlink -f $1); P=$2; T=${3:-quick}
cd /repo || exit 2
if [ -n "$(git status --porcelain --untracked-files=no)" ]; then echo "repo dirty"; exit 2; fi
if ! git apply --3way "$D/patch.diff" 2>/tmp/seedapply.err; then
  if ! git apply "$D/patch.diff" 2>>/tmp/seedapply.err; then echo "APPLY-FAILED $(cat /tmp/seedapply.err | head -3)"; git reset -q --hard HEAD; exit 3; fi
fi
git reset -q 2>/dev/null
cd /verif
out=$(VERIF_SEED=${VERIF_SEED:-1} ./check $P $T 2>&1); rc=$?
cd /repo && git reset -q --hard HEAD
echo "$out" | grep -E "^(VIOLATION|HARNESS-BROKEN|INCONCLUSIVE|BUILD-FAILED)" | cut -c1-330 | head -6
echo "$out" | grep -E "^SUMMARY"
echo "rc=$rc"
