#!/bin/bash
# seed_lanes.sh <n> <outfile> [ids...] : run seed_detect.sh over the given seeds (default: all) in <n> parallel lanes.
# Each lane has its own snapshot of /verif (committed HEAD) and its own scratch worktree of /repo (HEAD), outside both;
# /repo itself is not touched. Lanes are removed at the end. Output lines are collected in <outfile>.
n=$1; out=$2; shift 2
ids="$@"
[ -z "$ids" ] && ids=$(ls /verif/seeded | grep -E '^C[0-9]+-[A-Z]$')
base=/root/scratch/lanes
rm -f $out; mkdir -p $base
vhead=$(git -C /verif rev-parse HEAD); rhead=$(git -C /repo rev-parse HEAD)
i=0
for l in $(seq 1 $n); do
  git -C /verif worktree remove --force $base/v$l >/dev/null 2>&1; git -C /repo worktree remove --force $base/r$l >/dev/null 2>&1
  git -C /verif worktree add --detach $base/v$l $vhead >/dev/null 2>&1 || { echo "lane $l: verif worktree failed"; exit 1; }
  git -C /repo worktree add --detach $base/r$l $rhead >/dev/null 2>&1 || { echo "lane $l: repo worktree failed"; exit 1; }
  sed -i "s#=> /repo#=> $base/r$l#g" $base/v$l/harness/go.mod
done
# deal the seeds round robin, long checks (C08, C11) first so that they spread over the lanes
sorted=$(for id in $ids; do case $id in C08-*|C11-*) echo "0 $id";; *) echo "1 $id";; esac; done | sort | awk '{print $2}')
for l in $(seq 1 $n); do lane[$l]=""; done
k=0
for id in $sorted; do l=$(( k % n + 1 )); lane[$l]="${lane[$l]} $id"; k=$((k+1)); done
for l in $(seq 1 $n); do
  ( VERIF_DIR=$base/v$l REPO_DIR=$base/r$l OUT_DIR=/root/detect $base/v$l/tools/seed_detect.sh ${lane[$l]} >> $out.lane$l 2>&1 ) &
done
wait
cat $out.lane* | grep -a ' rc=' | sort > $out
for l in $(seq 1 $n); do
  git -C /verif worktree remove --force $base/v$l >/dev/null 2>&1; git -C /repo worktree remove --force $base/r$l >/dev/null 2>&1
done
rm -rf $base
echo "done: $(wc -l < $out) seeds"
