#!/bin/bash
# seed_detect.sh [ids...] : apply each confirmed seeded change to /repo, run the property's quick check, undo, record what fired
VERIF_DIR=${VERIF_DIR:-/verif}; cd $VERIF_DIR
ids="$@"
[ -z "$ids" ] && ids=$(ls seeded | grep -E '^C[0-9]+-[A-Z]$')
mkdir -p /root/detect
for id in $ids; do
  prop=${id%-*}
  if ! git -C /repo apply $VERIF_DIR/seeded/$id/patch.diff 2>/root/detect/$id.apply; then echo "$id APPLY-FAILED"; continue; fi
  timeout 1500 ./check $prop quick > /root/detect/$id.out 2>&1; rc=$?
  git -C /repo checkout -- . ; git -C /repo status --short | grep -v '^??' | head -2
  keys=$(grep -E '^VIOLATION' /root/detect/$id.out | sed -E 's/.* key=([^ ]+) .*/\1/' | sort -u | head -6 | paste -sd' ')
  echo "$id rc=$rc keys: $keys"
done
