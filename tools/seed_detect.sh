#!/bin/bash
# seed_detect.sh [ids...] : apply each confirmed seeded change to /repo, run the quick check of the property it was
# written against (plus any further checks named in seeded/<id>/checks: a change can break a property through code
# another property's check exercises), undo, record what fired.
# Run it from a snapshot of /verif (VERIF_DIR) when /verif is being edited.
# REPO_DIR (default /repo) is the tree the change is applied to: a lane of a parallel sweep uses a scratch worktree of
# /repo together with a snapshot of /verif whose harness/go.mod points at that worktree (tools/seed_lanes.sh).
VERIF_DIR=${VERIF_DIR:-/verif}; REPO_DIR=${REPO_DIR:-/repo}; OUT_DIR=${OUT_DIR:-/root/detect}; cd $VERIF_DIR
ids="$@"
[ -z "$ids" ] && ids=$(ls seeded | grep -E '^C[0-9]+-[A-Z]$')
mkdir -p $OUT_DIR
for id in $ids; do
  prop=${id%-*}
  checks=$prop
  [ -f $VERIF_DIR/seeded/$id/checks ] && checks=$(cat $VERIF_DIR/seeded/$id/checks)
  if ! git -C $REPO_DIR apply $VERIF_DIR/seeded/$id/patch.diff 2>$OUT_DIR/$id.apply; then echo "$id APPLY-FAILED"; continue; fi
  rc=0; : > $OUT_DIR/$id.out
  for p in $checks; do
    tier=quick; case $p in *:thorough) tier=thorough; p=${p%:thorough};; esac   # a checks entry may name the thorough tier
    timeout 5400 ./check $p $tier >> $OUT_DIR/$id.out 2>&1; r=$?
    [ $r -gt $rc ] && rc=$r
    [ $r = 1 ] && break
  done
  git -C $REPO_DIR checkout -- . ; git -C $REPO_DIR status --short | grep -v '^??' | head -2
  keys=$(grep -aE '^VIOLATION' $OUT_DIR/$id.out | sed -E 's/.* key=([^ ]+) .*/\1/' | sort -u | head -6 | paste -sd' ')
  echo "$id rc=$rc keys: $keys"
done
