#!/bin/bash
# seed_detect.sh [ids...] : apply each confirmed seeded change to /repo, run the quick check of the property it was
# written against (plus any further checks named in seeded/<id>/checks: a change can break a property through code
# another property's check exercises), undo, record what fired.
# Run it from a snapshot of /verif (VERIF_DIR) when /verif is being edited.
VERIF_DIR=${VERIF_DIR:-/verif}; cd $VERIF_DIR
ids="$@"
[ -z "$ids" ] && ids=$(ls seeded | grep -E '^C[0-9]+-[A-Z]$')
mkdir -p /root/detect
for id in $ids; do
  prop=${id%-*}
  checks=$prop
  [ -f $VERIF_DIR/seeded/$id/checks ] && checks=$(cat $VERIF_DIR/seeded/$id/checks)
  if ! git -C /repo apply $VERIF_DIR/seeded/$id/patch.diff 2>/root/detect/$id.apply; then echo "$id APPLY-FAILED"; continue; fi
  rc=0; : > /root/detect/$id.out
  for p in $checks; do
    timeout 1800 ./check $p quick >> /root/detect/$id.out 2>&1; r=$?
    [ $r -gt $rc ] && rc=$r
    [ $r = 1 ] && break
  done
  git -C /repo checkout -- . ; git -C /repo status --short | grep -v '^??' | head -2
  keys=$(grep -aE '^VIOLATION' /root/detect/$id.out | sed -E 's/.* key=([^ ]+) .*/\1/' | sort -u | head -6 | paste -sd' ')
  echo "$id rc=$rc keys: $keys"
done
