# property claims; exec'd by mkmanifest.py (uses claim())
VALNOTE = "Trusted base: the independent reference codec harness/cqlref (written from the native-protocol spec, self-tested against known Cassandra byte vectors at start-up); the set of 'documented' Go types is read off the doc comments of Marshal/Unmarshal. Sampling, not exhaustion: boundary-biased generation over protocol versions 1-5, type trees to depth 3/4."
claim("C02", "exploration",
      "Runs the real gocql.Marshal and gocql.Unmarshal on hundreds of thousands (quick) / millions (thorough) of generated (protocol version, CQL type tree, boundary value, documented Go source type, documented Go target types) cases and checks that a successful Marshal decodes back to the same logical value in every target able to represent it, incl. null / empty / zero distinctions. Held on the cases observed; not a proof.",
      VALNOTE, "runtime oracle: generated round-trip + cross-type decode, compared through an independent logical value model", "4/C02")
claim("C12", "exploration",
      "Differential run of gocql.Marshal against the independent reference serializer byte for byte (order-insensitive only for Go-map sourced sets/maps, plus canonical re-encoding), and of gocql.Unmarshal on the reference's bytes; same generator as C02.",
      VALNOTE, "runtime oracle: byte-exact differential testing against a reference codec written from the spec", "4/C12")
claim("C09", "exploration",
      "Runs the driver's three partitioners (both block readers: unsafe and appengine builds, and once under checkptr) on keys of every length 0..96 x byte patterns plus random keys, and token-string ordering, against an independent implementation of Cassandra's token functions.",
      "Trusted base: cqlref.Murmur3Token / RandomToken (self-tested on the published DataStax/Cassandra vectors covering every tail length and the signed-byte case). The Long.MIN_VALUE normalisation needs a hash pre-image and is out of reach.",
      "runtime oracle: differential testing of token functions against an independent Cassandra-compatible implementation", "4/C09")
claim("C10", "exploration",
      "Runs the driver's replica-map computation and token-aware lookup on generated rings (vnodes, uneven racks, unknown DCs, rf 0..6, three partitioners, several policy initialisation orders) and compares with an independent implementation of Cassandra's SimpleStrategy/NetworkTopologyStrategy; a small parameter box (<=4 nodes x <=2 tokens x <=2 DCs x <=2 racks x rf<=3, all DC/rack assignments) is enumerated completely.",
      "Trusted base: cqlref placement (2.x and 3.x NTS formulations cross-checked on every case; a disagreement is reported as inconclusive). NTS is compared as a set plus first replica, SimpleStrategy as an exact sequence.",
      "runtime oracle: differential testing of placement against a reference model, exhaustive over a small box", "4/C10")
claim("C11", "exploration",
      "Drives the real selection policies (round-robin, DC-aware, rack-aware, token-aware over each, with/without shuffling and non-local replica fallback) over generated cluster states and checks every returned host sequence: finite, up hosts only, no repeats, complete, replica prefix per tier, tiers non-decreasing, rotation of the starting host; plus picks racing host add/remove/up/down under the race detector (safety only) and a porcupine linearizability check of the copy-on-write host list.",
      "Trusted base: the tier definitions stated in the evidence; the replica list is the driver's own (C10 decides its correctness); porcupine v1.3.0. Interleavings are whatever stress produces; a checker timeout is inconclusive.",
      "runtime monitor on policy output sequences + Go race detector + porcupine linearizability check of recorded histories", "4/C11")
