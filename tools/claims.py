# property claims; exec'd by mkmanifest.py (uses claim())
VALNOTE = "Trusted base: the independent reference codec harness/cqlref (written from the native-protocol spec, self-tested against known Cassandra byte vectors at start-up); the set of 'documented' Go types is read off the doc comments of Marshal/Unmarshal. Sampling, not exhaustion: boundary-biased generation over protocol versions 1-5, type trees to depth 3/4."
claim("C02", "exploration",
      "Runs the real gocql.Marshal and gocql.Unmarshal on hundreds of thousands (quick) / millions (thorough) of generated (protocol version, CQL type tree, boundary value, documented Go source type, documented Go target types) cases and checks that a successful Marshal decodes back to the same logical value in every target able to represent it, incl. null / empty / zero distinctions. Held on the cases observed; not a proof.",
      VALNOTE, "runtime oracle: generated round-trip + cross-type decode, compared through an independent logical value model", "4/C02")
claim("C12", "exploration",
      "Differential run of gocql.Marshal against the independent reference serializer byte for byte (order-insensitive only for Go-map sourced sets/maps, plus canonical re-encoding), and of gocql.Unmarshal on the reference's bytes; same generator as C02.",
      VALNOTE, "runtime oracle: byte-exact differential testing against a reference codec written from the spec", "4/C12")
