#!/usr/bin/env python3
# Rebuild seeded/<id>/meta.json from the author's README, the confirmation run (tools/confirm_seed.sh)
# and the detection run (tools/seed_detect.sh output in /root/detect_all.out, if present).
import json, re, os, glob, sys
root = '/verif/seeded'
det = {}
p = sys.argv[1] if len(sys.argv) > 1 else '/root/detect_all.out'
if os.path.exists(p):
    for l in open(p):
        m = re.match(r'(C\d+-[A-Z]) rc=(\d+) keys: (.*)', l.strip())
        if m:
            det[m.group(1)] = (int(m.group(2)), m.group(3).split())
for d in sorted(glob.glob(root + '/C*-[A-Z]')):
    id = os.path.basename(d)
    readme = open(d + '/README.md').read()
    title = readme.strip().split('\n')[0].lstrip('# ').strip()
    m = re.search(r'(?is)(?:needed|needs)[^\n]*manifest[^\n]*\n(.*?)(\n##|\n\*\*[A-Z][a-z]+\*\*|\nDemo|\nCommands|\n---|\Z)', readme)
    needs = re.sub(r'\s+', ' ', m.group(1)).strip()[:900] if m else ''
    old = json.load(open(d + '/meta.json')) if os.path.exists(d + '/meta.json') else {}
    meta = {
        'id': id,
        'property': id.split('-')[0],
        'change': title,
        'needs_to_manifest': needs,
        'files_touched': sorted(set(re.findall(r'^\+\+\+ b/(\S+)', open(d + '/patch.diff').read(), re.M))),
        'confirmed_at_repo_commit': old.get('confirmed_at_repo_commit', ''),
        'what_was_run': old.get('what_was_run', []),
    }
    if id in det:
        rc, keys = det[id]
        checks = open(d + '/checks').read().split() if os.path.exists(d + '/checks') else [meta['property']]
        meta['detected_by'] = {'command': ' ; '.join('./check %s' % (p.replace(':thorough', ' thorough') if ':' in p else p + ' quick') for p in checks) + ' (VERIF_SEED=1), change applied with git apply to /repo (or, in a parallel sweep, to a scratch worktree of /repo - tools/seed_lanes.sh), undone with git checkout -- .',
                               'exit_code': rc, 'violation_keys': keys}
    elif 'detected_by' in old:
        meta['detected_by'] = old['detected_by']
    elif os.path.exists('/root/detect/%s.out' % id):
        # the raw output of the last detection run of this seed (an earlier sweep)
        txt = open('/root/detect/%s.out' % id, errors='replace').read()
        keys = sorted(set(re.findall(r'^VIOLATION .* key=(\S+) ', txt, re.M)))[:6]
        checks = open(d + '/checks').read().split() if os.path.exists(d + '/checks') else [meta['property']]
        meta['detected_by'] = {'command': ' ; '.join('./check %s' % (p.replace(':thorough', ' thorough') if ':' in p else p + ' quick') for p in checks) + ' (VERIF_SEED=1), change applied with git apply, undone with git checkout -- . (result of an earlier sweep)',
                               'exit_code': 1 if keys else 0, 'violation_keys': keys}
    json.dump(meta, open(d + '/meta.json', 'w'), indent=1)
    print(id, 'ok', len(needs))
